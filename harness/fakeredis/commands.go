package fakeredis

import (
	"fmt"
	"math"
	"sort"
	"strconv"
	"strings"
)

var knownCmds = map[string]bool{}

func init() {
	for _, n := range strings.Fields(`ping echo select info exists del unlink type set get mset setex psetex setnx append incr incrby decr
	hset hmset hget hgetall hdel hsetnx hexists hlen rpush lpush lrange llen lpop rpop sadd srem smembers scard zadd zrange zrangebyscore
	zrem zcard zscore zincrby pexpire pexpireat expire expireat pttl ttl persist restore xadd xgroup xsetid xclaim xrange xlen flushall flushdb
	dbsize eval evalsha script keys scan command cluster asking client config replconf publish readonly function rename
	getset incrbyfloat setrange bitop sunionstore lset ltrim linsert pfadd copy move swapdb hincrby spop xdel xtrim xautoclaim xack
	modq.set modq.mset`) {
		knownCmds[n] = true
	}
}

func (s *Server) known(name string) bool { return knownCmds[name] || s.AcceptUnknown }

var errWrongType = ErrRep("WRONGTYPE Operation against a key holding the wrong kind of value")

func atoi(b []byte) (int64, bool) {
	n, err := strconv.ParseInt(string(b), 10, 64)
	return n, err == nil
}

func (s *Server) getTyped(d DB, key string, typ string, create bool) (*Value, interface{}) {
	v := s.live(d, key)
	if v == nil {
		if !create {
			return nil, nil
		}
		v = &Value{Type: typ}
		switch typ {
		case "hash":
			v.Hash = map[string][]byte{}
		case "set":
			v.Set = map[string]struct{}{}
		case "zset":
			v.ZSet = map[string]float64{}
		case "stream":
			v.Stream = &Stream{Groups: map[string]*StreamGroup{}, LastID: "0-0"}
		}
		d[key] = v
		return v, nil
	}
	if v.Type != typ {
		return nil, errWrongType
	}
	return v, nil
}

func cp(b []byte) []byte { return append([]byte{}, b...) }

// execute applies one command to the keyspace and returns its reply.
func (s *Server) execute(c *conn, name string, a [][]byte) interface{} {
	d := s.db(c.db)
	argErr := ErrRep("ERR wrong number of arguments for '" + name + "' command")
	switch name {
	case "ping":
		if len(a) == 1 {
			return cp(a[0])
		}
		return Simple("PONG")
	case "echo":
		if len(a) != 1 {
			return argErr
		}
		return cp(a[0])
	case "asking":
		c.asking = true
		return Simple("OK")
	case "readonly", "client", "replconf", "script":
		return Simple("OK")
	case "publish":
		return 0
	case "select":
		if len(a) != 1 {
			return argErr
		}
		n, ok := atoi(a[0])
		if !ok || n < 0 || n > 63 {
			return ErrRep("ERR DB index is out of range")
		}
		if s.Cluster != nil && n != 0 {
			return ErrRep("ERR SELECT is not allowed in cluster mode")
		}
		c.db = int(n)
		return Simple("OK")
	case "info":
		return s.info(a)
	case "config":
		if len(a) >= 2 && strings.EqualFold(string(a[0]), "get") {
			if strings.EqualFold(string(a[1]), "databases") {
				return []interface{}{"databases", "16"}
			}
			return []interface{}{}
		}
		return Simple("OK")
	case "command":
		// COMMAND GETKEYS <cmd> <args...>: the keys of a command of a loaded module (modq.set key value / modq.mset key
		// value [key value ...] - what a static table cannot know), an error for anything this server does not know
		if len(a) >= 2 && strings.EqualFold(string(a[0]), "getkeys") {
			cn := strings.ToLower(string(a[1]))
			if !knownCmds[cn] {
				return ErrRep("ERR Invalid command specified")
			}
			ks := DefaultKeys(cn, a[2:])
			if len(ks) == 0 {
				return ErrRep("ERR The command has no key arguments")
			}
			out := []interface{}{}
			for _, k := range ks {
				out = append(out, cp(k))
			}
			return out
		}
		return []interface{}{}
	case "cluster":
		if s.Cluster == nil {
			return ErrRep("ERR This instance has cluster support disabled")
		}
		return s.Cluster.clusterCmd(s, a)
	case "dbsize":
		return len(s.Keys(c.db))
	case "flushall":
		s.DBs = map[int]DB{}
		return Simple("OK")
	case "flushdb":
		s.DBs[c.db] = DB{}
		return Simple("OK")
	case "keys":
		out := []interface{}{}
		for _, k := range s.Keys(c.db) {
			out = append(out, k)
		}
		return out
	case "scan":
		out := []interface{}{}
		for _, k := range s.Keys(c.db) {
			out = append(out, k)
		}
		return []interface{}{"0", out}
	case "exists":
		n := 0
		for _, k := range a {
			if s.live(d, string(k)) != nil {
				n++
			}
		}
		return n
	case "type":
		if len(a) != 1 {
			return argErr
		}
		v := s.live(d, string(a[0]))
		if v == nil {
			return Simple("none")
		}
		return Simple(v.Type)
	case "del", "unlink":
		n := 0
		for _, k := range a {
			if s.live(d, string(k)) != nil {
				delete(d, string(k))
				n++
			}
		}
		return n
	case "rename":
		if len(a) != 2 {
			return argErr
		}
		v := s.live(d, string(a[0]))
		if v == nil {
			return ErrRep("ERR no such key")
		}
		delete(d, string(a[0]))
		d[string(a[1])] = v
		return Simple("OK")
	case "set":
		return s.cmdSet(d, a)
	case "modq.set":
		if len(a) != 2 {
			return argErr
		}
		d[string(a[0])] = &Value{Type: "string", Str: cp(a[1])}
		return Simple("OK")
	case "setnx":
		if len(a) != 2 {
			return argErr
		}
		if s.live(d, string(a[0])) != nil {
			return 0
		}
		d[string(a[0])] = &Value{Type: "string", Str: cp(a[1])}
		return 1
	case "getset":
		if len(a) != 2 {
			return argErr
		}
		var old interface{} = Nil{}
		if v := s.live(d, string(a[0])); v != nil {
			if v.Type != "string" {
				return errWrongType
			}
			old = v.Str
		}
		d[string(a[0])] = &Value{Type: "string", Str: cp(a[1])}
		return old
	case "setex", "psetex":
		if len(a) != 3 {
			return argErr
		}
		n, ok := atoi(a[1])
		if !ok || n <= 0 {
			return ErrRep("ERR invalid expire time in '" + name + "' command")
		}
		if name == "setex" {
			n *= 1000
		}
		d[string(a[0])] = &Value{Type: "string", Str: cp(a[2]), ExpireAt: s.NowMs + n}
		return Simple("OK")
	case "get":
		if len(a) != 1 {
			return argErr
		}
		v := s.live(d, string(a[0]))
		if v == nil {
			return Nil{}
		}
		if v.Type != "string" {
			return errWrongType
		}
		return v.Str
	case "mset", "modq.mset":
		if len(a) == 0 || len(a)%2 != 0 {
			return argErr
		}
		for i := 0; i < len(a); i += 2 {
			d[string(a[i])] = &Value{Type: "string", Str: cp(a[i+1])}
		}
		return Simple("OK")
	case "append":
		if len(a) != 2 {
			return argErr
		}
		v, e := s.getTyped(d, string(a[0]), "string", true)
		if e != nil {
			return e
		}
		v.Str = append(v.Str, a[1]...)
		return len(v.Str)
	case "incr", "decr", "incrby":
		if len(a) < 1 {
			return argErr
		}
		by := int64(1)
		if name == "decr" {
			by = -1
		}
		if name == "incrby" {
			if len(a) != 2 {
				return argErr
			}
			n, ok := atoi(a[1])
			if !ok {
				return ErrRep("ERR value is not an integer or out of range")
			}
			by = n
		}
		v, e := s.getTyped(d, string(a[0]), "string", true)
		if e != nil {
			return e
		}
		cur := int64(0)
		if len(v.Str) > 0 {
			n, ok := atoi(v.Str)
			if !ok {
				return ErrRep("ERR value is not an integer or out of range")
			}
			cur = n
		}
		cur += by
		v.Str = []byte(strconv.FormatInt(cur, 10))
		return cur
	case "hset", "hmset":
		if len(a) < 3 || len(a)%2 != 1 {
			return argErr
		}
		v, e := s.getTyped(d, string(a[0]), "hash", true)
		if e != nil {
			return e
		}
		n := 0
		for i := 1; i < len(a); i += 2 {
			if _, ok := v.Hash[string(a[i])]; !ok {
				v.HashOrder = append(v.HashOrder, string(a[i]))
				n++
			}
			v.Hash[string(a[i])] = cp(a[i+1])
		}
		if name == "hmset" {
			return Simple("OK")
		}
		return n
	case "hsetnx":
		if len(a) != 3 {
			return argErr
		}
		v, e := s.getTyped(d, string(a[0]), "hash", true)
		if e != nil {
			return e
		}
		if _, ok := v.Hash[string(a[1])]; ok {
			return 0
		}
		v.HashOrder = append(v.HashOrder, string(a[1]))
		v.Hash[string(a[1])] = cp(a[2])
		return 1
	case "hincrby":
		if len(a) != 3 {
			return argErr
		}
		v, e := s.getTyped(d, string(a[0]), "hash", true)
		if e != nil {
			return e
		}
		by, ok := atoi(a[2])
		if !ok {
			return ErrRep("ERR value is not an integer or out of range")
		}
		if _, ok := v.Hash[string(a[1])]; !ok {
			v.HashOrder = append(v.HashOrder, string(a[1]))
		}
		cur, _ := atoi(v.Hash[string(a[1])])
		cur += by
		v.Hash[string(a[1])] = []byte(strconv.FormatInt(cur, 10))
		return cur
	case "hget":
		if len(a) != 2 {
			return argErr
		}
		v, e := s.getTyped(d, string(a[0]), "hash", false)
		if e != nil {
			return e
		}
		if v == nil {
			return Nil{}
		}
		x, ok := v.Hash[string(a[1])]
		if !ok {
			return Nil{}
		}
		return x
	case "hexists":
		if len(a) != 2 {
			return argErr
		}
		v, e := s.getTyped(d, string(a[0]), "hash", false)
		if e != nil {
			return e
		}
		if v == nil {
			return 0
		}
		if _, ok := v.Hash[string(a[1])]; ok {
			return 1
		}
		return 0
	case "hlen":
		v, e := s.getTyped(d, string(a[0]), "hash", false)
		if e != nil {
			return e
		}
		if v == nil {
			return 0
		}
		return len(v.Hash)
	case "hgetall":
		if len(a) != 1 {
			return argErr
		}
		v, e := s.getTyped(d, string(a[0]), "hash", false)
		if e != nil {
			return e
		}
		out := []interface{}{}
		if v == nil {
			return out
		}
		// a small hash of a real server is a listpack: HGETALL answers in insertion order (the tool's checkpoint parser
		// depends on it when entries of two run ids share one hash).  Fields the harness put there directly (no recorded
		// age) are the oldest: they come first, sorted.
		tracked := map[string]bool{}
		for _, k := range v.HashOrder {
			tracked[k] = true
		}
		ks := make([]string, 0, len(v.Hash))
		for k := range v.Hash {
			if !tracked[k] {
				ks = append(ks, k)
			}
		}
		sort.Strings(ks)
		for _, k := range ks {
			out = append(out, []byte(k), v.Hash[k])
		}
		seen := map[string]bool{}
		for _, k := range v.HashOrder {
			if x, ok := v.Hash[k]; ok && !seen[k] {
				seen[k] = true
				out = append(out, []byte(k), x)
			}
		}
		return out
	case "hdel":
		if len(a) < 2 {
			return argErr
		}
		v, e := s.getTyped(d, string(a[0]), "hash", false)
		if e != nil {
			return e
		}
		if v == nil {
			return 0
		}
		n := 0
		for _, f := range a[1:] {
			if _, ok := v.Hash[string(f)]; ok {
				delete(v.Hash, string(f))
				n++
				for i, o := range v.HashOrder {
					if o == string(f) {
						v.HashOrder = append(v.HashOrder[:i:i], v.HashOrder[i+1:]...)
						break
					}
				}
			}
		}
		if len(v.Hash) == 0 {
			delete(d, string(a[0]))
		}
		return n
	case "rpush", "lpush":
		if len(a) < 2 {
			return argErr
		}
		v, e := s.getTyped(d, string(a[0]), "list", true)
		if e != nil {
			return e
		}
		for _, x := range a[1:] {
			if name == "rpush" {
				v.List = append(v.List, cp(x))
			} else {
				v.List = append([][]byte{cp(x)}, v.List...)
			}
		}
		return len(v.List)
	case "lpop", "rpop":
		v, e := s.getTyped(d, string(a[0]), "list", false)
		if e != nil {
			return e
		}
		if v == nil || len(v.List) == 0 {
			return Nil{}
		}
		var x []byte
		if name == "lpop" {
			x, v.List = v.List[0], v.List[1:]
		} else {
			x, v.List = v.List[len(v.List)-1], v.List[:len(v.List)-1]
		}
		if len(v.List) == 0 {
			delete(d, string(a[0]))
		}
		return x
	case "llen":
		v, e := s.getTyped(d, string(a[0]), "list", false)
		if e != nil {
			return e
		}
		if v == nil {
			return 0
		}
		return len(v.List)
	case "lrange":
		v, e := s.getTyped(d, string(a[0]), "list", false)
		if e != nil {
			return e
		}
		out := []interface{}{}
		if v != nil {
			for _, x := range v.List {
				out = append(out, x)
			}
		}
		return out
	case "sadd":
		if len(a) < 2 {
			return argErr
		}
		v, e := s.getTyped(d, string(a[0]), "set", true)
		if e != nil {
			return e
		}
		n := 0
		for _, x := range a[1:] {
			if _, ok := v.Set[string(x)]; !ok {
				v.Set[string(x)] = struct{}{}
				n++
			}
		}
		return n
	case "srem":
		v, e := s.getTyped(d, string(a[0]), "set", false)
		if e != nil {
			return e
		}
		if v == nil {
			return 0
		}
		n := 0
		for _, x := range a[1:] {
			if _, ok := v.Set[string(x)]; ok {
				delete(v.Set, string(x))
				n++
			}
		}
		if len(v.Set) == 0 {
			delete(d, string(a[0]))
		}
		return n
	case "scard":
		v, e := s.getTyped(d, string(a[0]), "set", false)
		if e != nil {
			return e
		}
		if v == nil {
			return 0
		}
		return len(v.Set)
	case "smembers":
		v, e := s.getTyped(d, string(a[0]), "set", false)
		if e != nil {
			return e
		}
		out := []interface{}{}
		if v != nil {
			ks := make([]string, 0)
			for k := range v.Set {
				ks = append(ks, k)
			}
			sort.Strings(ks)
			for _, k := range ks {
				out = append(out, k)
			}
		}
		return out
	case "zadd":
		return s.cmdZadd(d, a)
	case "zincrby":
		if len(a) != 3 {
			return argErr
		}
		v, e := s.getTyped(d, string(a[0]), "zset", true)
		if e != nil {
			return e
		}
		f, err := strconv.ParseFloat(string(a[1]), 64)
		if err != nil {
			return ErrRep("ERR value is not a valid float")
		}
		v.ZSet[string(a[2])] += f
		return strconv.FormatFloat(v.ZSet[string(a[2])], 'g', 17, 64)
	case "zrem":
		if len(a) < 2 {
			return argErr
		}
		v, e := s.getTyped(d, string(a[0]), "zset", false)
		if e != nil {
			return e
		}
		if v == nil {
			return 0
		}
		n := 0
		for _, x := range a[1:] {
			if _, ok := v.ZSet[string(x)]; ok {
				delete(v.ZSet, string(x))
				n++
			}
		}
		if len(v.ZSet) == 0 {
			delete(d, string(a[0]))
		}
		return n
	case "zcard":
		v, e := s.getTyped(d, string(a[0]), "zset", false)
		if e != nil {
			return e
		}
		if v == nil {
			return 0
		}
		return len(v.ZSet)
	case "zscore":
		v, e := s.getTyped(d, string(a[0]), "zset", false)
		if e != nil {
			return e
		}
		if v == nil {
			return Nil{}
		}
		sc, ok := v.ZSet[string(a[1])]
		if !ok {
			return Nil{}
		}
		return strconv.FormatFloat(sc, 'g', 17, 64)
	case "zrange", "zrangebyscore":
		return s.cmdZrange(d, name, a)
	case "pexpire", "expire", "pexpireat", "expireat":
		if len(a) < 2 {
			return argErr
		}
		n, ok := atoi(a[1])
		if !ok {
			return ErrRep("ERR value is not an integer or out of range")
		}
		v := s.live(d, string(a[0]))
		if v == nil {
			return 0
		}
		switch name {
		case "expire":
			n = s.NowMs + n*1000
		case "pexpire":
			n = s.NowMs + n
		case "expireat":
			n = n * 1000
		}
		if n <= s.NowMs {
			delete(d, string(a[0]))
			return 1
		}
		v.ExpireAt = n
		return 1
	case "persist":
		v := s.live(d, string(a[0]))
		if v == nil || v.ExpireAt == 0 {
			return 0
		}
		v.ExpireAt = 0
		return 1
	case "pttl", "ttl":
		v := s.live(d, string(a[0]))
		if v == nil {
			return -2
		}
		if v.ExpireAt == 0 {
			return -1
		}
		if name == "ttl" {
			return (v.ExpireAt - s.NowMs + 999) / 1000
		}
		return v.ExpireAt - s.NowMs
	case "restore":
		return s.cmdRestore(d, a)
	case "xadd":
		return s.cmdXadd(d, a)
	case "xgroup", "xsetid", "xclaim":
		return s.cmdXadmin(d, name, a)
	case "xlen":
		v, e := s.getTyped(d, string(a[0]), "stream", false)
		if e != nil {
			return e
		}
		if v == nil {
			return 0
		}
		return len(v.Stream.Entries)
	case "eval":
		if s.Eval == nil || len(a) < 2 {
			return ErrRep("ERR fakeredis: EVAL not supported here")
		}
		nk, ok := atoi(a[1])
		if !ok || int(nk) > len(a)-2 {
			return ErrRep("ERR Number of keys can't be greater than number of args")
		}
		return s.Eval(s, c.db, string(a[0]), a[2:2+nk], a[2+nk:])
	case "function":
		return Simple("OK")
	}
	if s.AcceptUnknown && len(a) > 0 {
		v := s.live(d, string(a[0]))
		if v == nil {
			d[string(a[0])] = &Value{Type: "opaque", Opaque: name}
		}
		return Simple("OK")
	}
	return ErrRep("ERR unknown command '" + name + "'")
}

func (s *Server) cmdSet(d DB, a [][]byte) interface{} {
	if len(a) < 2 {
		return ErrRep("ERR wrong number of arguments for 'set' command")
	}
	var exp int64
	nx, xx, keepttl, get := false, false, false, false
	for i := 2; i < len(a); i++ {
		o := strings.ToLower(string(a[i]))
		switch o {
		case "nx":
			nx = true
		case "xx":
			xx = true
		case "keepttl":
			keepttl = true
		case "get":
			get = true
		case "ex", "px", "exat", "pxat":
			if i+1 >= len(a) {
				return ErrRep("ERR syntax error")
			}
			n, ok := atoi(a[i+1])
			if !ok || n <= 0 {
				return ErrRep("ERR invalid expire time in 'set' command")
			}
			switch o {
			case "ex":
				exp = s.NowMs + n*1000
			case "px":
				exp = s.NowMs + n
			case "exat":
				exp = n * 1000
			case "pxat":
				exp = n
			}
			i++
		default:
			return ErrRep("ERR syntax error")
		}
	}
	old := s.live(d, string(a[0]))
	var oldRep interface{} = Nil{}
	if old != nil && old.Type == "string" {
		oldRep = old.Str
	}
	if (nx && old != nil) || (xx && old == nil) {
		if get {
			return oldRep
		}
		return Nil{}
	}
	nv := &Value{Type: "string", Str: cp(a[1]), ExpireAt: exp}
	if keepttl && old != nil {
		nv.ExpireAt = old.ExpireAt
	}
	if nv.ExpireAt != 0 && nv.ExpireAt <= s.NowMs {
		delete(d, string(a[0]))
	} else {
		d[string(a[0])] = nv
	}
	if get {
		return oldRep
	}
	return Simple("OK")
}

func parseScore(b []byte) (float64, bool) {
	t := strings.ToLower(string(b))
	switch t {
	case "inf", "+inf":
		return math.Inf(1), true
	case "-inf":
		return math.Inf(-1), true
	}
	f, err := strconv.ParseFloat(t, 64)
	return f, err == nil
}

func (s *Server) cmdZadd(d DB, a [][]byte) interface{} {
	if len(a) < 3 {
		return ErrRep("ERR wrong number of arguments for 'zadd' command")
	}
	i := 1
	for i < len(a) {
		o := strings.ToLower(string(a[i]))
		if o == "nx" || o == "xx" || o == "ch" || o == "gt" || o == "lt" || o == "incr" {
			i++
			continue
		}
		break
	}
	if (len(a)-i)%2 != 0 || len(a)-i == 0 {
		return ErrRep("ERR syntax error")
	}
	v, e := s.getTyped(d, string(a[0]), "zset", true)
	if e != nil {
		return e
	}
	n := 0
	for ; i < len(a); i += 2 {
		f, ok := parseScore(a[i])
		if !ok {
			return ErrRep("ERR value is not a valid float")
		}
		if _, ok := v.ZSet[string(a[i+1])]; !ok {
			n++
		}
		v.ZSet[string(a[i+1])] = f
	}
	return n
}

func (s *Server) cmdZrange(d DB, name string, a [][]byte) interface{} {
	if len(a) < 3 {
		return ErrRep("ERR wrong number of arguments")
	}
	v, e := s.getTyped(d, string(a[0]), "zset", false)
	if e != nil {
		return e
	}
	out := []interface{}{}
	if v == nil {
		return out
	}
	type ms struct {
		m string
		s float64
	}
	var all []ms
	for m, sc := range v.ZSet {
		all = append(all, ms{m, sc})
	}
	sort.Slice(all, func(i, j int) bool {
		if all[i].s != all[j].s {
			return all[i].s < all[j].s
		}
		return all[i].m < all[j].m
	})
	withScores := false
	limitOff, limitCnt := 0, -1
	for i := 3; i < len(a); i++ {
		o := strings.ToLower(string(a[i]))
		if o == "withscores" {
			withScores = true
		}
		if o == "limit" && i+2 < len(a) {
			x, _ := atoi(a[i+1])
			y, _ := atoi(a[i+2])
			limitOff, limitCnt = int(x), int(y)
			i += 2
		}
	}
	var sel []ms
	if name == "zrangebyscore" {
		parse := func(b []byte) (float64, bool) {
			ex := false
			if len(b) > 0 && b[0] == '(' {
				ex = true
				b = b[1:]
			}
			f, _ := parseScore(b)
			return f, ex
		}
		lo, loEx := parse(a[1])
		hi, hiEx := parse(a[2])
		for _, x := range all {
			if (x.s > lo || (!loEx && x.s == lo)) && (x.s < hi || (!hiEx && x.s == hi)) {
				sel = append(sel, x)
			}
		}
		if limitOff > 0 {
			if limitOff >= len(sel) {
				sel = nil
			} else {
				sel = sel[limitOff:]
			}
		}
		if limitCnt >= 0 && limitCnt < len(sel) {
			sel = sel[:limitCnt]
		}
	} else {
		lo, _ := atoi(a[1])
		hi, _ := atoi(a[2])
		n := int64(len(all))
		if lo < 0 {
			lo += n
		}
		if hi < 0 {
			hi += n
		}
		if lo < 0 {
			lo = 0
		}
		if hi >= n {
			hi = n - 1
		}
		for i := lo; i <= hi; i++ {
			sel = append(sel, all[i])
		}
	}
	for _, x := range sel {
		out = append(out, x.m)
		if withScores {
			out = append(out, strconv.FormatFloat(x.s, 'g', 17, 64))
		}
	}
	return out
}

func (s *Server) cmdRestore(d DB, a [][]byte) interface{} {
	if len(a) < 3 {
		return ErrRep("ERR wrong number of arguments for 'restore' command")
	}
	ttl, ok := atoi(a[1])
	if !ok || ttl < 0 {
		return ErrRep("ERR Invalid TTL value, must be >= 0")
	}
	replace, absttl := false, false
	for i := 3; i < len(a); i++ {
		switch strings.ToLower(string(a[i])) {
		case "replace":
			replace = true
		case "absttl":
			absttl = true
		case "idletime", "freq":
			i++
		default:
			return ErrRep("ERR syntax error")
		}
	}
	if s.live(d, string(a[0])) != nil && !replace {
		return ErrRep("BUSYKEY Target key name already exists.")
	}
	if s.RestoreDecoder == nil {
		return ErrRep("ERR fakeredis: no RESTORE decoder installed")
	}
	v, errText := s.RestoreDecoder(a[0], a[2])
	if v == nil {
		return ErrRep("ERR " + errText)
	}
	if ttl != 0 {
		if absttl {
			v.ExpireAt = ttl
		} else {
			v.ExpireAt = s.NowMs + ttl
		}
	}
	delete(d, string(a[0]))
	if v.ExpireAt == 0 || v.ExpireAt > s.NowMs {
		d[string(a[0])] = v
	}
	return Simple("OK")
}

func (s *Server) cmdXadd(d DB, a [][]byte) interface{} {
	// XADD key [NOMKSTREAM] [MAXLEN|MINID ...] id field value ...
	if len(a) < 4 {
		return ErrRep("ERR wrong number of arguments for 'xadd' command")
	}
	i := 1
	trimAll := false
	for i < len(a) {
		o := strings.ToLower(string(a[i]))
		if o == "nomkstream" {
			i++
			continue
		}
		if o == "maxlen" || o == "minid" {
			i++
			if i < len(a) && (string(a[i]) == "~" || string(a[i]) == "=") {
				i++
			}
			if o == "maxlen" && i < len(a) && string(a[i]) == "0" {
				trimAll = true
			}
			i++
			if i+1 < len(a) && strings.ToLower(string(a[i])) == "limit" {
				i += 2
			}
			continue
		}
		break
	}
	if i >= len(a) || (len(a)-i-1)%2 != 0 || len(a)-i-1 == 0 {
		return ErrRep("ERR wrong number of arguments for 'xadd' command")
	}
	v, e := s.getTyped(d, string(a[0]), "stream", true)
	if e != nil {
		return e
	}
	id := string(a[i])
	var fields [][]byte
	for _, f := range a[i+1:] {
		fields = append(fields, cp(f))
	}
	v.Stream.Entries = append(v.Stream.Entries, StreamEntry{ID: id, Fields: fields})
	v.Stream.LastID = id
	if trimAll {
		v.Stream.Entries = nil // XADD key MAXLEN 0 id ..: the way to create an empty stream
	}
	return id
}

func (s *Server) cmdXadmin(d DB, name string, a [][]byte) interface{} {
	if len(a) < 1 {
		return ErrRep("ERR wrong number of arguments")
	}
	key := string(a[0])
	if name == "xgroup" {
		if len(a) < 2 {
			return ErrRep("ERR wrong number of arguments")
		}
		key = string(a[1])
	}
	create := false
	for _, x := range a {
		if name == "xgroup" && strings.EqualFold(string(x), "mkstream") {
			create = true
		}
	}
	v, e := s.getTyped(d, key, "stream", create)
	if e != nil {
		return e
	}
	if v == nil {
		if name == "xgroup" {
			return ErrRep("ERR The XGROUP subcommand requires the key to exist. Note that for CREATE you may want to use the MKSTREAM option to create an empty stream automatically.")
		}
		return ErrRep("ERR no such key")
	}
	// the argument checks of t_stream.c that a replayed snapshot can run into
	for i := 0; i+1 < len(a); i++ {
		switch o := strings.ToLower(string(a[i])); {
		case name == "xgroup" && o == "entriesread":
			n, err := strconv.ParseInt(string(a[i+1]), 10, 64)
			if err != nil {
				return ErrRep("ERR value is not an integer or out of range")
			}
			if n < -1 {
				return ErrRep("ERR value for ENTRIESREAD must be positive or -1")
			}
		case name == "xsetid" && o == "entriesadded":
			n, err := strconv.ParseInt(string(a[i+1]), 10, 64)
			if err != nil || n < 0 {
				return ErrRep("ERR entries_added must be positive")
			}
			if n < int64(len(v.Stream.Entries)) {
				return ErrRep("ERR The entries_added specified in XSETID is smaller than the target stream length")
			}
		case name == "xsetid" && o == "maxdeletedid":
			if len(a) > 1 && streamIDLess(string(a[1]), string(a[i+1])) {
				return ErrRep("ERR The ID specified in XSETID is smaller than the provided max_deleted_entry_id")
			}
		}
	}
	if name == "xsetid" && len(a) > 1 && len(v.Stream.Entries) > 0 && streamIDLess(string(a[1]), v.Stream.Entries[len(v.Stream.Entries)-1].ID) {
		return ErrRep("ERR The ID specified in XSETID is smaller than the target stream top item")
	}
	parts := []string{name}
	for _, x := range a {
		parts = append(parts, string(x))
	}
	v.Stream.Extra = append(v.Stream.Extra, strings.Join(parts, " "))
	if name == "xclaim" {
		return []interface{}{}
	}
	return Simple("OK")
}

func streamIDLess(a, b string) bool {
	pa, pb := strings.SplitN(a, "-", 2), strings.SplitN(b, "-", 2)
	if len(pa) != 2 || len(pb) != 2 {
		return false
	}
	am, _ := strconv.ParseUint(pa[0], 10, 64)
	as, _ := strconv.ParseUint(pa[1], 10, 64)
	bm, _ := strconv.ParseUint(pb[0], 10, 64)
	bs, _ := strconv.ParseUint(pb[1], 10, 64)
	return am < bm || (am == bm && as < bs)
}

func (s *Server) info(a [][]byte) interface{} {
	sec := ""
	if len(a) > 0 {
		sec = strings.ToLower(string(a[0]))
	}
	var b strings.Builder
	if sec == "" || sec == "server" {
		b.WriteString("# Server\r\nredis_version:7.0.0\r\n")
	}
	if sec == "" || sec == "replication" {
		b.WriteString("# Replication\r\nrole:master\r\n")
		for k, v := range s.InfoExtra {
			fmt.Fprintf(&b, "%s:%s\r\n", k, v)
		}
	}
	if sec == "" || sec == "keyspace" {
		b.WriteString("# Keyspace\r\n")
		var dbs []int
		for n := range s.DBs {
			dbs = append(dbs, n)
		}
		sort.Ints(dbs)
		for _, n := range dbs {
			if ks := s.Keys(n); len(ks) > 0 {
				fmt.Fprintf(&b, "db%d:keys=%d,expires=0,avg_ttl=0\r\n", n, len(ks))
			}
		}
	}
	if sec == "cluster" {
		if s.Cluster != nil {
			b.WriteString("# Cluster\r\ncluster_enabled:1\r\n")
		} else {
			b.WriteString("# Cluster\r\ncluster_enabled:0\r\n")
		}
	}
	return b.String()
}
