package fakeredis

import (
	"fmt"
	"sort"
	"strconv"
	"strings"
	"sync"
	"sync/atomic"
)

// ClusterState is shared by the node Servers of one fake cluster.  All access
// happens under the lock of the node executing a request plus cs's own lock
// ordering: node.mu -> (no other node lock is ever taken).  Shared mutable
// fields are therefore only touched through the ClusterLock helpers below.
type ClusterState struct {
	Nodes     []*Server // index = node id
	Owner     [16384]int
	Migrating map[int]int // slot -> destination node (set on the source node)
	Importing map[int]int // slot -> source node (set on the destination node)
	// KeyFn returns the key positions of a command (independent table); nil result = keyless
	KeyFn func(name string, args [][]byte) [][]byte
	// OnRoute is called before the routing decision with the number of routed requests so far
	OnRoute func(cs *ClusterState, n int)
	routed  int
	// Violations collects oracle-side observations (cross-slot MULTI etc.)
	CrossSlotTxns int
	// GSeq orders the requests of all nodes; GCrashAfter >= 0: the whole cluster dies once GSeq passes it
	GSeq atomic.Int64
	// GCount, when set, selects the requests that count towards the crash limit (counter GW); else all do (GSeq)
	GCount func(name string) bool
	GW     atomic.Int64
	// Serialize makes the nodes execute one request at a time cluster-wide (lock Big, taken after the node's own
	// lock), so that OnRoute may change topology and move keys between nodes atomically and ESeq is a total order
	Serialize bool
	// ExecRecheck: EXEC judges the ownership of every queued command again (as Redis does)
	ExecRecheck bool
	Big         sync.Mutex
	ESeq        atomic.Int64
	GCrashAfter atomic.Int64
	GCrashed    atomic.Bool
}

// NewCluster starts n node servers sharing one cluster state; slots are split evenly.
func NewCluster(n int) (*ClusterState, error) {
	cs := &ClusterState{Migrating: map[int]int{}, Importing: map[int]int{}}
	cs.GCrashAfter.Store(-1)
	for i := 0; i < n; i++ {
		s := New()
		s.Cluster, s.NodeID, s.KeepRaw = cs, i, true
		if _, err := s.Start(); err != nil {
			return nil, err
		}
		cs.Nodes = append(cs.Nodes, s)
	}
	for sl := 0; sl < 16384; sl++ {
		cs.Owner[sl] = sl * n / 16384
	}
	return cs, nil
}

func (cs *ClusterState) Close() {
	for _, n := range cs.Nodes {
		n.Close()
	}
}

// Addrs returns the node addresses.
func (cs *ClusterState) Addrs() []string {
	var out []string
	for _, n := range cs.Nodes {
		out = append(out, n.Addr())
	}
	return out
}

// CrashAll closes every connection of every node.
func (cs *ClusterState) CrashAll() {
	cs.GCrashed.Store(true)
	for _, n := range cs.Nodes {
		n.Crash()
	}
}

func (cs *ClusterState) Revive() {
	cs.GCrashAfter.Store(-1)
	cs.GCrashed.Store(false)
	for _, n := range cs.Nodes {
		n.Revive()
	}
}

func (cs *ClusterState) ConnCount() int {
	c := 0
	for _, n := range cs.Nodes {
		c += n.ConnCount()
	}
	return c
}

// RawMerged returns the raw requests of all nodes in global arrival order; Conn ids are made unique per node.
func (cs *ClusterState) RawMerged() []Entry {
	var out []Entry
	for i, n := range cs.Nodes {
		for _, e := range n.RawCopy() {
			e.Conn += i * 100000
			out = append(out, e)
		}
	}
	sort.Slice(out, func(i, j int) bool { return out[i].Seq < out[j].Seq })
	return out
}

// LogMerged returns the executed commands of all nodes (order within a node only).
func (cs *ClusterState) LogMerged() []Entry {
	var out []Entry
	for _, n := range cs.Nodes {
		out = append(out, n.LogCopy()...)
	}
	return out
}

// Independent HASH_SLOT (CRC16/XMODEM bitwise, first '{' ... first following '}').
func HashSlot(key []byte) int {
	k := key
	if i := indexByte(key, '{'); i >= 0 {
		if j := indexByte(key[i+1:], '}'); j > 0 {
			k = key[i+1 : i+1+j]
		}
	}
	var crc uint16
	for _, b := range k {
		crc ^= uint16(b) << 8
		for i := 0; i < 8; i++ {
			if crc&0x8000 != 0 {
				crc = crc<<1 ^ 0x1021
			} else {
				crc <<= 1
			}
		}
	}
	return int(crc % 16384)
}

func indexByte(b []byte, c byte) int {
	for i, x := range b {
		if x == c {
			return i
		}
	}
	return -1
}

func (cs *ClusterState) keys(name string, args [][]byte) [][]byte {
	if cs.KeyFn != nil {
		return cs.KeyFn(name, args)
	}
	return DefaultKeys(name, args)
}

// DefaultKeys is an independently written key-position table for the command
// set the harness generates.
func DefaultKeys(name string, a [][]byte) [][]byte {
	switch name {
	case "ping", "echo", "select", "info", "multi", "exec", "discard", "asking", "cluster", "client", "config",
		"command", "readonly", "replconf", "publish", "script", "function", "flushall", "flushdb", "dbsize", "keys", "scan":
		return nil
	case "del", "unlink", "exists":
		return a
	case "mset", "modq.mset":
		var ks [][]byte
		for i := 0; i < len(a); i += 2 {
			ks = append(ks, a[i])
		}
		return ks
	case "rename", "copy":
		if len(a) >= 2 {
			return a[:2]
		}
		return a
	case "eval", "evalsha":
		if len(a) >= 2 {
			n, _ := strconv.Atoi(string(a[1]))
			if n >= 0 && 2+n <= len(a) {
				return a[2 : 2+n]
			}
		}
		return nil
	case "xgroup":
		if len(a) >= 2 {
			return a[1:2]
		}
		return nil
	case "bitop":
		if len(a) >= 2 {
			return a[1:]
		}
		return nil
	case "sunionstore":
		return a
	}
	if len(a) > 0 {
		return a[:1]
	}
	return nil
}

// routeQuiet is route without counting the request or firing OnRoute (the second look at EXEC)
func (cs *ClusterState) routeQuiet(s *Server, c *conn, name string, args [][]byte) interface{} {
	ks := cs.keys(name, args)
	if len(ks) == 0 {
		return nil
	}
	return cs.decide(s, c, ks)
}

// route decides whether this node serves the request (nil) or answers with a
// redirection / error.
func (cs *ClusterState) route(s *Server, c *conn, name string, args [][]byte) interface{} {
	ks := cs.keys(name, args)
	if len(ks) == 0 {
		return nil
	}
	cs.routed++
	if cs.OnRoute != nil {
		cs.OnRoute(cs, cs.routed)
	}
	return cs.decide(s, c, ks)
}

func (cs *ClusterState) decide(s *Server, c *conn, ks [][]byte) interface{} {
	slot := HashSlot(ks[0])
	for _, k := range ks[1:] {
		if HashSlot(k) != slot {
			return ErrRep("CROSSSLOT Keys in request don't hash to the same slot")
		}
	}
	owner := cs.Owner[slot]
	addr := func(n int) string { return cs.Nodes[n].Addr() }
	if owner == s.NodeID {
		if dst, ok := cs.Migrating[slot]; ok {
			// key(s) absent here => ASK
			d := s.db(0)
			missing := 0
			for _, k := range ks {
				if s.live(d, string(k)) == nil {
					missing++
				}
			}
			if missing == len(ks) {
				return ErrRep(fmt.Sprintf("ASK %d %s", slot, addr(dst)))
			}
			if missing > 0 {
				return ErrRep("TRYAGAIN Multiple keys request during rehashing of slot")
			}
		}
		return nil
	}
	if _, ok := cs.Importing[slot]; ok && cs.importingNode(slot) == s.NodeID && c.asking {
		return nil
	}
	return ErrRep(fmt.Sprintf("MOVED %d %s", slot, addr(owner)))
}

func (cs *ClusterState) importingNode(slot int) int {
	// the importing node is the migration destination of the slot's owner
	if dst, ok := cs.Migrating[slot]; ok {
		return dst
	}
	return -1
}

// checkTxn is the oracle's own cross-slot test at EXEC time.
func (cs *ClusterState) checkTxn(s *Server, c *conn, q [][][]byte) interface{} {
	slot := -1
	for _, a := range q {
		for _, k := range cs.keys(strings.ToLower(string(a[0])), a[1:]) {
			sl := HashSlot(k)
			if slot == -1 {
				slot = sl
			} else if sl != slot {
				cs.CrossSlotTxns++
				return ErrRep("CROSSSLOT Keys in request don't hash to the same slot")
			}
		}
	}
	return nil
}

func (cs *ClusterState) clusterCmd(s *Server, a [][]byte) interface{} {
	if len(a) == 0 {
		return ErrRep("ERR wrong number of arguments")
	}
	switch strings.ToLower(string(a[0])) {
	case "slots":
		out := []interface{}{}
		start := 0
		for sl := 1; sl <= 16384; sl++ {
			if sl == 16384 || cs.Owner[sl] != cs.Owner[start] {
				n := cs.Nodes[cs.Owner[start]]
				host, port := splitAddr(n.Addr())
				out = append(out, []interface{}{int64(start), int64(sl - 1),
					[]interface{}{host, int64(port), fmt.Sprintf("node%040d", cs.Owner[start])}})
				start = sl
			}
		}
		return out
	case "nodes":
		var b strings.Builder
		for i, n := range cs.Nodes {
			flags := "master"
			if i == s.NodeID {
				flags = "myself,master"
			}
			fmt.Fprintf(&b, "node%040d %s@1%s %s - 0 0 %d connected", i, n.Addr(), portOf(n.Addr()), flags, i+1)
			start := -1
			for sl := 0; sl <= 16384; sl++ {
				if sl < 16384 && cs.Owner[sl] == i {
					if start < 0 {
						start = sl
					}
				} else if start >= 0 {
					if start == sl-1 {
						fmt.Fprintf(&b, " %d", start)
					} else {
						fmt.Fprintf(&b, " %d-%d", start, sl-1)
					}
					start = -1
				}
			}
			b.WriteString("\n")
		}
		return b.String()
	case "info":
		return "cluster_state:ok\r\ncluster_slots_assigned:16384\r\n"
	case "keyslot":
		if len(a) == 2 {
			return HashSlot(a[1])
		}
	case "myid":
		return fmt.Sprintf("node%040d", s.NodeID)
	}
	return ErrRep("ERR unknown cluster subcommand")
}

func splitAddr(addr string) (string, int) {
	i := strings.LastIndex(addr, ":")
	p, _ := strconv.Atoi(addr[i+1:])
	return addr[:i], p
}
func portOf(addr string) string {
	i := strings.LastIndex(addr, ":")
	return addr[i+1:]
}

// --- migration steps (call from OnRoute with Serialize set: the caller holds Big)

// BeginMigrate marks slot as migrating on its owner and importing on dst.
func (cs *ClusterState) BeginMigrate(slot, dst int) {
	if cs.Owner[slot] == dst {
		return
	}
	cs.Migrating[slot] = dst
	cs.Importing[slot] = cs.Owner[slot]
}

// MoveKeys moves every key of slot (or only those in keys, when given) from the owner to the migration destination.
func (cs *ClusterState) MoveKeys(slot int, keys ...string) int {
	dst, ok := cs.Migrating[slot]
	if !ok {
		return 0
	}
	src := cs.Nodes[cs.Owner[slot]]
	d, t := src.db(0), cs.Nodes[dst].db(0)
	n := 0
	for k, v := range d {
		if HashSlot([]byte(k)) != slot {
			continue
		}
		if len(keys) > 0 {
			found := false
			for _, x := range keys {
				found = found || x == k
			}
			if !found {
				continue
			}
		}
		t[k] = v
		delete(d, k)
		n++
	}
	return n
}

// FinishMigrate hands the slot over (remaining keys are moved first).
func (cs *ClusterState) FinishMigrate(slot int) {
	dst, ok := cs.Migrating[slot]
	if !ok {
		return
	}
	cs.MoveKeys(slot)
	cs.Owner[slot] = dst
	delete(cs.Migrating, slot)
	delete(cs.Importing, slot)
}
