package fakeredis

import (
	"bufio"
	"net"
	"sort"
	"strings"
	"sync"
	"time"
)

// Value is one key's typed value.
type Value struct {
	Type      string // string | hash | list | set | zset | stream | opaque
	Str       []byte
	Hash      map[string][]byte
	HashOrder []string // field names in insertion order (deleted ones may linger; HGETALL skips them)
	List      [][]byte
	Set       map[string]struct{}
	ZSet      map[string]float64
	Stream    *Stream
	Opaque    interface{} // installed by RESTORE through Server.RestoreDecoder
	ExpireAt  int64       // absolute ms on the server's virtual clock; 0 = none
}

type StreamEntry struct {
	ID     string
	Fields [][]byte
}
type Stream struct {
	Entries []StreamEntry
	LastID  string
	Groups  map[string]*StreamGroup
	Extra   []string // other recorded stream admin operations (XSETID...)
}
type StreamGroup struct {
	LastID string
	PEL    []string // "id consumer" records in arrival order
	Cons   []string
}

type DB map[string]*Value

// Entry is one element of the execution log.
type Entry struct {
	Seq     int      // global order of execution
	Conn    int      // connection id
	DB      int      // database the command executed in
	Name    string   // lower-case command name
	Args    [][]byte // arguments (without the name)
	Blk     int      // 0 = outside MULTI/EXEC, otherwise id of the EXEC that applied it
	Err     string   // error reply, if the command failed
	InMulti bool     // (raw log) the request arrived inside an open MULTI
	Tag     string   // CLIENT SETNAME of the connection
	Node    int      // cluster node that executed it
	Stamp   int64    // value of Server.StampFn at execution (order across several fakes of one harness)
}

type Action int

const (
	Proceed Action = iota
	CloseConn
)

// Server is a standalone or cluster-node personality fake.
type Server struct {
	mu   sync.Mutex
	ln   net.Listener
	addr string
	DBs  map[int]DB
	Log  []Entry
	Raw  []Entry // every request in arrival order (including MULTI/EXEC/SELECT)
	// StampFn, if set, is called (under the server lock) for every executed command; the value is kept in Entry.Stamp
	StampFn func() int64
	KeepRaw bool
	Recv    int // requests received (every request, including MULTI/EXEC/PING)
	blk     int
	nextCID int
	conns   map[int]*conn
	NowMs   int64

	// CrashAfter >= 0: once Recv reaches it, the next request is not executed,
	// every connection is closed and new ones are refused until Revive.
	CrashAfter int
	Crashed    bool
	// CountFn selects the requests that count towards CrashAfterCounted (Counted = how many were executed)
	CountFn           func(name string) bool
	Counted           int
	CrashAfterCounted int

	// PreExec, if set, is called under the lock before a request is executed
	// (also for requests that are only queued inside MULTI).  A non-nil
	// override is sent as the reply instead of executing.
	PreExec func(connID int, db int, name string, args [][]byte, inMulti bool) (override interface{}, act Action)
	// AfterExec, if set, is called under the lock after a request was executed; CloseConn drops the reply.
	AfterExec func(connID int, name string, args [][]byte) Action
	// LuaErrors collects constructs the mini Lua interpreter could not run (harness errors)
	LuaErrors []string
	// Hold, if set, may return a channel; the reply is written only after it is closed.
	// propagation personality (propagate.go)
	Propagate bool
	Wrap1     bool // wrap single-command transactions in MULTI/EXEC too (Redis before 7.0)
	Repl      []byte
	ReplDB    int
	ReplUnits []ReplUnit
	// Gate, when set, may return a channel the request waits on before it is received (counted, logged, executed)
	Gate func(connID int, name string, args [][]byte) <-chan struct{}
	Hold func(connID int, name string, args [][]byte) <-chan struct{}
	// RestoreDecoder turns a RESTORE payload into a value (nil, error text on failure)
	RestoreDecoder func(key []byte, payload []byte) (*Value, string)
	// Eval executes a script
	Eval func(s *Server, db int, script string, keys [][]byte, argv [][]byte) interface{}
	// Cluster personality (nil = standalone)
	Cluster *ClusterState
	NodeID  int
	// InfoReplication is appended to INFO replication answers
	InfoExtra map[string]string
	// RealClock: NowMs follows the wall clock (set before each request)
	RealClock bool
	// ClockStepMs > 0: a virtual clock that advances by this much at every request
	ClockStepMs int64
	// Unknown commands: if true they are accepted as opaque writes to args[0]
	AcceptUnknown bool
}

type conn struct {
	id      int
	c       net.Conn
	db      int
	inMulti bool
	dirty   bool // a queue-time error occurred
	queue   [][][]byte
	asking  bool
	tag     string // CLIENT SETNAME
}

func New() *Server {
	s := &Server{DBs: map[int]DB{}, CrashAfter: -1, CrashAfterCounted: -1, conns: map[int]*conn{}, NowMs: 1_000_000, ReplDB: -1}
	return s
}

func (s *Server) Start() (string, error) {
	// under heavy load the ephemeral port range can be exhausted for a moment: wait and try again
	var ln net.Listener
	var err error
	for i := 0; i < 600; i++ {
		if ln, err = net.Listen("tcp", "127.0.0.1:0"); err == nil {
			break
		}
		time.Sleep(100 * time.Millisecond)
	}
	if err != nil {
		return "", err
	}
	s.ln = ln
	s.addr = ln.Addr().String()
	go s.acceptLoop()
	return s.addr, nil
}

func (s *Server) Addr() string { return s.addr }

func (s *Server) Close() {
	s.mu.Lock()
	for _, c := range s.conns {
		c.c.Close()
	}
	s.mu.Unlock()
	if s.ln != nil {
		s.ln.Close()
	}
}

func (s *Server) Lock()   { s.mu.Lock() }
func (s *Server) Unlock() { s.mu.Unlock() }

// Crash closes every connection now; queued MULTI blocks are lost.
func (s *Server) Crash() {
	s.mu.Lock()
	s.crashLocked()
	s.mu.Unlock()
}
func (s *Server) crashLocked() {
	s.Crashed = true
	for id, c := range s.conns {
		c.c.Close()
		delete(s.conns, id)
	}
}

// Revive lets the server accept connections again (keyspace kept).
func (s *Server) Revive() {
	s.mu.Lock()
	s.Crashed = false
	s.CrashAfter = -1
	s.CrashAfterCounted = -1
	s.mu.Unlock()
}

func (s *Server) acceptLoop() {
	for {
		c, err := s.ln.Accept()
		if err != nil {
			return
		}
		s.mu.Lock()
		if s.Crashed {
			s.mu.Unlock()
			c.Close()
			continue
		}
		s.nextCID++
		cc := &conn{id: s.nextCID, c: c}
		s.conns[cc.id] = cc
		s.mu.Unlock()
		go s.serve(cc)
	}
}

func (s *Server) serve(c *conn) {
	defer func() {
		c.c.Close()
		s.mu.Lock()
		delete(s.conns, c.id)
		s.mu.Unlock()
	}()
	r := bufio.NewReaderSize(c.c, 1<<16)
	w := bufio.NewWriterSize(c.c, 1<<16)
	for {
		args, err := readRequest(r)
		if err != nil {
			return
		}
		if len(args) == 0 {
			continue
		}
		name := strings.ToLower(string(args[0]))
		if s.Gate != nil {
			// a request held back before it is looked at: it has not happened yet for anybody
			if ch := s.Gate(c.id, name, args[1:]); ch != nil {
				<-ch
			}
		}
		s.mu.Lock()
		if s.Crashed || s.conns[c.id] != c {
			// the connection died in a crash while this request was still on its way
			s.mu.Unlock()
			return
		}
		if s.CrashAfter >= 0 && s.Recv >= s.CrashAfter {
			s.crashLocked()
			s.mu.Unlock()
			return
		}
		if s.CountFn != nil && s.CountFn(name) {
			// a counted request (the harness counts writes) beyond the limit is not executed: the server dies before it
			if s.CrashAfterCounted >= 0 && s.Counted >= s.CrashAfterCounted {
				s.crashLocked()
				s.mu.Unlock()
				return
			}
			s.Counted++
		}
		gseq := int64(0)
		if s.Cluster != nil {
			if s.Cluster.GCrashed.Load() {
				s.crashLocked()
				s.mu.Unlock()
				return
			}
			gseq = s.Cluster.GSeq.Add(1)
			gw := gseq
			if s.Cluster.GCount != nil {
				gw = s.Cluster.GW.Load()
				if s.Cluster.GCount(name) {
					gw = s.Cluster.GW.Add(1)
				}
			}
			if lim := s.Cluster.GCrashAfter.Load(); lim >= 0 && gw > lim {
				s.Cluster.GCrashed.Store(true)
				s.crashLocked()
				s.mu.Unlock()
				return
			}
		}
		s.Recv++
		if w := time.Now().UnixMilli(); s.RealClock && w > s.NowMs {
			s.NowMs = w // never behind the wall clock, never backwards
		}
		s.NowMs += s.ClockStepMs
		if s.KeepRaw {
			e := Entry{Seq: s.Recv, Conn: c.id, DB: c.db, Name: name, Args: args[1:], InMulti: c.inMulti}
			if s.Cluster != nil {
				e.Seq = int(gseq)
			}
			s.Raw = append(s.Raw, e)
		}
		var reply interface{}
		act := Proceed
		if s.PreExec != nil {
			reply, act = s.PreExec(c.id, c.db, name, args[1:], c.inMulti)
		}
		if act == CloseConn {
			s.mu.Unlock()
			return
		}
		if reply == nil {
			if s.Cluster != nil && s.Cluster.Serialize {
				s.Cluster.Big.Lock()
				reply = s.dispatch(c, name, args[1:])
				s.Cluster.Big.Unlock()
			} else {
				reply = s.dispatch(c, name, args[1:])
			}
		}
		if s.AfterExec != nil && s.AfterExec(c.id, name, args[1:]) == CloseConn {
			s.mu.Unlock()
			return
		}
		var hold <-chan struct{}
		if s.Hold != nil {
			hold = s.Hold(c.id, name, args[1:])
		}
		s.mu.Unlock()
		if hold != nil {
			<-hold
		}
		writeReply(w, reply)
		if r.Buffered() == 0 {
			if err := w.Flush(); err != nil {
				return
			}
		}
	}
}

func (s *Server) db(n int) DB {
	d, ok := s.DBs[n]
	if !ok {
		d = DB{}
		s.DBs[n] = d
	}
	return d
}

func (s *Server) logEntry(c *conn, name string, args [][]byte, blk int, rep interface{}) {
	e := Entry{Seq: len(s.Log) + 1, Conn: c.id, DB: c.db, Name: name, Args: args, Blk: blk, Tag: c.tag}
	if er, ok := rep.(ErrRep); ok {
		e.Err = string(er)
	}
	if s.StampFn != nil {
		e.Stamp = s.StampFn()
	}
	if s.Cluster != nil {
		e.Seq = int(s.Cluster.ESeq.Add(1)) // cluster-wide execution order
		e.Node = s.NodeID
	}
	s.Log = append(s.Log, e)
}

// dispatch handles connection-level commands and MULTI queuing, then executes.
func (s *Server) dispatch(c *conn, name string, args [][]byte) interface{} {
	switch name {
	case "multi":
		if c.inMulti {
			return ErrRep("ERR MULTI calls can not be nested")
		}
		c.inMulti, c.dirty, c.queue = true, false, nil
		return Simple("OK")
	case "discard":
		if !c.inMulti {
			return ErrRep("ERR DISCARD without MULTI")
		}
		c.inMulti, c.queue = false, nil
		return Simple("OK")
	case "exec":
		if !c.inMulti {
			return ErrRep("ERR EXEC without MULTI")
		}
		q := c.queue
		c.inMulti, c.queue = false, nil
		if c.dirty {
			return ErrRep("EXECABORT Transaction discarded because of previous errors.")
		}
		if s.Cluster != nil {
			if e := s.Cluster.checkTxn(s, c, q); e != nil {
				return e
			}
			// ownership is judged again at EXEC (a slot handed over since the commands were queued): the whole
			// transaction is discarded with the redirection as EXEC's answer
			if s.Cluster.ExecRecheck {
				for _, a := range q {
					if e := s.Cluster.routeQuiet(s, c, strings.ToLower(string(a[0])), a[1:]); e != nil {
						c.asking = false
						return e
					}
				}
			}
		}
		s.blk++
		blk := s.blk
		out := make([]interface{}, 0, len(q))
		var prop [][][]byte
		for _, a := range q {
			n := strings.ToLower(string(a[0]))
			rep := s.execute(c, n, a[1:])
			s.logEntry(c, n, a[1:], blk, rep)
			out = append(out, rep)
			if s.Propagate {
				prop = append(prop, s.propagated(n, a[1:], rep)...)
			}
		}
		s.appendRepl(c, prop, true)
		c.asking = false
		return out
	}
	if c.inMulti {
		if !s.known(name) {
			c.dirty = true
			return ErrRep("ERR unknown command '" + name + "'")
		}
		if s.Cluster != nil {
			if e := s.Cluster.route(s, c, name, args); e != nil {
				c.dirty = true
				return e
			}
		}
		c.queue = append(c.queue, append([][]byte{[]byte(name)}, args...))
		return Simple("QUEUED")
	}
	if s.Cluster != nil {
		if e := s.Cluster.route(s, c, name, args); e != nil {
			c.asking = false
			return e
		}
	}
	rep := s.execute(c, name, args)
	if name != "asking" {
		c.asking = false
	}
	s.logEntry(c, name, args, 0, rep)
	if s.Propagate {
		s.appendRepl(c, s.propagated(name, args, rep), false)
	}
	if name == "client" && len(args) == 2 && strings.EqualFold(string(args[0]), "setname") {
		c.tag = string(args[1])
	}
	return rep
}

// Keys returns the sorted key names of a database (expired keys removed).
func (s *Server) Keys(db int) []string {
	d := s.db(db)
	var ks []string
	for k := range d {
		if s.live(d, k) != nil {
			ks = append(ks, k)
		}
	}
	sort.Strings(ks)
	return ks
}

func (s *Server) live(d DB, k string) *Value {
	v, ok := d[k]
	if !ok {
		return nil
	}
	if v.ExpireAt != 0 && v.ExpireAt <= s.NowMs {
		delete(d, k)
		return nil
	}
	return v
}

// Get returns the live value of key in db (nil when absent).  Caller holds no lock.
func (s *Server) Get(db int, key string) *Value {
	s.mu.Lock()
	defer s.mu.Unlock()
	return s.live(s.db(db), key)
}

// LogCopy returns a copy of the execution log.
func (s *Server) LogCopy() []Entry {
	s.mu.Lock()
	defer s.mu.Unlock()
	out := make([]Entry, len(s.Log))
	copy(out, s.Log)
	return out
}

// RawCopy returns a copy of the raw arrival log.
func (s *Server) RawCopy() []Entry {
	s.mu.Lock()
	defer s.mu.Unlock()
	out := make([]Entry, len(s.Raw))
	copy(out, s.Raw)
	return out
}

// ConnCount returns the number of open client connections.
func (s *Server) ConnCount() int {
	s.mu.Lock()
	defer s.mu.Unlock()
	return len(s.conns)
}

func (s *Server) RecvCount() int {
	s.mu.Lock()
	defer s.mu.Unlock()
	return s.Recv
}

// SetCrashAfterCounted: the server dies instead of executing the (k+1)-th request selected by CountFn from now on (k < 0: off)
func (s *Server) SetCrashAfterCounted(k int) {
	s.mu.Lock()
	s.Counted = 0
	s.CrashAfterCounted = k
	s.mu.Unlock()
}

func (s *Server) CountedCount() int {
	s.mu.Lock()
	defer s.mu.Unlock()
	return s.Counted
}

func cloneBytes(b []byte) []byte {
	if b == nil {
		return nil
	}
	return append([]byte{}, b...)
}

// SnapshotDBs returns a deep copy of the keyspace (string, hash, list, set and sorted set values; others by reference)
func (s *Server) SnapshotDBs() map[int]DB {
	s.mu.Lock()
	defer s.mu.Unlock()
	return cloneDBs(s.DBs)
}

// RestoreDBs replaces the keyspace by a deep copy of snap
func (s *Server) RestoreDBs(snap map[int]DB) {
	s.mu.Lock()
	defer s.mu.Unlock()
	s.DBs = cloneDBs(snap)
}

func cloneDBs(in map[int]DB) map[int]DB {
	out := map[int]DB{}
	for n, d := range in {
		nd := DB{}
		for k, v := range d {
			c := *v
			c.Str = cloneBytes(v.Str)
			if v.Hash != nil {
				c.Hash = map[string][]byte{}
				for f, x := range v.Hash {
					c.Hash[f] = cloneBytes(x)
				}
				c.HashOrder = append([]string{}, v.HashOrder...)
			}
			if v.List != nil {
				c.List = make([][]byte, len(v.List))
				for i, x := range v.List {
					c.List[i] = cloneBytes(x)
				}
			}
			if v.Set != nil {
				c.Set = map[string]struct{}{}
				for m := range v.Set {
					c.Set[m] = struct{}{}
				}
			}
			if v.ZSet != nil {
				c.ZSet = map[string]float64{}
				for m, sc := range v.ZSet {
					c.ZSet[m] = sc
				}
			}
			nd[k] = &c
		}
		out[n] = nd
	}
	return out
}

func (s *Server) SetCrashAfter(k int) {
	s.mu.Lock()
	s.CrashAfter = k
	s.mu.Unlock()
}

func (s *Server) IsCrashed() bool {
	s.mu.Lock()
	defer s.mu.Unlock()
	return s.Crashed
}
