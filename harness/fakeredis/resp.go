// Package fakeredis is the executable twin of spec/env/Target.tla: a RESP
// server with a multi-DB typed keyspace, MULTI/EXEC atomicity, a request log,
// gates and crash-after-k.  It is written independently of the repository's
// own client code so that it can serve as an oracle-side peer.
package fakeredis

import (
	"bufio"
	"errors"
	"fmt"
	"io"
	"strconv"
)

// readRequest reads one client request (array of bulk strings, or an inline
// line) from r.
func readRequest(r *bufio.Reader) ([][]byte, error) {
	for {
		b, err := r.ReadByte()
		if err != nil {
			return nil, err
		}
		if b == '\r' || b == '\n' {
			continue
		}
		if b != '*' {
			// inline command
			line, err := r.ReadBytes('\n')
			if err != nil {
				return nil, err
			}
			line = append([]byte{b}, line...)
			var out [][]byte
			cur := []byte{}
			for _, c := range line {
				if c == ' ' || c == '\r' || c == '\n' {
					if len(cur) > 0 {
						out = append(out, cur)
						cur = []byte{}
					}
					continue
				}
				cur = append(cur, c)
			}
			if len(out) == 0 {
				continue
			}
			return out, nil
		}
		n, err := readInt(r)
		if err != nil {
			return nil, err
		}
		if n < 0 || n > 1<<20 {
			return nil, errors.New("bad multibulk length")
		}
		args := make([][]byte, 0, n)
		for i := 0; i < n; i++ {
			t, err := r.ReadByte()
			if err != nil {
				return nil, err
			}
			if t != '$' {
				return nil, fmt.Errorf("expected '$', got %q", t)
			}
			l, err := readInt(r)
			if err != nil {
				return nil, err
			}
			if l < 0 || l > 1<<30 {
				return nil, errors.New("bad bulk length")
			}
			buf := make([]byte, l+2)
			if _, err := io.ReadFull(r, buf); err != nil {
				return nil, err
			}
			args = append(args, buf[:l])
		}
		return args, nil
	}
}

func readInt(r *bufio.Reader) (int, error) {
	line, err := r.ReadBytes('\n')
	if err != nil {
		return 0, err
	}
	if len(line) < 2 {
		return 0, errors.New("short line")
	}
	return strconv.Atoi(string(line[:len(line)-2]))
}

// Reply values
type (
	Simple string
	ErrRep string
	Nil    struct{}
)

func writeReply(w *bufio.Writer, v interface{}) {
	switch x := v.(type) {
	case Simple:
		w.WriteString("+" + string(x) + "\r\n")
	case ErrRep:
		w.WriteString("-" + string(x) + "\r\n")
	case error:
		w.WriteString("-" + x.Error() + "\r\n")
	case int:
		w.WriteString(":" + strconv.Itoa(x) + "\r\n")
	case int64:
		w.WriteString(":" + strconv.FormatInt(x, 10) + "\r\n")
	case Nil, nil:
		w.WriteString("$-1\r\n")
	case []byte:
		w.WriteString("$" + strconv.Itoa(len(x)) + "\r\n")
		w.Write(x)
		w.WriteString("\r\n")
	case string:
		w.WriteString("$" + strconv.Itoa(len(x)) + "\r\n")
		w.WriteString(x)
		w.WriteString("\r\n")
	case []interface{}:
		w.WriteString("*" + strconv.Itoa(len(x)) + "\r\n")
		for _, e := range x {
			writeReply(w, e)
		}
	case NilArray:
		w.WriteString("*-1\r\n")
	default:
		w.WriteString("-ERR fakeredis: unencodable reply\r\n")
	}
}

type NilArray struct{}
