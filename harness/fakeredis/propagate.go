package fakeredis

import (
	"bytes"
	"os"
	"strconv"
	"strings"
)

// Propagation personality: with Propagate set the server keeps the replication
// stream a Redis master would feed its replicas: write commands in execution
// order, SELECT when the database changes, transactions wrapped in MULTI/EXEC,
// relative expiries rewritten to absolute ones, commands that changed nothing
// omitted.  (Independent of the tool: written from the Redis documentation of
// propagation, replication.c / t_string.c behaviour of Redis 7.)

// ReplUnit is one propagated unit (a single command or one MULTI/EXEC block).
type ReplUnit struct {
	Off, End int64 // byte range in Repl (the SELECT that precedes it, if any, lies before Off)
	Conn     int
	Tag      string // CLIENT SETNAME of the connection ("" for none)
	Txn      bool
	Cmds     [][][]byte // propagated form (name first)
}

var readOnly = map[string]bool{}
var dbgRepl = os.Getenv("LOOPDBG") != ""

func init() {
	for _, n := range strings.Fields(`ping echo select info exists type get hget hgetall hexists hlen lrange llen smembers scard zrange
	zrangebyscore zcard zscore pttl ttl xrange xlen dbsize keys scan command cluster asking client config replconf readonly publish script
	multi exec discard evalsha`) {
		readOnly[n] = true
	}
}

func enc(args ...[]byte) []byte {
	var b bytes.Buffer
	b.WriteString("*" + strconv.Itoa(len(args)) + "\r\n")
	for _, a := range args {
		b.WriteString("$" + strconv.Itoa(len(a)) + "\r\n")
		b.Write(a)
		b.WriteString("\r\n")
	}
	return b.Bytes()
}

func isZero(rep interface{}) bool {
	switch v := rep.(type) {
	case int:
		return v == 0
	case int64:
		return v == 0
	}
	return false
}

// propagated returns the commands a master appends to its replication stream for one executed command.
func (s *Server) propagated(name string, a [][]byte, rep interface{}) [][][]byte {
	if readOnly[name] {
		return nil
	}
	if _, isErr := rep.(ErrRep); isErr {
		return nil
	}
	full := func(n string, args ...[]byte) [][][]byte { return [][][]byte{append([][]byte{[]byte(n)}, args...)} }
	abs := func(ms int64) []byte { return []byte(strconv.FormatInt(ms, 10)) }
	switch name {
	case "del", "unlink", "srem", "hdel", "zrem", "sadd", "persist", "setnx", "hsetnx", "pfadd", "xdel", "move", "copy":
		if isZero(rep) {
			return nil // nothing changed: not propagated
		}
	case "lpop", "rpop", "spop":
		if _, none := rep.(Nil); none {
			return nil
		}
	case "expire", "pexpire", "expireat", "pexpireat":
		if isZero(rep) || len(a) < 2 {
			return nil
		}
		n, _ := atoi(a[1])
		switch name {
		case "expire":
			n = s.NowMs + n*1000
		case "pexpire":
			n = s.NowMs + n
		case "expireat":
			n = n * 1000
		}
		if n <= s.NowMs {
			return full("DEL", a[0])
		}
		return full("PEXPIREAT", a[0], abs(n))
	case "setex", "psetex":
		if len(a) != 3 {
			return nil
		}
		n, _ := atoi(a[1])
		if name == "setex" {
			n *= 1000
		}
		return full("SET", a[0], a[2], []byte("PXAT"), abs(s.NowMs+n))
	case "set":
		if _, none := rep.(Nil); none {
			get := false
			for _, x := range a[2:] {
				get = get || strings.EqualFold(string(x), "get")
			}
			if !get {
				return nil // NX / XX condition not met
			}
		}
		out := [][]byte{[]byte("SET")}
		for i := 0; i < len(a); i++ {
			o := strings.ToLower(string(a[i]))
			if i >= 2 && (o == "ex" || o == "px") && i+1 < len(a) {
				n, _ := atoi(a[i+1])
				if o == "ex" {
					n *= 1000
				}
				out = append(out, []byte("PXAT"), abs(s.NowMs+n))
				i++
				continue
			}
			if i >= 2 && o == "exat" && i+1 < len(a) {
				n, _ := atoi(a[i+1])
				out = append(out, []byte("PXAT"), abs(n*1000))
				i++
				continue
			}
			out = append(out, a[i])
		}
		return [][][]byte{out}
	}
	return full(name, a...)
}

// appendRepl adds one unit (already in propagated form) to the stream.
func (s *Server) appendRepl(c *conn, cmds [][][]byte, txn bool) {
	if dbgRepl {
		println("appendRepl", s.addr, c.id, c.tag, len(cmds), txn, len(s.ReplUnits))
	}
	if len(cmds) == 0 {
		return
	}
	if s.ReplDB != c.db {
		s.Repl = append(s.Repl, enc([]byte("SELECT"), []byte(strconv.Itoa(c.db)))...)
		s.ReplDB = c.db
	}
	u := ReplUnit{Off: int64(len(s.Repl)), Conn: c.id, Tag: c.tag, Cmds: cmds}
	wrap := txn && (len(cmds) > 1 || s.Wrap1)
	u.Txn = wrap
	if wrap {
		s.Repl = append(s.Repl, enc([]byte("MULTI"))...)
	}
	for _, cm := range cmds {
		s.Repl = append(s.Repl, enc(cm...)...)
	}
	if wrap {
		s.Repl = append(s.Repl, enc([]byte("EXEC"))...)
	}
	u.End = int64(len(s.Repl))
	s.ReplUnits = append(s.ReplUnits, u)
}

// ReplCopy returns the stream written so far and its units.
func (s *Server) ReplCopy() ([]byte, []ReplUnit) {
	s.mu.Lock()
	defer s.mu.Unlock()
	return append([]byte{}, s.Repl...), append([]ReplUnit{}, s.ReplUnits...)
}

// ReplLen returns the length of the stream.
func (s *Server) ReplLen() int {
	s.mu.Lock()
	defer s.mu.Unlock()
	return len(s.Repl)
}
