package fakeredis

import (
	"fmt"
	"strconv"
	"strings"
)

// A deliberately small Lua interpreter: exactly the constructs the election
// and lock scripts of the repository use (locals, assignment, if/elseif/else,
// return, ==, ~=, not/and/or, KEYS[n], ARGV[n], redis.call, tonumber,
// string/number/boolean/nil literals).  It executes the script TEXT it is
// given, so a changed script changes the store's behaviour.  Anything else is
// reported as unsupported (a harness error, never a verdict).

type luaVal interface{} // nil | bool | float64 | string

type luaTok struct {
	k string // name num str op eof
	s string
}

type LuaUnsupported struct{ Msg string }

func (e *LuaUnsupported) Error() string { return "fakeredis-lua: unsupported: " + e.Msg }

func luaLex(src string) ([]luaTok, error) {
	var toks []luaTok
	i := 0
	for i < len(src) {
		c := src[i]
		switch {
		case c == ' ' || c == '\t' || c == '\n' || c == '\r' || c == ';':
			i++
		case c == '-' && i+1 < len(src) && src[i+1] == '-':
			for i < len(src) && src[i] != '\n' {
				i++
			}
		case c >= '0' && c <= '9':
			j := i
			for j < len(src) && (src[j] >= '0' && src[j] <= '9' || src[j] == '.') {
				j++
			}
			toks = append(toks, luaTok{"num", src[i:j]})
			i = j
		case c == '_' || c >= 'a' && c <= 'z' || c >= 'A' && c <= 'Z':
			j := i
			for j < len(src) && (src[j] == '_' || src[j] >= 'a' && src[j] <= 'z' || src[j] >= 'A' && src[j] <= 'Z' || src[j] >= '0' && src[j] <= '9') {
				j++
			}
			toks = append(toks, luaTok{"name", src[i:j]})
			i = j
		case c == '\'' || c == '"':
			j := i + 1
			var sb strings.Builder
			for j < len(src) && src[j] != c {
				if src[j] == '\\' && j+1 < len(src) {
					j++
					switch src[j] {
					case 'n':
						sb.WriteByte('\n')
					case 'r':
						sb.WriteByte('\r')
					case 't':
						sb.WriteByte('\t')
					default:
						sb.WriteByte(src[j])
					}
				} else {
					sb.WriteByte(src[j])
				}
				j++
			}
			if j >= len(src) {
				return nil, &LuaUnsupported{"unterminated string"}
			}
			toks = append(toks, luaTok{"str", sb.String()})
			i = j + 1
		default:
			two := ""
			if i+1 < len(src) {
				two = src[i : i+2]
			}
			if two == "==" || two == "~=" || two == "<=" || two == ">=" || two == ".." {
				toks = append(toks, luaTok{"op", two})
				i += 2
			} else if strings.ContainsRune("=()[],.<>+-*/#", rune(c)) {
				toks = append(toks, luaTok{"op", string(c)})
				i++
			} else {
				return nil, &LuaUnsupported{fmt.Sprintf("character %q", c)}
			}
		}
	}
	toks = append(toks, luaTok{"eof", ""})
	return toks, nil
}

type luaInterp struct {
	toks   []luaTok
	p      int
	vars   map[string]luaVal
	keys   [][]byte
	argv   [][]byte
	call   func(args [][]byte) interface{}
	ret    luaVal
	hasRet bool
	skip   int // >0: parse without executing
}

func (l *luaInterp) peek() luaTok { return l.toks[l.p] }
func (l *luaInterp) next() luaTok { t := l.toks[l.p]; l.p++; return t }
func (l *luaInterp) isName(s string) bool {
	t := l.peek()
	return t.k == "name" && t.s == s
}
func (l *luaInterp) isOp(s string) bool {
	t := l.peek()
	return t.k == "op" && t.s == s
}
func (l *luaInterp) expectOp(s string) {
	if !l.isOp(s) {
		panic(&LuaUnsupported{"expected '" + s + "' near '" + l.peek().s + "'"})
	}
	l.p++
}
func (l *luaInterp) expectName(s string) {
	if !l.isName(s) {
		panic(&LuaUnsupported{"expected '" + s + "' near '" + l.peek().s + "'"})
	}
	l.p++
}
func (l *luaInterp) live() bool { return l.skip == 0 && !l.hasRet }

func truthy(v luaVal) bool {
	if v == nil {
		return false
	}
	if b, ok := v.(bool); ok {
		return b
	}
	return true
}

func luaEq(a, b luaVal) bool {
	switch x := a.(type) {
	case nil:
		return b == nil
	case bool:
		y, ok := b.(bool)
		return ok && x == y
	case float64:
		y, ok := b.(float64)
		return ok && x == y
	case string:
		y, ok := b.(string)
		return ok && x == y
	}
	return false
}

func (l *luaInterp) block(terms ...string) {
	for {
		t := l.peek()
		if t.k == "eof" {
			return
		}
		if t.k == "name" {
			for _, x := range terms {
				if t.s == x {
					return
				}
			}
		}
		l.stat()
	}
}

func (l *luaInterp) stat() {
	t := l.peek()
	if t.k != "name" {
		panic(&LuaUnsupported{"statement starting with '" + t.s + "'"})
	}
	switch t.s {
	case "local":
		l.p++
		name := l.next()
		if name.k != "name" {
			panic(&LuaUnsupported{"local without a name"})
		}
		var v luaVal
		if l.isOp("=") {
			l.p++
			v = l.expr()
		}
		if l.live() {
			l.vars[name.s] = v
		}
	case "if":
		l.p++
		done := false
		for {
			c := l.expr()
			l.expectName("then")
			take := l.live() && !done && truthy(c)
			if !take {
				l.skip++
			}
			l.block("elseif", "else", "end")
			if !take {
				l.skip--
			} else {
				done = true
			}
			if l.isName("elseif") {
				l.p++
				continue
			}
			break
		}
		if l.isName("else") {
			l.p++
			take := l.live() && !done
			if !take {
				l.skip++
			}
			l.block("end")
			if !take {
				l.skip--
			}
		}
		l.expectName("end")
	case "return":
		l.p++
		var v luaVal
		nt := l.peek()
		if !(nt.k == "eof" || nt.k == "name" && (nt.s == "end" || nt.s == "else" || nt.s == "elseif")) {
			v = l.expr()
		}
		if l.live() {
			l.ret, l.hasRet = v, true
		}
	case "redis":
		l.expr()
	default:
		// assignment
		name := l.next()
		if !l.isOp("=") {
			panic(&LuaUnsupported{"statement '" + name.s + "'"})
		}
		l.p++
		v := l.expr()
		if l.live() {
			l.vars[name.s] = v
		}
	}
}

func (l *luaInterp) expr() luaVal { return l.orExpr() }

func (l *luaInterp) orExpr() luaVal {
	v := l.andExpr()
	for l.isName("or") {
		l.p++
		if truthy(v) {
			l.skip++
			l.andExpr()
			l.skip--
		} else {
			v = l.andExpr()
		}
	}
	return v
}

func (l *luaInterp) andExpr() luaVal {
	v := l.cmpExpr()
	for l.isName("and") {
		l.p++
		if !truthy(v) {
			l.skip++
			l.cmpExpr()
			l.skip--
		} else {
			v = l.cmpExpr()
		}
	}
	return v
}

func luaNum(v luaVal) (float64, bool) {
	switch x := v.(type) {
	case float64:
		return x, true
	case string:
		f, err := strconv.ParseFloat(x, 64)
		return f, err == nil
	}
	return 0, false
}

func (l *luaInterp) cmpExpr() luaVal {
	a := l.unary()
	for {
		t := l.peek()
		if t.k != "op" {
			return a
		}
		switch t.s {
		case "==", "~=":
			l.p++
			b := l.unary()
			eq := luaEq(a, b)
			if t.s == "~=" {
				eq = !eq
			}
			a = eq
		case "<", ">", "<=", ">=":
			l.p++
			b := l.unary()
			x, ok1 := luaNum(a)
			y, ok2 := luaNum(b)
			if !ok1 || !ok2 {
				if l.live() {
					panic(&LuaUnsupported{"ordering comparison of non-numbers"})
				}
				a = false
				continue
			}
			switch t.s {
			case "<":
				a = x < y
			case ">":
				a = x > y
			case "<=":
				a = x <= y
			default:
				a = x >= y
			}
		default:
			return a
		}
	}
}

func (l *luaInterp) unary() luaVal {
	if l.isName("not") {
		l.p++
		return !truthy(l.unary())
	}
	return l.primary()
}

func (l *luaInterp) primary() luaVal {
	t := l.next()
	switch t.k {
	case "num":
		f, _ := strconv.ParseFloat(t.s, 64)
		return f
	case "str":
		return t.s
	case "op":
		if t.s == "(" {
			v := l.expr()
			l.expectOp(")")
			return v
		}
		panic(&LuaUnsupported{"expression starting with '" + t.s + "'"})
	case "name":
		switch t.s {
		case "false":
			return false
		case "true":
			return true
		case "nil":
			return nil
		case "KEYS", "ARGV":
			l.expectOp("[")
			idx := l.expr()
			l.expectOp("]")
			n, ok := luaNum(idx)
			src := l.keys
			if t.s == "ARGV" {
				src = l.argv
			}
			if !ok || int(n) < 1 || int(n) > len(src) {
				return nil
			}
			return string(src[int(n)-1])
		case "tonumber":
			l.expectOp("(")
			v := l.expr()
			l.expectOp(")")
			if f, ok := luaNum(v); ok {
				return f
			}
			return nil
		case "tostring":
			l.expectOp("(")
			v := l.expr()
			l.expectOp(")")
			return luaToString(v)
		case "redis":
			l.expectOp(".")
			fn := l.next()
			if fn.k != "name" || (fn.s != "call" && fn.s != "pcall") {
				panic(&LuaUnsupported{"redis." + fn.s})
			}
			l.expectOp("(")
			var args [][]byte
			for !l.isOp(")") {
				v := l.expr()
				args = append(args, []byte(luaToString(v)))
				if l.isOp(",") {
					l.p++
				}
			}
			l.expectOp(")")
			if !l.live() {
				return nil
			}
			return fromRedis(l.call(args))
		}
		if v, ok := l.vars[t.s]; ok {
			return v
		}
		return nil
	}
	panic(&LuaUnsupported{"unexpected end of script"})
}

func luaToString(v luaVal) string {
	switch x := v.(type) {
	case string:
		return x
	case float64:
		if x == float64(int64(x)) {
			return strconv.FormatInt(int64(x), 10)
		}
		return strconv.FormatFloat(x, 'g', 14, 64)
	case bool:
		if x {
			return "true"
		}
		return "false"
	}
	return "nil"
}

// Redis reply -> Lua value (EVAL conversion rules)
func fromRedis(r interface{}) luaVal {
	switch x := r.(type) {
	case Nil, nil:
		return false
	case Simple:
		return string(x)
	case []byte:
		return string(x)
	case string:
		return x
	case int:
		return float64(x)
	case int64:
		return float64(x)
	case ErrRep:
		panic(&LuaUnsupported{"redis.call raised: " + string(x)})
	}
	panic(&LuaUnsupported{fmt.Sprintf("reply type %T", r)})
}

// Lua value -> Redis reply
func toRedis(v luaVal) interface{} {
	switch x := v.(type) {
	case nil:
		return Nil{}
	case bool:
		if x {
			return 1
		}
		return Nil{}
	case float64:
		return int64(x)
	case string:
		return []byte(x)
	}
	return Nil{}
}

// LuaEval is an Eval hook for Server: it interprets the script text against the same keyspace.
// Unsupported constructs are recorded in s.LuaErrors and answered with an error reply.
func LuaEval(s *Server, db int, script string, keys [][]byte, argv [][]byte) (rep interface{}) {
	toks, err := luaLex(script)
	if err != nil {
		s.LuaErrors = append(s.LuaErrors, err.Error())
		return ErrRep("ERR " + err.Error())
	}
	c := &conn{id: -1, db: db}
	in := &luaInterp{toks: toks, vars: map[string]luaVal{}, keys: keys, argv: argv}
	in.call = func(args [][]byte) interface{} {
		if len(args) == 0 {
			return ErrRep("ERR empty redis.call")
		}
		name := strings.ToLower(string(args[0]))
		r := s.execute(c, name, args[1:])
		s.logEntry(c, name, args[1:], -1, r)
		return r
	}
	defer func() {
		if e := recover(); e != nil {
			if u, ok := e.(*LuaUnsupported); ok {
				s.LuaErrors = append(s.LuaErrors, u.Error())
				rep = ErrRep("ERR " + u.Error())
				return
			}
			panic(e)
		}
	}()
	in.block()
	if in.peek().k != "eof" {
		panic(&LuaUnsupported{"trailing '" + in.peek().s + "'"})
	}
	return toRedis(in.ret)
}
