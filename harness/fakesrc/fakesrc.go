// Package fakesrc is a fake PSYNC master: INFO replication (id, previous id, switch offset, backlog start),
// REPLCONF, PSYNC with Redis' admission rule (masterTryPartialResynchronization), FULLRESYNC with a
// length-prefixed snapshot built by rdbgen from the modelled dataset, a live stream of RPUSH commands,
// connection drops (also after a given offset), fail-over and backlog loss.
package fakesrc

import (
	"bufio"
	"fmt"
	"io"
	"net"
	"strconv"
	"strings"
	"sync"

	"verifh/hx"
	"verifh/rdbgen"
)

var IdOf = map[string]string{"A": strings.Repeat("a", 40), "B": strings.Repeat("b", 40), "C": strings.Repeat("c", 40)}

func Letter(id string) string {
	for k, v := range IdOf {
		if v == id {
			return k
		}
	}
	if id == "?" {
		return "?"
	}
	return "x"
}

type PsyncObs struct {
	Id    string `json:"id"`
	Off   int64  `json:"off"`
	Reply string `json:"reply"`
	M     int64  `json:"m"`
}

type Source struct {
	Mu       sync.Mutex
	Cond     *sync.Cond
	Ln       net.Listener
	Id1, Id2 string
	Second   int64
	Base     int64   // offset of the byte before the first stream byte
	Stream   []byte  // bytes base+1 ...
	Ends     []int64 // absolute end offset of every stream command
	KeyOf    []int
	Bl       int64 // first offset still in the backlog
	Keys     [][]byte
	Initial  [][][]byte // initial list of each key
	DropAt   int64      // close the replication connection once this offset has been sent (0 = no)
	Conns    []net.Conn
	Obs      []PsyncObs
	Closed   bool
}

func (s *Source) M() int64 { return s.Base + int64(len(s.Stream)) }

// dataset at offset m as an RDB
func (s *Source) Snapshot(m int64) []byte {
	var ents []*rdbgen.Entry
	for ki, k := range s.Keys {
		l := append([][]byte{}, s.Initial[ki]...)
		for ci, e := range s.Ends {
			if e <= m && s.KeyOf[ci] == ki {
				l = append(l, []byte(fmt.Sprintf("v%d", ci+1)))
			}
		}
		if len(l) == 0 {
			continue
		}
		ents = append(ents, &rdbgen.Entry{Key: k, Val: rdbgen.Val{Type: "list", List: l}, Enc: "quicklist"})
	}
	data, err := rdbgen.Build(ents, 9, true)
	if err != nil {
		hx.Fatal("rdbgen: %v", err)
	}
	return data
}

func (s *Source) Serve(c net.Conn) {
	defer c.Close()
	r := bufio.NewReader(c)
	w := bufio.NewWriter(c)
	for {
		line, err := r.ReadString('\n')
		if err != nil {
			return
		}
		if !strings.HasPrefix(line, "*") {
			continue
		}
		n, _ := strconv.Atoi(strings.TrimSpace(line[1:]))
		var args []string
		for i := 0; i < n; i++ {
			l, err := r.ReadString('\n')
			if err != nil {
				return
			}
			sz, _ := strconv.Atoi(strings.TrimSpace(l[1:]))
			buf := make([]byte, sz+2)
			if _, err := io.ReadFull(r, buf); err != nil {
				return
			}
			args = append(args, string(buf[:sz]))
		}
		if len(args) == 0 {
			continue
		}
		switch strings.ToLower(args[0]) {
		case "ping":
			w.WriteString("+PONG\r\n")
		case "auth", "select":
			w.WriteString("+OK\r\n")
		case "replconf":
			if len(args) > 1 && strings.EqualFold(args[1], "ack") {
				continue // no reply to REPLCONF ACK
			}
			w.WriteString("+OK\r\n")
		case "info":
			s.Mu.Lock()
			id2, sec := strings.Repeat("0", 40), int64(-1)
			if s.Id2 != "" {
				id2, sec = IdOf[s.Id2], s.Second
			}
			body := fmt.Sprintf("# Server\r\nredis_version:7.0.0\r\n# Replication\r\nrole:master\r\nconnected_slaves:0\r\nmaster_replid:%s\r\nmaster_replid2:%s\r\nmaster_repl_offset:%d\r\nsecond_repl_offset:%d\r\nrepl_backlog_first_byte_offset:%d\r\n",
				IdOf[s.Id1], id2, s.M(), sec, s.Bl)
			s.Mu.Unlock()
			fmt.Fprintf(w, "$%d\r\n%s\r\n", len(body), body)
		case "psync":
			reqID := args[1]
			off, _ := strconv.ParseInt(args[2], 10, 64)
			s.Mu.Lock()
			full := true
			if reqID == IdOf[s.Id1] || (s.Id2 != "" && reqID == IdOf[s.Id2] && off <= s.Second) {
				if off >= s.Bl && off <= s.M()+1 {
					full = false
				}
			}
			o := PsyncObs{Id: Letter(reqID), Off: off, M: s.M()}
			var next int64 // next offset to send
			if full {
				o.Reply = "full"
				m := s.M()
				snap := s.Snapshot(m)
				fmt.Fprintf(w, "+FULLRESYNC %s %d\r\n", IdOf[s.Id1], m)
				w.WriteString("\n")
				fmt.Fprintf(w, "$%d\r\n", len(snap))
				w.Write(snap)
				next = m + 1
			} else {
				o.Reply = "continue"
				fmt.Fprintf(w, "+CONTINUE %s\r\n", IdOf[s.Id1])
				next = off
			}
			s.Obs = append(s.Obs, o)
			s.Conns = append(s.Conns, c)
			s.Mu.Unlock()
			if w.Flush() != nil {
				return
			}
			go io.Copy(io.Discard, r) // REPLCONF ACKs
			// stream what exists and what is appended later, until dropped
			for {
				s.Mu.Lock()
				for !s.Closed && next > s.M() && !(s.DropAt > 0 && next > s.DropAt) {
					s.Cond.Wait()
				}
				if s.Closed {
					s.Mu.Unlock()
					return
				}
				if s.DropAt > 0 && next > s.DropAt {
					s.DropAt = 0
					s.Mu.Unlock()
					return // connection dropped by the master side
				}
				to := s.M()
				if s.DropAt > 0 && to > s.DropAt {
					to = s.DropAt
				}
				chunk := append([]byte{}, s.Stream[next-s.Base-1:to-s.Base]...)
				s.Mu.Unlock()
				if _, err := c.Write(chunk); err != nil {
					return
				}
				next = to + 1
			}
		default:
			w.WriteString("-ERR unknown command\r\n")
		}
		if w.Flush() != nil {
			return
		}
	}
}

func (s *Source) AppendCmd(key int) {
	s.Mu.Lock()
	idx := len(s.Ends) + 1
	b := hx.EncodeCmd([]byte("RPUSH"), s.Keys[key], []byte(fmt.Sprintf("v%d", idx)))
	if len(s.Ends) == 0 || idx%5 == 0 {
		// a master states the database first and sends keep-alives
		pre := hx.EncodeCmd([]byte("SELECT"), []byte("0"))
		if idx%5 == 0 {
			pre = hx.EncodeCmd([]byte("PING"))
		}
		s.Stream = append(s.Stream, pre...)
	}
	s.Stream = append(s.Stream, b...)
	s.Ends = append(s.Ends, s.M())
	s.KeyOf = append(s.KeyOf, key)
	s.Cond.Broadcast()
	s.Mu.Unlock()
}

// dropNow closes every replication connection
func (s *Source) DropNow() {
	s.Mu.Lock()
	for _, c := range s.Conns {
		c.Close()
	}
	s.Conns = nil
	s.Cond.Broadcast()
	s.Mu.Unlock()
}

// New creates a master with the given keys / initial lists and starts to listen.
func New(base int64, keys [][]byte, initial [][][]byte) *Source {
	s := &Source{Id1: "A", Base: base, Keys: keys, Initial: initial}
	s.Cond = sync.NewCond(&s.Mu)
	s.Bl = base + 1
	ln, err := hx.Listen()
	if err != nil {
		hx.Fatal("%v", err)
	}
	s.Ln = ln
	go func() {
		for {
			c, err := ln.Accept()
			if err != nil {
				return
			}
			go s.Serve(c)
		}
	}()
	return s
}

// Close stops the master.
func (s *Source) Close() {
	s.Mu.Lock()
	s.Closed = true
	s.Cond.Broadcast()
	s.Mu.Unlock()
	s.Ln.Close()
	s.DropNow()
}

// ListAt returns the list key ki holds at offset m (m < 0: now).
func (s *Source) ListAt(ki int, m int64) [][]byte {
	l := append([][]byte{}, s.Initial[ki]...)
	for ci, e := range s.Ends {
		if (m < 0 || e <= m) && s.KeyOf[ci] == ki {
			l = append(l, []byte(fmt.Sprintf("v%d", ci+1)))
		}
	}
	return l
}
