// resyncdrv puts a fake PSYNC source (Redis' admission rule of
// masterTryPartialResynchronization, replid/replid2/second_replid_offset,
// backlog window), a stored target resume position and a pre-populated real
// cache (disk or memory) into one of many combined states, runs the real
// RedisInput.syncMeta against them, then wires writer and reader as the run
// loop does and records what would be delivered to the target.
// spec/trace/TraceResync.tla judges C06.
package main

import (
	"bufio"
	"context"
	"flag"
	"fmt"
	"io"
	"net"
	"os"
	"strconv"
	"strings"
	"sync"
	"time"

	"github.com/mgtv-tech/redis-GunYu/config"
	usync "github.com/mgtv-tech/redis-GunYu/pkg/sync"
	"github.com/mgtv-tech/redis-GunYu/syncer"

	"verifh/hx"
)

var ids = map[string]string{"A": strings.Repeat("a", 40), "B": strings.Repeat("b", 40), "C": strings.Repeat("c", 40)}

func short(id string) string {
	for k, v := range ids {
		if v == id {
			return k
		}
	}
	if id == "?" || id == "" {
		return "none"
	}
	return "other"
}

// SB is the n-th byte (1-based) of replication history h; B is A's promoted replica and shares A's first S bytes.
func SB(h string, n int64, S int64) byte {
	if h == "B" && n <= S {
		h = "A"
	}
	x := uint64(n)*0x9E3779B97F4A7C15 ^ uint64(h[0])*0xC2B2AE3D27D4EB4F
	x ^= x >> 31
	return byte(x >> 13)
}
func stream(h string, from, to int64, S int64) []byte { // bytes numbered from..to inclusive
	if to < from {
		return nil
	}
	b := make([]byte, to-from+1)
	for i := range b {
		b[i] = SB(h, from+int64(i), S)
	}
	return b
}

// snapshot is the dataset image of history h at offset off; B's image at or below the switch offset is A's
var sharedS int64

func snapshot(h string, off int64, size int) []byte {
	if h == "B" && off <= sharedS {
		h = "A"
	}
	b := make([]byte, size)
	for i := range b {
		b[i] = SB(h, off*7919+int64(i)+1000003, 0) ^ 0xa5
	}
	return b
}

type srcState struct {
	id1, id2 string // history letters, id2 "" = none
	second   int64
	M        int64
	bl       int64 // first byte number still in the backlog
	S        int64
	snapSize int
	extra    int64 // bytes written after the tool connected (live stream)
}

type psyncObs struct {
	id    string
	off   int64
	reply string
}

type fakeSource struct {
	ln  net.Listener
	st  srcState
	mu  sync.Mutex
	obs []psyncObs
}

func (fs *fakeSource) serve(c net.Conn) {
	defer c.Close()
	r := bufio.NewReader(c)
	w := bufio.NewWriter(c)
	for {
		line, err := r.ReadString('\n')
		if err != nil {
			return
		}
		if !strings.HasPrefix(line, "*") {
			continue
		}
		n, _ := strconv.Atoi(strings.TrimSpace(line[1:]))
		var args []string
		for i := 0; i < n; i++ {
			l, _ := r.ReadString('\n')
			sz, _ := strconv.Atoi(strings.TrimSpace(l[1:]))
			buf := make([]byte, sz+2)
			io.ReadFull(r, buf)
			args = append(args, string(buf[:sz]))
		}
		if len(args) == 0 {
			continue
		}
		st := fs.st
		switch strings.ToLower(args[0]) {
		case "ping":
			w.WriteString("+PONG\r\n")
		case "replconf":
			w.WriteString("+OK\r\n")
		case "info":
			id2 := strings.Repeat("0", 40)
			sec := int64(-1)
			if st.id2 != "" {
				id2, sec = ids[st.id2], st.second
			}
			body := fmt.Sprintf("# Replication\r\nrole:master\r\nconnected_slaves:0\r\nmaster_replid:%s\r\nmaster_replid2:%s\r\nmaster_repl_offset:%d\r\nsecond_repl_offset:%d\r\nrepl_backlog_first_byte_offset:%d\r\n",
				ids[st.id1], id2, st.M, sec, st.bl)
			fmt.Fprintf(w, "$%d\r\n%s\r\n", len(body), body)
		case "psync":
			reqID := args[1]
			off, _ := strconv.ParseInt(args[2], 10, 64)
			full := true
			if reqID == ids[st.id1] || (st.id2 != "" && reqID == ids[st.id2] && off <= st.second) {
				if off >= st.bl && off <= st.M+1 {
					full = false
				}
			}
			o := psyncObs{id: short(reqID), off: off}
			if full {
				o.reply = "full"
				fmt.Fprintf(w, "+FULLRESYNC %s %d\r\n", ids[st.id1], st.M)
				w.WriteString("\n") // heartbeat while the snapshot is prepared
				snap := snapshot(st.id1, st.M, st.snapSize)
				fmt.Fprintf(w, "$%d\r\n", len(snap))
				w.Write(snap)
				w.Write(stream(st.id1, st.M+1, st.M+st.extra, st.S))
			} else {
				o.reply = "continue"
				fmt.Fprintf(w, "+CONTINUE %s\r\n", ids[st.id1])
				w.Write(stream(st.id1, off, st.M+st.extra, st.S))
			}
			fs.mu.Lock()
			fs.obs = append(fs.obs, o)
			fs.mu.Unlock()
			w.Flush()
			// keep the connection open: the stream is endless
			io.Copy(io.Discard, r)
			return
		default:
			w.WriteString("-ERR unknown command\r\n")
		}
		w.Flush()
	}
}

type fakeOutput struct {
	id     string // history letter or ""
	off    int64
	setIds []string
}

func (o *fakeOutput) StartPoint(ctx context.Context, runIds []string) (syncer.StartPoint, error) {
	for _, r := range runIds {
		if o.id != "" && r == ids[o.id] {
			return syncer.StartPoint{RunId: r, Offset: o.off}, nil
		}
	}
	sp := syncer.StartPoint{}
	sp.Initialize()
	return sp, nil
}
func (o *fakeOutput) Send(ctx context.Context, reader syncer.ChannelReader) error { return nil }
func (o *fakeOutput) SetRunId(ctx context.Context, runId string) error {
	o.setIds = append(o.setIds, runId)
	return nil
}
func (o *fakeOutput) Close() {}

type cacheState struct {
	label string // "" = empty
	rdb   bool
	l, r  int64
	size  int
}

func readAvail(rd syncer.ChannelReader, want int, d time.Duration) ([]byte, bool) {
	wait := usync.NewWaitCloser(nil)
	rd.Start(wait)
	defer func() { rd.Close(); wait.Close(nil) }()
	buf := make([]byte, 0, want)
	done := make(chan struct{})
	var mu sync.Mutex
	ended := false
	go func() {
		b := make([]byte, 4096)
		for {
			n, err := rd.IoReader().Read(b)
			mu.Lock()
			buf = append(buf, b[:n]...)
			if err != nil {
				ended = true
			}
			full := len(buf) >= want
			mu.Unlock()
			if err != nil || full {
				close(done)
				return
			}
		}
	}()
	// give up only after a window without any progress (a loaded machine must not turn into "fewer bytes delivered")
	window := d
	if window < 4*time.Second {
		window = 4 * time.Second
	}
	lastN, lastT := -1, time.Now()
wait:
	for {
		select {
		case <-done:
			break wait
		case <-time.After(20 * time.Millisecond):
			mu.Lock()
			n := len(buf)
			mu.Unlock()
			if n != lastN {
				lastN, lastT = n, time.Now()
			} else if time.Since(lastT) > window || (n == 0 && lastN == 0 && time.Since(lastT) > d && false) {
				break wait
			}
		}
	}
	mu.Lock()
	defer mu.Unlock()
	out := append([]byte{}, buf...)
	if len(out) > want {
		out = out[:want]
	}
	return out, ended
}

func main() {
	out := flag.String("out", "trace.ndjson", "")
	statsPath := flag.String("stats", "stats.json", "")
	seed := flag.Uint64("seed", 1, "")
	n := flag.Int("n", 100, "scenarios")
	work := flag.String("work", "", "scratch directory")
	shard := flag.Int("shard", 0, "")
	shards := flag.Int("shards", 1, "")
	flag.Parse()
	hx.QuietLogs()
	if *work == "" {
		hx.Fatal("-work required")
	}
	config.GetSyncerConfig().Channel = &config.ChannelConfig{VerifyCrc: false}
	config.GetSyncerConfig().Server = config.ServerConfig{ListenPort: 18001}
	tr, err := hx.NewTrace(*out)
	if err != nil {
		hx.Fatal("%v", err)
	}
	wd := hx.NewWatchdog(60 * time.Second)
	id := *shard
	nScen := 0
	kinds := map[string]int{}
	var samples []interface{}
	for i := 0; i < *n; i++ {
		if i%*shards != *shard {
			continue
		}
		id += *shards
		r := hx.NewRng(*seed*4099 + uint64(i))
		wd.Kick(fmt.Sprintf("scenario %d", id))
		S := int64(10 + r.Intn(10))
		sharedS = S
		st := srcState{S: S, snapSize: 1 + r.Intn(20), extra: int64(3 + r.Intn(6))}
		switch r.Intn(3) {
		case 0:
			st.id1 = "A"
		case 1:
			st.id1, st.id2, st.second = "B", "A", S+1
		default:
			st.id1 = "C"
		}
		st.M = S + int64(r.Intn(25))
		st.bl = 1 + int64(r.Intn(int(st.M)+1))
		if r.Chance(40) {
			st.bl = 1
		}
		fo := &fakeOutput{}
		if r.Chance(85) {
			fo.id = []string{"A", "B", "C"}[r.Intn(3)]
			if r.Chance(60) {
				fo.id = st.id1
			}
			fo.off = int64(r.Intn(int(st.M) + 6))
			if r.Chance(25) {
				fo.off = st.M
			}
		}
		cs := cacheState{}
		if r.Chance(80) {
			cs.label = []string{"A", "B", "C"}[r.Intn(3)]
			if r.Chance(60) {
				cs.label = st.id1
			}
			cs.l = int64(r.Intn(int(st.M) + 2))
			cs.r = cs.l + int64(1+r.Intn(int(st.M)+4))
			if r.Chance(30) {
				cs.r = st.M
				if cs.l >= cs.r {
					cs.l = cs.r - 1
				}
			}
			if cs.l < 0 {
				cs.l = 0
			}
			cs.rdb = r.Chance(40)
			cs.size = 1 + r.Intn(12)
		}
		backend := "disk"
		if r.Bool() {
			backend = "memory"
		}
		// ---- fake source
		ln, err := hx.Listen()
		if err != nil {
			hx.Fatal("%v", err)
		}
		fs := &fakeSource{ln: ln, st: st}
		go func() {
			for {
				c, err := ln.Accept()
				if err != nil {
					return
				}
				go fs.serve(c)
			}
		}()
		// ---- cache
		base := fmt.Sprintf("%s/r%d", *work, id)
		os.MkdirAll(base, 0o755)
		var ch syncer.Channel
		if backend == "disk" {
			ch = syncer.NewStoreChannel(syncer.StorerConf{InputId: "verif", Dir: base, MaxSize: 0, LogSize: 16 + 64})
		} else {
			ch = syncer.NewMemoryChannel(syncer.MemoryConf{InputId: "verif", MaxSize: 0, LogSize: 64})
		}
		if cs.label != "" {
			if err := ch.SetRunId(ids[cs.label]); err != nil {
				hx.Fatal("SetRunId: %v", err)
			}
			if cs.rdb {
				f := hx.NewFeedReader()
				w, err := ch.NewRdbWriter(f, cs.l, int64(cs.size))
				if err != nil {
					hx.Fatal("%v", err)
				}
				w.Start()
				f.Feed(snapshot(cs.label, cs.l, cs.size))
				if err := w.Wait(context.Background()); err != nil {
					hx.Fatal("populate snapshot: %v", err)
				}
				w.Close()
			}
			f := hx.NewFeedReader()
			w, err := ch.NewAofWritter(f, cs.l)
			if err != nil {
				hx.Fatal("%v", err)
			}
			w.Start()
			f.Feed(stream(cs.label, cs.l+1, cs.r, st.S)) // cache offset o holds stream byte o+1
			if !f.WaitDrained(nil, 90*time.Second) {
				hx.Fatal("cache population stalled")
			}
			f.CloseWith(io.EOF)
			w.Wait(context.Background())
			w.Close()
		}
		// ---- the real decision (step 1: the described state; step 2: the next connection of the same process, after
		// the target has advanced into what the cache now claims to hold under the current id)
		ctx, cancel := context.WithTimeout(context.Background(), 40*time.Second)
		var liveW syncer.AofChannelWriter
		var lastOutSp syncer.StartPoint
		stepOK := false
		step := func(evID int, stepNo int, cacheDesc map[string]interface{}) {
			stepOK = false
			nObs := 0
			fs.mu.Lock()
			nObs = len(fs.obs)
			fs.mu.Unlock()
			ri := syncer.NewRedisInput(config.RedisConfig{Addresses: []string{ln.Addr().String()}, Type: config.RedisTypeStandalone, Otype: config.RedisTypeStandalone})
			ri.SetChannel(ch)
			ri.SetOutput(fo)
			cli, isFull, rdbSize, locSp, outSp, merr := ri.VerifSyncMeta(ctx)
			lastOutSp = outSp
			ev := map[string]interface{}{"ev": "Resync", "id": evID, "step": stepNo, "backend": backend, "S": st.S,
				"src":   map[string]interface{}{"id1": st.id1, "id2": st.id2, "second": st.second, "M": st.M, "bl": st.bl},
				"out":   map[string]interface{}{"id": fo.id, "off": fo.off},
				"cache": cacheDesc,
				"err":   merr != nil}
			fs.mu.Lock()
			ps := map[string]interface{}{"asked": len(fs.obs) > 0, "id": "none", "off": -1, "reply": "none"}
			if len(fs.obs) > nObs {
				ps["id"], ps["off"], ps["reply"] = fs.obs[nObs].id, fs.obs[nObs].off, fs.obs[nObs].reply
			}
			ps["asked"] = len(fs.obs) > nObs
			fs.mu.Unlock()
			ev["psync"] = ps
			deliv := map[string]interface{}{"kind": "error", "snapOff": -1, "snapOk": false, "start": -1, "n": 0, "match": true, "cur": st.id1}
			if merr == nil {
				// wire the writers as syncData does
				src := cli.Client().BufioReader()
				okWriters := true
				if isFull {
					w, err := ch.NewRdbWriter(src, locSp.Offset, rdbSize)
					if err != nil {
						okWriters = false
					} else {
						w.Start()
						if err := w.Wait(ctx); err != nil {
							okWriters = false
						}
						w.Close()
					}
				}
				if okWriters {
					w, err := ch.NewAofWritter(src, locSp.Offset)
					if err != nil {
						okWriters = false
					} else {
						w.Start()
						liveW = w
						// let the live bytes arrive
						deadline := time.Now().Add(2 * time.Second)
						for time.Now().Before(deadline) {
							if _, rr := ch.GetOffsetRange(ch.RunId()); rr >= st.M+st.extra {
								break
							}
							time.Sleep(300 * time.Microsecond)
						}
					}
				}
				if okWriters {
					// the reader the run loop opens for the output
					rd, err := ch.NewReader(syncer.Offset{RunId: outSp.RunId, Offset: outSp.Offset})
					if err == nil {
						if !rd.IsAof() {
							left, size := rd.Left(), rd.Size()
							b, _ := readAvail(rd, int(size), 2*time.Second)
							deliv["kind"], deliv["snapOff"] = "snapshot", left
							// whose snapshot is it? it must be the current history's snapshot taken at `left`
							deliv["snapOk"] = int64(len(b)) == size && string(b) == string(snapshot(st.id1, left, int(size)))
							rd2, err := ch.NewReader(syncer.Offset{RunId: ch.RunId(), Offset: left})
							if err == nil && rd2.IsAof() {
								want := st.M + st.extra - left
								b2, _ := readAvail(rd2, int(want), 2*time.Second)
								deliv["start"], deliv["n"] = left, len(b2)
								deliv["match"] = string(b2) == string(stream(st.id1, left+1, left+int64(len(b2)), st.S))
								deliv["want"] = want
							} else {
								if err == nil {
									rd2.Close()
								}
								deliv["start"], deliv["n"], deliv["want"] = left, 0, st.M+st.extra-left
							}
						} else {
							want := st.M + st.extra - outSp.Offset
							b, _ := readAvail(rd, int(want), 2*time.Second)
							deliv["kind"], deliv["start"], deliv["n"], deliv["want"] = "continue", outSp.Offset, len(b), want
							deliv["match"] = string(b) == string(stream(st.id1, outSp.Offset+1, outSp.Offset+int64(len(b)), st.S))
						}
					}
				}
				cli.Close()
			}
			if _, ok := deliv["want"]; !ok {
				deliv["want"] = 0
			}
			ev["deliv"] = deliv
			ev["decision"] = map[string]interface{}{"full": isFull, "locOff": locSp.Offset, "outOff": outSp.Offset, "setRunId": len(fo.setIds)}
			tr.Emit(ev)
			kinds[fmt.Sprint(deliv["kind"])]++
			if len(samples) < 3 {
				samples = append(samples, ev)
			}
			stepOK = merr == nil && deliv["kind"] != "error"
		}
		step(id, 1, map[string]interface{}{"label": cs.label, "rdb": cs.rdb, "l": cs.l, "r": cs.r})
		if stepOK && r.Chance(60) {
			// the replay went on for a while; the connection is lost; the same process connects again
			cl, cr := ch.GetOffsetRange(ch.RunId())
			if liveW != nil {
				liveW.Close()
				liveW = nil
			}
			if cr > lastOutSp.Offset && cr > cl {
				lo := lastOutSp.Offset
				if cl > lo {
					lo = cl
				}
				fo.id, fo.off = st.id1, lo+int64(r.Intn(int(cr-lo)+1))
				step(id+500000, 2, map[string]interface{}{"label": st.id1, "rdb": false, "l": cl, "r": cr})
				nScen++
			}
		}
		cancel()
		ch.Close()
		ln.Close()
		os.RemoveAll(base)
		nScen++
	}
	if err := tr.Close(); err != nil {
		hx.Fatal("%v", err)
	}
	hx.WriteJSON(*statsPath, map[string]interface{}{"scenarios": nScen, "kinds": kinds, "samples": samples})
	fmt.Fprintf(os.Stderr, "resyncdrv: %d scenarios %v\n", nScen, kinds)
}
