package main

import (
	"fmt"
	"os"
	"os/exec"
	"path/filepath"
	"sort"
	"strings"
	"time"

	"github.com/mgtv-tech/redis-GunYu/syncer"

	"verifh/hx"
)

// matchAny reports whether b equals the source bytes at start.. of any history used so far
// (one run id is one replication history; the driver's history counter only separates resets).
func matchAny(b []byte, maxHist int, start int64) bool {
	if len(b) == 0 {
		return true
	}
	for h := 0; h <= maxHist; h++ {
		ok := true
		for i, c := range b {
			if c != Byte(h, start+int64(i)) {
				ok = false
				break
			}
		}
		if ok {
			return true
		}
	}
	return false
}

func snapMatchAny(b []byte, maxHist int, l int64) bool {
	for h := 0; h <= maxHist; h++ {
		if string(b) == string(snapData(h, l, int64(len(b)))) {
			return true
		}
	}
	return false
}

func listFiles(dir string) []string {
	out := []string{}
	es, _ := os.ReadDir(dir)
	for _, e := range es {
		fi, err := e.Info()
		if err == nil {
			out = append(out, fmt.Sprintf("%s:%d", e.Name(), fi.Size()))
		}
	}
	sort.Strings(out)
	return out
}

// reopen opens a fresh disk channel on a copy of the frozen image and records its answers.
func reopen(ctr *hx.Trace, img string, x *run, id int, why string, corrupt bool) {
	base, err := os.MkdirTemp(filepath.Dir(img), "reopen")
	if err != nil {
		hx.Fatal("%v", err)
	}
	defer os.RemoveAll(base)
	if out, err := exec.Command("cp", "-r", img, filepath.Join(base, x.label)).CombinedOutput(); err != nil {
		hx.Fatal("copy image: %v %s", err, out)
	}
	files := listFiles(filepath.Join(base, x.label))
	altered := ""
	var alteredSize int64
	if corrupt {
		// flip one byte in the body of a closed (non-newest) segment
		var segs []string
		for _, f := range files {
			name := strings.SplitN(f, ":", 2)[0]
			if strings.HasSuffix(name, ".aof") {
				segs = append(segs, name)
			}
		}
		if len(segs) < 2 {
			return
		}
		sort.Slice(segs, func(i, j int) bool {
			var a, b int64
			fmt.Sscanf(segs[i], "%d.aof", &a)
			fmt.Sscanf(segs[j], "%d.aof", &b)
			return a < b
		})
		victim := segs[x.r.Intn(len(segs)-1)]
		p := filepath.Join(base, x.label, victim)
		data, err := os.ReadFile(p)
		if err != nil || len(data) <= 17 {
			return
		}
		data[16+x.r.Intn(len(data)-16)] ^= 0x41
		os.WriteFile(p, data, 0o644)
		altered = victim
		alteredSize = int64(len(data))
	}
	ch := syncer.NewStoreChannel(syncer.StorerConf{InputId: "verif", Dir: base, MaxSize: x.maxSize, LogSize: 16 + x.logSize})
	defer ch.Close()
	sp, err := ch.StartPoint([]string{x.label})
	if err != nil {
		hx.Fatal("StartPoint on frozen image: %v", err)
	}
	ll, rr := ch.GetOffsetRange(x.label)
	ev := map[string]interface{}{"ev": "Reopen", "id": id, "why": why, "files": files, "ll": ll, "rr": rr, "sp": sp.Offset, "altered": altered}
	var alteredLeft, alteredRight int64 = -1, -1
	if altered != "" {
		fmt.Sscanf(altered, "%d.aof", &alteredLeft)
		// (the reopened cache may have removed the file already)
		alteredRight = alteredLeft + alteredSize - 16
	}
	ev["al"], ev["ar"] = alteredLeft, alteredRight
	// every offset from two below the range to two above it
	probes := []map[string]interface{}{}
	lo, hi := ll-2, rr+2
	if ll < 0 {
		lo, hi = 0, 3
	}
	if lo < 0 {
		lo = 0
	}
	if hi-lo > 400 {
		hi = lo + 400
	}
	for o := lo; o <= hi; o++ {
		valid := ch.IsValidOffset(syncer.Offset{RunId: x.label, Offset: o})
		pr := map[string]interface{}{"off": o, "valid": valid, "opened": false, "aof": false, "n": 0, "want": 0, "match": true}
		if valid {
			rd, err := ch.NewReader(syncer.Offset{RunId: x.label, Offset: o})
			if err == nil {
				pr["opened"], pr["aof"] = true, rd.IsAof()
				if rd.IsAof() {
					p := newPump(rd)
					want := rr - o
					if want > 5 {
						want = 5
					}
					if want < 0 {
						want = 0
					}
					b, _ := p.take(int(want), 300*time.Millisecond)
					pr["want"], pr["n"], pr["match"] = want, len(b), matchAny(b, x.hist, o)
					// how far can this reader go? (bytes served from an altered segment)
					p.close()
				} else {
					rd.Close()
				}
			}
		}
		probes = append(probes, pr)
	}
	ev["probes"] = probes
	// full read from the left end of the range: everything served must be source bytes
	full := map[string]interface{}{"tried": false, "n": 0, "match": true, "from": ll}
	if ll >= 0 && rr > ll && ch.IsValidOffset(syncer.Offset{RunId: x.label, Offset: ll}) {
		if rd, err := ch.NewReader(syncer.Offset{RunId: x.label, Offset: ll}); err == nil {
			if rd.IsAof() {
				p := newPump(rd)
				b, _ := p.take(int(rr-ll), 400*time.Millisecond)
				full["tried"], full["n"], full["match"] = true, len(b), matchAny(b, x.hist, ll)
				p.close()
			} else {
				rd.Close()
			}
		}
	}
	ev["full"] = full
	// snapshot offer
	l, s := ch.GetRdb(x.label)
	snap := map[string]interface{}{"offered": l != -1 || s != -1, "l": l, "s": s, "ok": false, "n": 0, "match": true}
	if l != -1 || s != -1 {
		if rd, err := ch.NewReader(syncer.Offset{RunId: x.label, Offset: below(l)}); err == nil {
			if !rd.IsAof() {
				p := newPump(rd)
				b, _ := p.take(int(s)+1, 400*time.Millisecond)
				snap["ok"], snap["n"], snap["match"] = int64(len(b)) == s, len(b), snapMatchAny(b, x.hist, l)
				p.close()
			} else {
				rd.Close()
			}
		}
	}
	ev["snap"] = snap
	ctr.Emit(ev)
}

func reopenAll(ctr *hx.Trace, fd string, x *run, id int) int {
	es, _ := os.ReadDir(fd)
	n := 0
	for _, e := range es {
		if !e.IsDir() {
			continue
		}
		img := filepath.Join(fd, e.Name())
		why, _ := os.ReadFile(img + ".why")
		reopen(ctr, img, x, id, string(why), false)
		n++
		if x.r.Chance(25) {
			reopen(ctr, img, x, id, string(why), true)
			n++
		}
	}
	return n
}
