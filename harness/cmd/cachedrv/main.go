// cachedrv drives the real cache back ends (disk StoreChannel, MemoryChannel)
// with seeded operation sequences: snapshot and log writers fed with a keyed
// byte pattern, rotation, collection, readers opened at arbitrary offsets,
// writer replacement, resets.  Everything the channel answers and every chunk
// its readers deliver is recorded for spec/trace/TraceCache.tla.  With -crash
// the directory of the disk back end is copied before every file mutation
// (hook point "store.fs"); each frozen image is reopened by a fresh channel
// and its answers are recorded for spec/trace/TraceCacheCrash.tla.
package main

import (
	"context"
	"flag"
	"fmt"
	"io"
	"os"
	"os/exec"
	"path/filepath"
	"sort"
	"strings"
	"sync"
	"sync/atomic"
	"time"

	"github.com/mgtv-tech/redis-GunYu/config"
	usync "github.com/mgtv-tech/redis-GunYu/pkg/sync"
	"github.com/mgtv-tech/redis-GunYu/pkg/verifhook"
	"github.com/mgtv-tech/redis-GunYu/syncer"

	"verifh/hx"
)

// Byte is the source byte of history h at replication offset o.
func Byte(h int, o int64) byte {
	x := uint64(o)*0x9E3779B97F4A7C15 ^ uint64(h+1)*0xC2B2AE3D27D4EB4F
	x ^= x >> 29
	return byte(x >> 17)
}

// SnapByte is byte i of the snapshot taken at offset l of history h.
func SnapByte(h int, l int64, i int64) byte {
	return Byte(h+100, l*1000003+i) ^ 0x5a
}

func gen(n int64, f func(i int64) byte) []byte {
	b := make([]byte, n)
	for i := range b {
		b[i] = f(int64(i))
	}
	return b
}

// pump drains a ChannelReader into a buffer so that the harness can take bytes with a deadline.
type pump struct {
	mu   sync.Mutex
	cond *sync.Cond
	buf  []byte
	err  error
	rd   syncer.ChannelReader
	wait usync.WaitCloser
	aof  bool
	pos  int64 // next offset expected (aof) / index (rdb)
	hist int   // history the cache held when the reader was handed out
	lazy bool  // handed out but not started yet (a consumer that is slow to begin)
}

func newPump(rd syncer.ChannelReader) *pump {
	p := &pump{rd: rd, wait: usync.NewWaitCloser(nil), aof: rd.IsAof()}
	p.cond = sync.NewCond(&p.mu)
	p.start()
	return p
}

// newLazyPump hands the reader out without starting it; start() is called later
func newLazyPump(rd syncer.ChannelReader) *pump {
	p := &pump{rd: rd, wait: usync.NewWaitCloser(nil), aof: rd.IsAof(), lazy: true}
	p.cond = sync.NewCond(&p.mu)
	return p
}

func (p *pump) start() {
	p.lazy = false
	rd := p.rd
	rd.Start(p.wait)
	go func() {
		b := make([]byte, 4096)
		for {
			n, err := rd.IoReader().Read(b)
			p.mu.Lock()
			p.buf = append(p.buf, b[:n]...)
			if err != nil {
				p.err = err
			}
			p.cond.Broadcast()
			p.mu.Unlock()
			if err != nil {
				return
			}
		}
	}()
}

// take waits until n bytes are buffered, the reader ended, or the deadline passed.
// take waits for n bytes.  It gives up after d WITHOUT PROGRESS, not after d in all: a disk reader sleeps 10 ms at every segment
// boundary, so a read across many small segments legitimately takes long (a verdict must not rest on that).
func (p *pump) take(n int, d time.Duration) ([]byte, bool) {
	if d < 600*time.Millisecond {
		d = 600 * time.Millisecond
	}
	deadline := time.Now().Add(d)
	p.mu.Lock()
	defer p.mu.Unlock()
	last := len(p.buf)
	for len(p.buf) < n && p.err == nil {
		if len(p.buf) != last {
			last = len(p.buf)
			deadline = time.Now().Add(d)
		}
		if time.Now().After(deadline) {
			break
		}
		p.mu.Unlock()
		time.Sleep(500 * time.Microsecond)
		p.mu.Lock()
	}
	k := len(p.buf)
	if n >= 0 && k > n {
		k = n
	}
	out := append([]byte{}, p.buf[:k]...)
	p.buf = p.buf[k:]
	return out, p.err != nil
}

func (p *pump) close() {
	p.rd.Close()
	p.wait.Close(nil)
}

// closingReader is the byte source of a snapshot writer.  When armed it closes the writer at the one instant no call from
// outside can hit: after the source has handed over the LAST bytes of the snapshot and before the writer has stored them
// (the harness owns the byte source, so the schedule is forced, not hoped for).
type closingReader struct {
	inner  io.Reader
	size   int64
	total  int64
	armed  atomic.Bool
	fired  atomic.Bool
	closer func()
}

func (c *closingReader) Read(p []byte) (int, error) {
	n, err := c.inner.Read(p)
	c.total += int64(n)
	if n > 0 && c.total == c.size && c.armed.Load() && c.closer != nil {
		c.fired.Store(true)
		reached, gate := make(chan struct{}), make(chan struct{})
		closeReached.Store(&reached)
		closeGate.Store(&gate)
		go c.closer()
		select {
		case <-reached: // the writer is marked closed and stands before its completeness decision
		case <-time.After(2 * time.Second):
		}
		defer close(gate)
	}
	return n, err
}

type snapM struct {
	l, s, got int64
	done      bool
	data      []byte // full snapshot content (ends with the CRC64 of what precedes when s > 8)
}

func snapData(h int, l, s int64) []byte {
	b := gen(s, func(i int64) byte { return SnapByte(h, l, i) })
	if s > 8 {
		c := hx.Crc64(0, b[:s-8])
		for i := 0; i < 8; i++ {
			b[int(s)-8+i] = byte(c >> (8 * uint(i)))
		}
	}
	return b
}

type run struct {
	r       *hx.Rng
	tr      *hx.Trace
	ch      syncer.Channel
	disk    bool
	dir     string
	hist    int    // history of the content being written
	label   string // run id the channel is labelled with
	wl, wr  int64
	snapCR  *closingReader
	snap    *snapM
	snapW   syncer.RdbChannelWriter
	snapF   *hx.FeedReader
	aofW    syncer.AofChannelWriter
	aofF    *hx.FeedReader
	readers map[int]*pump
	nextR   int
	logSize int64
	maxSize int64
	nOps    int
	sample  []string
	todo    []func() // forced operations (a directed sub-scenario), run before any random choice
}

func (x *run) op(m map[string]interface{}) {
	m["ev"] = "Op"
	x.tr.Emit(m)
	x.nOps++
	if len(x.sample) < 40 {
		s := fmt.Sprint(m["op"])
		for _, k := range []string{"l", "s", "n", "off", "r"} {
			if v, ok := m[k]; ok {
				s += fmt.Sprintf(" %s=%v", k, v)
			}
		}
		x.sample = append(x.sample, s)
	}
}
func (x *run) obs(m map[string]interface{}) {
	m["ev"] = "Obs"
	x.tr.Emit(m)
}

func (x *run) drain(f *hx.FeedReader) {
	if f.WaitDrained(nil, 400*time.Millisecond) {
		return
	}
	// a memory writer may be waiting for capacity held by readers: release them
	for id, p := range x.readers {
		p.close()
		delete(x.readers, id)
		x.op(map[string]interface{}{"op": "closereader", "r": id})
	}
	if !f.WaitDrained(nil, 5*time.Second) {
		hx.Fatal("writer did not consume the bytes it was fed")
	}
}

func (x *run) match(b []byte, aof bool, start int64) bool {
	for i, c := range b {
		var w byte
		if aof {
			w = Byte(x.hist, start+int64(i))
		} else {
			if int(start)+i >= len(x.snap.data) {
				return false
			}
			w = x.snap.data[int(start)+i]
		}
		if c != w {
			return false
		}
	}
	return true
}

// observe records the channel's answers after an operation.
func (x *run) observe() {
	ll, rr := x.ch.GetOffsetRange(x.label)
	x.obs(map[string]interface{}{"o": "range", "ll": ll, "rr": rr})
	// valid offsets around every interesting boundary
	cands := map[int64]bool{}
	add := func(o int64) {
		for _, d := range []int64{-1, 0, 1} {
			if o+d >= 0 {
				cands[o+d] = true
			}
		}
	}
	if x.wl >= 0 {
		add(x.wl)
		add(x.wr)
		add(x.wl + (x.wr-x.wl)/2)
		add(ll)
	}
	if x.snap != nil {
		add(x.snap.l)
	}
	var offs []int64
	for o := range cands {
		offs = append(offs, o)
	}
	sort.Slice(offs, func(i, j int) bool { return offs[i] < offs[j] })
	for _, o := range offs {
		if !x.ch.IsValidOffset(syncer.Offset{RunId: x.label, Offset: o}) {
			continue
		}
		m := map[string]interface{}{"o": "valid", "off": o, "opened": false, "aof": false, "match": true, "n": 0, "want": 0}
		rd, err := x.ch.NewReader(syncer.Offset{RunId: x.label, Offset: o})
		if err == nil {
			m["opened"] = true
			m["aof"] = rd.IsAof()
			p := newPump(rd)
			if rd.IsAof() {
				want := x.wr - o
				if want > 6 {
					want = 6
				}
				if want < 0 {
					want = 0
				}
				b, _ := p.take(int(want), 2*time.Second)
				m["want"], m["n"], m["match"] = want, len(b), x.match(b, true, o)
			}
			p.close()
		} else {
			m["err"] = err.Error()
		}
		x.obs(m)
	}
	// an offered snapshot must be replayable in full
	if l, s := x.ch.GetRdb(x.label); l != -1 || s != -1 {
		m := map[string]interface{}{"o": "rdboffer", "l": l, "s": s, "ok": false, "n": 0, "match": true}
		writing := x.snap != nil && !x.snap.done && x.snap.l == l
		if !writing { // a snapshot still being received is tailed by its reader; it is judged once complete or aborted
			rd, err := x.ch.NewReader(syncer.Offset{RunId: x.label, Offset: below(l)})
			if err == nil && !rd.IsAof() {
				p := newPump(rd)
				b, ended := p.take(int(s)+1, 2*time.Second)
				ok := len(b) == int(s) || (ended && len(b) <= int(s))
				m["ok"] = int64(len(b)) == s
				_ = ok
				m["n"] = len(b)
				if x.snap != nil {
					m["match"] = x.match(b, false, 0)
				} else {
					m["match"] = false
				}
				p.close()
			} else if err == nil {
				rd.Close()
			}
			x.obs(m)
		}
	}
}

func (x *run) readAll() {
	for id, p := range x.readers {
		if !p.aof {
			continue
		}
		want := x.wr - p.pos
		if want < 0 {
			want = 0
		}
		if p.lazy {
			p.start()
		}
		var b []byte
		var ended bool
		if p.hist != x.hist {
			// invalidated by a reset since it was handed out: it may still deliver what it had pinned, then it has to end
			b, ended = p.take(1<<30, 2*time.Second)
		} else {
			b, ended = p.take(int(want), 2*time.Second)
		}
		own := true // every byte is the byte of the history the reader was opened on
		for i, c := range b {
			if c != Byte(p.hist, p.pos+int64(i)) {
				own = false
			}
		}
		x.obs(map[string]interface{}{"o": "deliver", "r": id, "n": len(b), "want": want, "match": x.match(b, true, p.pos), "own": own, "ended": ended})
		p.pos += int64(len(b))
	}
}

func (x *run) newAofWriter() {
	off := x.wr
	if x.wl < 0 {
		if x.snap != nil && x.snap.done {
			off = x.snap.l
		} else {
			off = int64(10 + x.r.Intn(90))
		}
	}
	if x.aofF != nil {
		x.aofF.CloseWith(io.EOF)
	}
	f := hx.NewFeedReader()
	w, err := x.ch.NewAofWritter(f, off)
	if err != nil {
		hx.Fatal("NewAofWritter(%d): %v", off, err)
	}
	w.Start()
	x.aofW, x.aofF = w, f
	if x.wl < 0 {
		x.wl, x.wr = off, off
	}
	x.op(map[string]interface{}{"op": "aofwriter", "off": off})
}

func (x *run) step() {
	r := x.r
	if len(x.todo) > 0 {
		f := x.todo[0]
		x.todo = x.todo[1:]
		f()
		return
	}
	switch {
	case x.snap != nil && !x.snap.done:
		x.stepSnap(true)
	case x.wl < 0 && (x.snap == nil || r.Chance(30)):
		if r.Chance(60) {
			x.newSnap()
		} else if x.snap == nil || x.snap.done {
			x.newAofWriter()
		}
	case x.wl < 0:
		x.newAofWriter()
	default:
		x.stepDefault()
	}
}

// stepSnap feeds the next piece of the snapshot that is being received (or aborts it)
func (x *run) stepSnap(mayAbort bool) {
	r := x.r
	{
		if mayAbort && r.Chance(8) {
			x.snapW.Close()
			x.snapF.CloseWith(io.EOF)
			x.snapW.Wait(nil2())
			x.op(map[string]interface{}{"op": "snapabort"})
			x.snap = nil
			return
		}
		n := int64(1 + r.Intn(int(x.snap.s-x.snap.got)))
		if r.Chance(50) && n > 3 {
			n = 3
		}
		if mayAbort && x.snap.got+n == x.snap.s && r.Chance(20) && x.snapCR != nil {
			// the writer is closed between receiving the last bytes and storing them: the snapshot is not complete
			x.snapCR.armed.Store(true)
			x.snapF.Feed(x.snap.data[x.snap.got : x.snap.got+n])
			x.snapW.Wait(nil2())
			x.snapF.CloseWith(io.EOF)
			if !x.snapCR.fired.Load() {
				hx.Fatal("the snapshot writer ended without reading its last bytes")
			}
			x.op(map[string]interface{}{"op": "snapabort", "at": "lastchunk"})
			x.snap = nil
			return
		}
		x.snapF.Feed(x.snap.data[x.snap.got : x.snap.got+n])
		x.snap.got += n
		if x.snap.got == x.snap.s {
			x.snap.done = true
			if err := x.snapW.Wait(nil2()); err != nil {
				hx.Fatal("snapshot writer: %v", err)
			}
		} else {
			x.drain(x.snapF)
		}
		x.op(map[string]interface{}{"op": "snapappend", "n": n})
	}
}

func (x *run) stepDefault() {
	r := x.r
	{
		if r.Chance(5) && x.wr-x.wl >= 3 && x.aofF != nil {
			// directed: a reader that is handed out but not started, then a new history whose log comes to cover the
			// offsets the reader still has to deliver, then the reader starts
			o := x.wl + int64(r.Intn(int(x.wr-x.wl)/2+1))
			oldWr := x.wr
			rd, err := x.ch.NewReader(syncer.Offset{RunId: x.label, Offset: o})
			if err != nil || !rd.IsAof() {
				if err == nil {
					rd.Close()
				}
			} else {
				x.nextR++
				p := newLazyPump(rd)
				p.pos, p.hist = o, x.hist
				x.readers[x.nextR] = p
				x.obs(map[string]interface{}{"o": "open", "r": x.nextR, "off": o, "aof": true, "lazy": true})
				l := o - int64(r.Intn(3))
				if l < 1 {
					l = 1
				}
				x.todo = append(x.todo,
					func() { x.newSnapAt(l, 3) },
					func() {
						for x.snap != nil && !x.snap.done {
							x.stepSnap(false)
						}
					},
					func() {
						if x.snap != nil && x.snap.done && x.wl < 0 {
							x.newAofWriter()
						}
					},
					func() {
						if x.aofF == nil || x.wl < 0 {
							return
						}
						n := oldWr - x.wr + 1 + int64(r.Intn(6))
						if n < 1 {
							n = 1
						}
						x.aofF.Feed(gen(n, func(i int64) byte { return Byte(x.hist, x.wr+i) }))
						x.drain(x.aofF)
						x.wr += n
						x.op(map[string]interface{}{"op": "append", "n": n})
					},
					func() { x.readAll() })
				return
			}
		}
		switch c := r.Intn(100); {
		case c < 40:
			n := int64(1 + r.Intn(int(x.logSize)))
			if r.Chance(20) {
				n = int64(1 + r.Intn(int(3*x.logSize)))
			}
			x.aofF.Feed(gen(n, func(i int64) byte { return Byte(x.hist, x.wr+i) }))
			x.drain(x.aofF)
			x.wr += n
			x.op(map[string]interface{}{"op": "append", "n": n})
		case c < 46 && x.disk && x.wr > x.wl:
			// a reader that has caught up with the writer, and an append that fills the segment and rotates the log at the
			// instant the reader stands at the end of the old segment
			rd, err := x.ch.NewReader(syncer.Offset{RunId: x.label, Offset: x.wr})
			if err != nil || !rd.IsAof() {
				if err == nil {
					rd.Close()
				}
				break
			}
			x.nextR++
			p := newPump(rd)
			p.pos, p.hist = x.wr, x.hist
			x.readers[x.nextR] = p
			x.obs(map[string]interface{}{"o": "open", "r": x.nextR, "off": x.wr, "aof": true, "lazy": false})
			n := x.logSize + 1 + int64(r.Intn(4))
			data := gen(n, func(i int64) byte { return Byte(x.hist, x.wr+i) })
			fired := make(chan struct{})
			f := func() {
				x.aofF.Feed(data)
				x.aofF.WaitDrained(nil, 2*time.Second)
				time.Sleep(200 * time.Microsecond) // the writer stores the bytes and opens the next segment
				close(fired)
			}
			tailHook.Store(&f)
			select {
			case <-fired:
			case <-time.After(500 * time.Millisecond):
				if g := tailHook.Swap(nil); g != nil {
					(*g)() // no reader reached the end of its segment: a plain append
				} else {
					<-fired
				}
			}
			x.wr += n
			x.op(map[string]interface{}{"op": "append", "n": n, "at": "readereof"})
		case c < 55:
			// open a reader somewhere in (or just outside) what was written
			o := x.wl + int64(r.Intn(int(x.wr-x.wl)+3)) - 1
			if r.Chance(15) && x.snap != nil {
				o = x.snap.l - int64(r.Intn(2))
			}
			if o < 0 {
				o = 0
			}
			rd, err := x.ch.NewReader(syncer.Offset{RunId: x.label, Offset: o})
			if err == nil {
				x.nextR++
				var p *pump
				if rd.IsAof() && r.Chance(30) {
					p = newLazyPump(rd) // started by a later read: the cache may have been reset in between
				} else {
					p = newPump(rd)
				}
				p.pos, p.hist = o, x.hist
				x.readers[x.nextR] = p
				x.obs(map[string]interface{}{"o": "open", "r": x.nextR, "off": o, "aof": rd.IsAof(), "lazy": p.lazy})
			}
		case c < 70:
			x.readAll()
		case c < 78:
			for id, p := range x.readers {
				p.close()
				delete(x.readers, id)
				x.op(map[string]interface{}{"op": "closereader", "r": id})
				break
			}
		case c < 88:
			if sc, ok := x.ch.(*syncer.StoreChannel); ok {
				sc.VerifGC()
			}
			x.op(map[string]interface{}{"op": "collect"})
		case c < 94:
			x.newAofWriter() // writer replacement at the current right end
		case c < 97:
			x.readAll()
			x.newSnap()
		default:
			x.readAll()
			if err := x.ch.DelRunId(x.label); err != nil {
				hx.Fatal("DelRunId: %v", err)
			}
			x.op(map[string]interface{}{"op": "reset"})
			x.wl, x.wr, x.snap, x.aofW = -1, -1, nil, nil
			x.hist++
			if err := x.ch.SetRunId(x.label); err != nil {
				hx.Fatal("SetRunId: %v", err)
			}
		}
	}
}

// below returns the offset a consumer asks for to obtain the snapshot taken at l
// (the log reader is preferred for l itself once a log segment starts there).
func below(l int64) int64 {
	if l > 0 {
		return l - 1
	}
	return l
}

func nil2() context.Context { return context.Background() }

func (x *run) newSnap() { x.newSnapAt(-1, -1) }

func (x *run) newSnapAt(fl, fs int64) {
	if x.aofF != nil {
		x.aofF.CloseWith(io.EOF)
		x.aofF, x.aofW = nil, nil
	}
	l := int64(20 + x.r.Intn(200))
	if x.wl >= 0 && x.r.Chance(40) {
		// a new history whose offsets overlap the old one's: what old readers still hold meets what is written next
		l = x.wl - 5 + int64(x.r.Intn(int(x.wr-x.wl)+8))
		if l < 1 {
			l = 1
		}
	}
	s := int64(x.r.Intn(30))
	if x.r.Chance(10) {
		s = 0
	}
	if fl >= 0 {
		l, s = fl, fs
	}
	x.hist++
	f := hx.NewFeedReader()
	cr := &closingReader{inner: f, size: s}
	w, err := x.ch.NewRdbWriter(cr, l, s)
	if err != nil {
		hx.Fatal("NewRdbWriter: %v", err)
	}
	cr.closer = func() { w.Close() }
	x.snapCR = cr
	w.Start()
	x.snapW, x.snapF = w, f
	x.snap = &snapM{l: l, s: s, done: s == 0, data: snapData(x.hist, l, s)}
	x.wl, x.wr = -1, -1
	x.op(map[string]interface{}{"op": "snap", "l": l, "s": s})
	if s == 0 {
		w.Wait(nil2())
	}
}

var freezeDir string
var freezeN int
var freezeMu sync.Mutex
var freezeSrc string
var freezeEvery int

// closeGate: a snapshot writer that is being closed by a closingReader waits at its "rdb.close" point (before it decides
// whether the snapshot is complete) until the reader has handed the last bytes to the writer's pump
var tailHook atomic.Pointer[func()]
var segClosedHook atomic.Pointer[func()]
var closeGate atomic.Pointer[chan struct{}]
var closeReached atomic.Pointer[chan struct{}]

func installFreeze() {
	verifhook.SetPoint(func(name string, args ...interface{}) {
		if name == "store.reader" {
			// a tailing reader has just seen the end of its segment and has not yet looked for a successor: the one instant
			// at which an append that also rotates the log decides whether the reader loses the tail of its segment
			if f := tailHook.Swap(nil); f != nil {
				(*f)()
			}
			return
		}
		if name == "store.ds" {
			// a reset / writer replacement has just closed the readers of one log segment and has the others still to do
			if f := segClosedHook.Swap(nil); f != nil {
				(*f)()
			}
			return
		}
		if name != "store.fs" {
			return
		}
		if len(args) > 0 && fmt.Sprint(args[0]) == "rdb.close" {
			if r := closeReached.Swap(nil); r != nil {
				close(*r)
				if g := closeGate.Swap(nil); g != nil {
					select {
					case <-*g:
					case <-time.After(2 * time.Second):
					}
					time.Sleep(300 * time.Microsecond) // the pump accounts / refuses the bytes it was just given
				}
			}
		}
		freezeMu.Lock()
		defer freezeMu.Unlock()
		if freezeSrc == "" {
			return
		}
		freezeN++
		if freezeEvery > 1 && freezeN%freezeEvery != 0 {
			return
		}
		dst := filepath.Join(freezeDir, fmt.Sprintf("img%05d", freezeN))
		if _, err := os.Stat(freezeSrc); err != nil {
			os.MkdirAll(dst, 0o755) // the run id directory is gone (DelRunId): an empty image
		} else if out, err := exec.Command("cp", "-r", freezeSrc, dst).CombinedOutput(); err != nil {
			hx.Fatal("freeze copy: %v %s", err, out)
		}
		os.WriteFile(dst+".why", []byte(fmt.Sprint(args...)), 0o644)
	})
}

// closeRaceScenario (disk back end): a reader that lags more than its read-ahead behind sits inside the first of two log
// segments; the cache is reset; at the moment the reset has closed the readers of ONE segment (whichever it takes first) the
// reader's consumer drains it, so that the reader steps over the segment boundary while the reset is at work.  Whatever the
// order of the reset's pass, the reader has been invalidated: it hands over bytes of its own history at most, and ends.
func closeRaceScenario(tr *hx.Trace, id int, work string, r *hx.Rng) {
	base := filepath.Join(work, fmt.Sprintf("race%d", id))
	os.MkdirAll(base, 0o755)
	defer os.RemoveAll(base)
	const seg1 = 2_600_000
	ch := syncer.NewStoreChannel(syncer.StorerConf{InputId: "verif", Dir: base, MaxSize: 1 << 30, LogSize: 16 + seg1})
	defer ch.Close()
	label := "runA"
	if err := ch.SetRunId(label); err != nil {
		hx.Fatal("SetRunId: %v", err)
	}
	x := &run{r: r, tr: tr, disk: true, readers: map[int]*pump{}, wl: -1, wr: -1, label: label, ch: ch}
	tr.Emit(map[string]interface{}{"ev": "Reset", "id": id, "backend": "disk"})
	off := int64(100 + r.Intn(900))
	f := hx.NewFeedReader()
	w, err := ch.NewAofWritter(f, off)
	if err != nil {
		hx.Fatal("NewAofWritter: %v", err)
	}
	w.Start()
	x.wl, x.wr = off, off
	x.op(map[string]interface{}{"op": "aofwriter", "off": off})
	total := int64(seg1 + 150_000 + r.Intn(100_000))
	f.Feed(gen(total, func(i int64) byte { return Byte(x.hist, off+i) }))
	if !f.WaitDrained(nil, 60*time.Second) {
		hx.Fatal("close race %d: the writer did not take the data", id)
	}
	dl := time.Now().Add(60 * time.Second)
	for {
		if _, rr := ch.GetOffsetRange(label); rr >= off+total {
			break
		}
		if time.Now().After(dl) {
			hx.Fatal("close race %d: the cache did not reach offset %d", id, off+total)
		}
		time.Sleep(time.Millisecond)
	}
	x.wr = off + total
	x.op(map[string]interface{}{"op": "append", "n": total})
	rd, err := ch.NewReader(syncer.Offset{RunId: label, Offset: off})
	if err != nil || !rd.IsAof() {
		hx.Fatal("close race %d: NewReader: %v", id, err)
	}
	// the consumer reads by hand (no pump: the reader has to stay behind)
	wait := usync.NewWaitCloser(nil)
	rd.Start(wait)
	defer func() { rd.Close(); wait.Close(nil) }()
	x.obs(map[string]interface{}{"o": "open", "r": 1, "off": off, "aof": true, "lazy": false})
	time.Sleep(80 * time.Millisecond) // the reader fills its read-ahead and waits inside the first segment
	pos := off
	own := true
	var mu sync.Mutex
	got := int64(0)
	ended := false
	read := func(max int64, quiet time.Duration) {
		// read up to max bytes; give up after `quiet` without a byte
		type res struct {
			b   []byte
			err error
		}
		for got < max && !ended {
			c := make(chan res, 1)
			go func() {
				b := make([]byte, 1<<16)
				n, err := rd.IoReader().Read(b)
				c <- res{b[:n], err}
			}()
			select {
			case x := <-c:
				mu.Lock()
				for i, v := range x.b {
					if v != Byte(0, pos+int64(i)) {
						own = false
					}
				}
				pos += int64(len(x.b))
				got += int64(len(x.b))
				if x.err != nil {
					ended = true
				}
				mu.Unlock()
			case <-time.After(quiet):
				return // (the read goroutine stays blocked on a reader that hands over nothing: that is the observation)
			}
		}
	}
	fired := make(chan struct{})
	hook := func() {
		// the reset has closed the readers of one segment: now the consumer drains enough for the reader to cross the boundary
		read(1_600_000, 600*time.Millisecond)
		time.Sleep(40 * time.Millisecond)
		close(fired)
	}
	segClosedHook.Store(&hook)
	// the reset: a new snapshot is cached (everything cached before is void; the files go after the readers were closed)
	f.CloseWith(io.EOF)
	sl, ss := off+total-int64(r.Intn(1000)), int64(8)
	sf := hx.NewFeedReader()
	sw, err := ch.NewRdbWriter(sf, sl, ss)
	if err != nil {
		hx.Fatal("close race %d: NewRdbWriter: %v", id, err)
	}
	segClosedHook.Store(nil)
	select {
	case <-fired:
	default:
	}
	sw.Start()
	x.hist++
	x.op(map[string]interface{}{"op": "snap", "l": sl, "s": ss})
	sf.Feed(snapData(x.hist, sl, ss))
	sw.Wait(nil2())
	x.op(map[string]interface{}{"op": "snapappend", "n": ss})
	before := got
	_ = before
	read(1<<40, 1500*time.Millisecond)
	mu.Lock()
	x.obs(map[string]interface{}{"o": "deliver", "r": 1, "n": got, "want": 0, "match": own, "own": own, "ended": ended})
	if !ended {
		// nothing more and still open: asked once more (n = 0 is what the rule looks at)
		x.obs(map[string]interface{}{"o": "deliver", "r": 1, "n": 0, "want": 0, "match": true, "own": true, "ended": false})
	}
	mu.Unlock()
	f.CloseWith(io.EOF)
}

func main() {
	out := flag.String("out", "trace.ndjson", "")
	statsPath := flag.String("stats", "stats.json", "")
	seed := flag.Uint64("seed", 1, "")
	n := flag.Int("n", 20, "scenarios per back end")
	steps := flag.Int("steps", 40, "operations per scenario")
	shard := flag.Int("shard", 0, "")
	shards := flag.Int("shards", 1, "")
	crash := flag.String("crash", "", "write reopen observations of frozen disk images to this trace")
	every := flag.Int("freeze-every", 1, "freeze at every k-th file mutation")
	work := flag.String("work", "", "scratch directory")
	only := flag.Int("only", -1, "run only the scenario with this index (debugging)")
	flag.Parse()
	hx.QuietLogs()
	config.GetSyncerConfig().Channel = &config.ChannelConfig{VerifyCrc: true}
	tr, err := hx.NewTrace(*out)
	if err != nil {
		hx.Fatal("%v", err)
	}
	var ctr *hx.Trace
	if *crash != "" {
		if ctr, err = hx.NewTrace(*crash); err != nil {
			hx.Fatal("%v", err)
		}
		freezeEvery = *every
	}
	installFreeze()
	if *work == "" {
		hx.Fatal("-work is required")
	}
	id := *shard
	wd := hx.NewWatchdog(60 * time.Second)
	stats := map[string]interface{}{}
	nScen, nOps, nImg := 0, 0, 0
	var samples []interface{}
	backends := []string{"disk", "memory"}
	if *crash != "" {
		backends = []string{"disk"}
	}
	for _, be := range backends {
		for i := 0; i < *n; i++ {
			if i%*shards != *shard {
				continue
			}
			id += *shards
			if *only >= 0 && i != *only {
				continue
			}
			r := hx.NewRng(*seed*1009 + uint64(i)*2 + uint64(len(be)))
			if be == "disk" && *crash == "" && i/(*shards)%4 == 1 {
				wd.Kick(fmt.Sprintf("close race scenario %d", id))
				closeRaceScenario(tr, id, *work, r)
				nScen++
				continue
			}
			x := &run{r: r, tr: tr, disk: be == "disk", readers: map[int]*pump{}, wl: -1, wr: -1, label: "runA",
				logSize: int64(4 + r.Intn(8))}
			x.maxSize = x.logSize * int64(2+r.Intn(4))
			if r.Chance(20) {
				x.maxSize = 0 // unlimited
			}
			base := filepath.Join(*work, fmt.Sprintf("c%d", id))
			if x.disk {
				os.MkdirAll(base, 0o755)
				// the disk writer rotates when header(16) + data exceeds LogSize
				x.ch = syncer.NewStoreChannel(syncer.StorerConf{InputId: "verif", Dir: base, MaxSize: x.maxSize, LogSize: 16 + x.logSize})
				x.dir = filepath.Join(base, x.label)
			} else {
				x.ch = syncer.NewMemoryChannel(syncer.MemoryConf{InputId: "verif", MaxSize: x.maxSize * 3, LogSize: x.logSize})
			}
			if err := x.ch.SetRunId(x.label); err != nil {
				hx.Fatal("SetRunId: %v", err)
			}
			if ctr != nil && i%3 == 1 {
				// directed: a complete snapshot continued by several segments whose names cross a power of ten (file names
				// do not sort like offsets: "100.aof" < "95.aof"), then a reset - the per-file removal order is the walk's
				x.maxSize = 0
				fl := int64([]int{90, 990}[r.Intn(2)] + r.Intn(8))
				fs := int64(4 + r.Intn(12))
				x.todo = append(x.todo, func() { x.newSnapAt(fl, fs) })
				x.todo = append(x.todo, func() {
					for x.snap != nil && !x.snap.done {
						x.stepSnap(false)
					}
				})
				x.todo = append(x.todo, func() { x.newAofWriter() })
				for k := 0; k < 4+r.Intn(3); k++ {
					x.todo = append(x.todo, func() {
						n := x.logSize + int64(r.Intn(3))
						x.aofF.Feed(gen(n, func(i int64) byte { return Byte(x.hist, x.wr+i) }))
						x.drain(x.aofF)
						x.wr += n
						x.op(map[string]interface{}{"op": "append", "n": n})
					})
				}
				x.todo = append(x.todo, func() { x.newSnap() })
			}
			tr.Emit(map[string]interface{}{"ev": "Reset", "id": id, "backend": be})
			if ctr != nil {
				freezeMu.Lock()
				freezeDir = filepath.Join(base, "..", fmt.Sprintf("frozen%d", id))
				os.MkdirAll(freezeDir, 0o755)
				freezeSrc, freezeN = x.dir, 0
				freezeMu.Unlock()
			}
			for s := 0; s < *steps; s++ {
				wd.Kick(fmt.Sprintf("%s scenario %d step %d", be, id, s))
				x.step()
				if ctr == nil {
					x.observe()
				}
			}
			x.readAll()
			for _, p := range x.readers {
				p.close()
			}
			if x.aofF != nil {
				x.aofF.CloseWith(io.EOF)
			}
			if x.snapF != nil {
				x.snapF.CloseWith(io.EOF)
			}
			time.Sleep(2 * time.Millisecond)
			if ctr != nil {
				freezeMu.Lock()
				freezeSrc = ""
				fd := freezeDir
				freezeMu.Unlock()
				nImg += reopenAll(ctr, fd, x, id)
				os.RemoveAll(fd)
			}
			x.ch.Close()
			nScen++
			nOps += x.nOps
			if len(samples) < 2 {
				samples = append(samples, map[string]interface{}{"backend": be, "logSize": x.logSize, "maxSize": x.maxSize, "ops": strings.Join(x.sample, "; ")})
			}
			os.RemoveAll(base)
		}
	}
	if err := tr.Close(); err != nil {
		hx.Fatal("%v", err)
	}
	if ctr != nil {
		if err := ctr.Close(); err != nil {
			hx.Fatal("%v", err)
		}
	}
	stats["scenarios"], stats["ops"], stats["images"], stats["samples"] = nScen, nOps, nImg, samples
	hx.WriteJSON(*statsPath, stats)
	fmt.Fprintf(os.Stderr, "cachedrv: %d scenarios, %d ops, %d frozen images\n", nScen, nOps, nImg)
}
