// e2edrv runs the whole per-shard pipeline for real - RedisInput.Run (PSYNC
// client, run loop with its back-off), the real cache (disk or memory) and the
// real RedisOutput - between a fake PSYNC master and the fake target, while the
// master's stream grows and the source side misbehaves: connection drops,
// fail-over to a new replication id (previous id + switch offset exposed),
// backlog loss (forces a full resync with a fresh snapshot), and target
// crashes.  The PSYNC requests the master saw and the final lists of the target
// are recorded for spec/trace/TraceE2E.tla (end-to-end part of C06 / C01).
package main

import (
	"bufio"
	"flag"
	"fmt"
	"io"
	"net"
	"os"
	"path/filepath"
	"sort"
	"strconv"
	"strings"
	"sync"
	"sync/atomic"
	"time"

	"github.com/mgtv-tech/redis-GunYu/config"
	"github.com/mgtv-tech/redis-GunYu/syncer"

	"verifh/fakeredis"
	"verifh/hx"
	"verifh/rdbgen"
)

const cpName = "redis-gunyu-checkpoint-e2e"

var idOf = map[string]string{"A": strings.Repeat("a", 40), "B": strings.Repeat("b", 40), "C": strings.Repeat("c", 40)}

func letter(id string) string {
	for k, v := range idOf {
		if v == id {
			return k
		}
	}
	if id == "?" {
		return "?"
	}
	return "x"
}

type psyncObs struct {
	Id    string `json:"id"`
	Off   int64  `json:"off"`
	Reply string `json:"reply"`
	M     int64  `json:"m"`
}

type source struct {
	mu       sync.Mutex
	cond     *sync.Cond
	ln       net.Listener
	id1, id2 string
	second   int64
	base     int64   // offset of the byte before the first stream byte
	stream   []byte  // bytes base+1 ...
	ends     []int64 // absolute end offset of every stream command
	keyOf    []int
	names    []string           // element each stream command appends ("v<i>" + a letter of the history that wrote it)
	endsOf   map[string][]int64 // command ends of a history that has been superseded (offsets under that id)
	switchOf map[string]int64   // offset up to which a superseded id and its successor share the stream
	events   []map[string]interface{}
	bl       int64 // first offset still in the backlog
	keys     [][]byte
	initial  [][][]byte // initial list of each key
	dropAt   int64      // close the replication connection once this offset has been sent (0 = no)
	conns    []net.Conn
	obs      []psyncObs
	closed   bool
}

func (s *source) M() int64 { return s.base + int64(len(s.stream)) }

// stamp orders the events of the fake master and of the fake target in one sequence (taken under the lock that
// protects the state the event describes)
var stamp atomic.Int64

// ev records an event of the master's life; the caller holds s.mu
func (s *source) ev(kind string, f map[string]interface{}) {
	f["ev"], f["st"] = kind, stamp.Add(1)
	s.events = append(s.events, f)
}

// cmdsAt: how many commands of the history `id` end at or before byte offset off
func (s *source) cmdsAt(id string, off int64) int {
	ends := s.ends
	if e, ok := s.endsOf[id]; ok && len(e) > 0 && id != s.id1 && off > s.switchOf[id] && off <= e[len(e)-1] {
		// an offset of what the old master wrote beyond the switch; everything else is counted on the current stream
		// (an old id can label offsets of the new stream: syncMeta keeps the id INFO reported)
		ends = e
	}
	n := 0
	for _, e := range ends {
		if e <= off {
			n++
		}
	}
	return n
}

func suffixOf(id string) string { return map[string]string{"A": "", "B": "b", "C": "c"}[id] }

// dataset at offset m as an RDB
func (s *source) snapshot(m int64) []byte {
	var ents []*rdbgen.Entry
	for ki, k := range s.keys {
		l := append([][]byte{}, s.initial[ki]...)
		for ci, e := range s.ends {
			if e <= m && s.keyOf[ci] == ki {
				l = append(l, []byte(s.names[ci]))
			}
		}
		if len(l) == 0 {
			continue
		}
		ents = append(ents, &rdbgen.Entry{Key: k, Val: rdbgen.Val{Type: "list", List: l}, Enc: "quicklist"})
	}
	data, err := rdbgen.Build(ents, 9, true)
	if err != nil {
		hx.Fatal("rdbgen: %v", err)
	}
	return data
}

func (s *source) serve(c net.Conn) {
	defer c.Close()
	r := bufio.NewReader(c)
	w := bufio.NewWriter(c)
	seen1, seen2 := "?", "none" // the ids this connection was told by INFO
	for {
		line, err := r.ReadString('\n')
		if err != nil {
			return
		}
		if !strings.HasPrefix(line, "*") {
			continue
		}
		n, _ := strconv.Atoi(strings.TrimSpace(line[1:]))
		var args []string
		for i := 0; i < n; i++ {
			l, err := r.ReadString('\n')
			if err != nil {
				return
			}
			sz, _ := strconv.Atoi(strings.TrimSpace(l[1:]))
			buf := make([]byte, sz+2)
			if _, err := io.ReadFull(r, buf); err != nil {
				return
			}
			args = append(args, string(buf[:sz]))
		}
		if len(args) == 0 {
			continue
		}
		switch strings.ToLower(args[0]) {
		case "ping":
			w.WriteString("+PONG\r\n")
		case "auth", "select":
			w.WriteString("+OK\r\n")
		case "replconf":
			if len(args) > 1 && strings.EqualFold(args[1], "ack") {
				continue // no reply to REPLCONF ACK
			}
			w.WriteString("+OK\r\n")
		case "info":
			s.mu.Lock()
			id2, sec := strings.Repeat("0", 40), int64(-1)
			if s.id2 != "" {
				id2, sec = idOf[s.id2], s.second
			}
			seen1, seen2 = s.id1, "none"
			if s.id2 != "" {
				seen2 = s.id2
			}
			body := fmt.Sprintf("# Server\r\nredis_version:7.0.0\r\n# Replication\r\nrole:master\r\nconnected_slaves:0\r\nmaster_replid:%s\r\nmaster_replid2:%s\r\nmaster_repl_offset:%d\r\nsecond_repl_offset:%d\r\nrepl_backlog_first_byte_offset:%d\r\n",
				idOf[s.id1], id2, s.M(), sec, s.bl)
			s.mu.Unlock()
			fmt.Fprintf(w, "$%d\r\n%s\r\n", len(body), body)
		case "psync":
			reqID := args[1]
			off, _ := strconv.ParseInt(args[2], 10, 64)
			s.mu.Lock()
			full := true
			if reqID == idOf[s.id1] || (s.id2 != "" && reqID == idOf[s.id2] && off <= s.second) {
				if off >= s.bl && off <= s.M()+1 {
					full = false
				}
			}
			o := psyncObs{Id: letter(reqID), Off: off, M: s.M()}
			var next int64 // next offset to send
			if full {
				o.Reply = "full"
				m := s.M()
				snap := s.snapshot(m)
				fmt.Fprintf(w, "+FULLRESYNC %s %d\r\n", idOf[s.id1], m)
				w.WriteString("\n")
				fmt.Fprintf(w, "$%d\r\n", len(snap))
				w.Write(snap)
				next = m + 1
			} else {
				o.Reply = "continue"
				fmt.Fprintf(w, "+CONTINUE %s\r\n", idOf[s.id1])
				next = off
			}
			s.obs = append(s.obs, o)
			known := -1 // commands the request says it has (-1: "nothing", an offset before the stream)
			if off-1 >= s.base {
				known = s.cmdsAt(o.Id, off-1)
			}
			s.ev("Psync", map[string]interface{}{"rid": o.Id, "off": known, "full": full, "m": len(s.ends), "seen1": seen1, "seen2": seen2})
			s.conns = append(s.conns, c)
			s.mu.Unlock()
			if w.Flush() != nil {
				return
			}
			go io.Copy(io.Discard, r) // REPLCONF ACKs
			// stream what exists and what is appended later, until dropped
			for {
				s.mu.Lock()
				for !s.closed && next > s.M() && !(s.dropAt > 0 && next > s.dropAt) {
					s.cond.Wait()
				}
				if s.closed {
					s.mu.Unlock()
					return
				}
				if s.dropAt > 0 && next > s.dropAt {
					s.dropAt = 0
					s.mu.Unlock()
					return // connection dropped by the master side
				}
				to := s.M()
				if s.dropAt > 0 && to > s.dropAt {
					to = s.dropAt
				}
				chunk := append([]byte{}, s.stream[next-s.base-1:to-s.base]...)
				s.mu.Unlock()
				if _, err := c.Write(chunk); err != nil {
					return
				}
				next = to + 1
			}
		default:
			w.WriteString("-ERR unknown command\r\n")
		}
		if w.Flush() != nil {
			return
		}
	}
}

func (s *source) appendCmd(key int) {
	s.mu.Lock()
	idx := len(s.ends) + 1
	name := fmt.Sprintf("v%d%s", idx, suffixOf(s.id1))
	b := hx.EncodeCmd([]byte("RPUSH"), s.keys[key], []byte(name))
	if len(s.ends) == 0 || idx%5 == 0 {
		// a master states the database first and sends keep-alives
		pre := hx.EncodeCmd([]byte("SELECT"), []byte("0"))
		if idx%5 == 0 {
			pre = hx.EncodeCmd([]byte("PING"))
		}
		s.stream = append(s.stream, pre...)
	}
	s.stream = append(s.stream, b...)
	s.ends = append(s.ends, s.M())
	s.keyOf = append(s.keyOf, key)
	s.names = append(s.names, name)
	s.ev("Write", map[string]interface{}{"i": idx, "k": key + 1, "w": s.id1})
	s.cond.Broadcast()
	s.mu.Unlock()
}

// dropNow closes every replication connection
func (s *source) dropNow() {
	s.mu.Lock()
	for _, c := range s.conns {
		c.Close()
	}
	s.conns = nil
	s.cond.Broadcast()
	s.mu.Unlock()
}

type scenario struct {
	id     int
	txn    bool
	pipe   bool // pipelined sending (replay mode "pipeline"): batches are dispatched before the replies of earlier ones are read
	disk   bool
	nkeys  int
	ncmds  int
	faults []string
}

// elemOf projects a list element onto the vocabulary of Pipeline.tla: stream command n written under history w,
// or (n < 0) the -n-th element the key held before the stream began
func elemOf(e string) map[string]interface{} {
	switch {
	case strings.HasPrefix(e, "v"):
		w := "A"
		if strings.HasSuffix(e, "b") {
			w = "B"
		} else if strings.HasSuffix(e, "c") {
			w = "C"
		}
		if n, err := strconv.Atoi(strings.TrimRight(e[1:], "bc")); err == nil && n > 0 {
			return map[string]interface{}{"n": n, "w": w}
		}
	case strings.HasPrefix(e, "s") && strings.Contains(e, "."):
		if j, err := strconv.Atoi(e[strings.IndexByte(e, '.')+1:]); err == nil && j > 0 {
			return map[string]interface{}{"n": -j, "w": "init"}
		}
	}
	return map[string]interface{}{"n": 0, "w": "?"}
}

// emitEvents writes the run as the event sequence trace/TracePipeline.tla replays on Pipeline.tla: the master's
// events and the commands the target executed, in the order of their stamps (deterministic projection only)
func emitEvents(tr2 *hx.Trace, sc *scenario, src *source, tgt *fakeredis.Server, restored map[string][][][]byte) {
	keyIdx := map[string]int{}
	for i, k := range src.keys {
		keyIdx[string(k)] = i + 1
	}
	tgt.Lock()
	log := append([]fakeredis.Entry{}, tgt.Log...)
	tgt.Unlock()
	src.mu.Lock()
	defer src.mu.Unlock()
	evs := append([]map[string]interface{}{}, src.events...)
	ops := func(e fakeredis.Entry) []map[string]interface{} {
		if e.Err != "" || len(e.Args) == 0 {
			return nil
		}
		key := string(e.Args[0])
		var out []map[string]interface{}
		switch e.Name {
		case "rpush":
			if ki, ok := keyIdx[key]; ok {
				for _, a := range e.Args[1:] {
					o := elemOf(string(a))
					o["t"], o["k"] = "push", ki
					out = append(out, o)
				}
			}
		case "del", "unlink":
			for _, a := range e.Args {
				if ki, ok := keyIdx[string(a)]; ok {
					out = append(out, map[string]interface{}{"t": "del", "k": ki})
				}
			}
		case "restore":
			if ki, ok := keyIdx[key]; ok {
				els := []interface{}{}
				if q := restored[key]; len(q) > 0 {
					for _, a := range q[0] {
						els = append(els, elemOf(string(a)))
					}
					restored[key] = q[1:]
				}
				out = append(out, map[string]interface{}{"t": "restore", "k": ki, "els": els})
			}
		case "hset":
			if key == cpName {
				for i := 1; i+1 < len(e.Args); i += 2 {
					f := string(e.Args[i])
					if strings.HasSuffix(f, "_offset") {
						rid := letter(strings.TrimSuffix(f, "_offset"))
						off, _ := strconv.ParseInt(string(e.Args[i+1]), 10, 64)
						out = append(out, map[string]interface{}{"t": "cp", "rid": rid, "off": src.cmdsAt(rid, off), "bytes": off})
					}
				}
			}
		}
		return out
	}
	for i := 0; i < len(log); i++ {
		e := log[i]
		if e.Blk > 0 {
			// everything one EXEC applied is one event
			all := []interface{}{}
			j := i
			for ; j < len(log) && log[j].Blk == e.Blk; j++ {
				for _, o := range ops(log[j]) {
					all = append(all, o)
				}
			}
			i = j - 1
			if len(all) > 0 {
				evs = append(evs, map[string]interface{}{"ev": "Exec", "st": e.Stamp, "ops": all})
			}
			continue
		}
		for _, o := range ops(e) {
			o["ev"], o["st"] = map[string]string{"push": "Push", "del": "Del", "restore": "Restore", "cp": "Cp"}[o["t"].(string)], e.Stamp
			evs = append(evs, o)
		}
	}
	sort.SliceStable(evs, func(a, b int) bool { return evs[a]["st"].(int64) < evs[b]["st"].(int64) })
	tr2.Emit(map[string]interface{}{"ev": "PReset", "id": sc.id, "txn": sc.txn, "disk": sc.disk, "nkeys": sc.nkeys, "faults": sc.faults})
	for _, e := range evs {
		tr2.Emit(e)
	}
}

func runScenario(sc *scenario, tr *hx.Trace, tr2 *hx.Trace, work string, r *hx.Rng) {
	src := &source{id1: "A", base: int64(1000 + r.Intn(9000))}
	src.cond = sync.NewCond(&src.mu)
	src.bl = src.base + 1
	for k := 0; k < sc.nkeys; k++ {
		src.keys = append(src.keys, []byte(fmt.Sprintf("k%d", k)))
		var init [][]byte
		for j := 0; j < r.Intn(3); j++ {
			init = append(init, []byte(fmt.Sprintf("s%d.%d", k, j+1)))
		}
		src.initial = append(src.initial, init)
	}
	ln, err := hx.Listen()
	if err != nil {
		hx.Fatal("%v", err)
	}
	src.ln = ln
	go func() {
		for {
			c, err := ln.Accept()
			if err != nil {
				return
			}
			go src.serve(c)
		}
	}()
	defer func() {
		src.mu.Lock()
		src.closed = true
		src.cond.Broadcast()
		src.mu.Unlock()
		ln.Close()
		src.dropNow()
	}()

	tgt := fakeredis.New()
	tgt.RealClock = true
	if _, err := tgt.Start(); err != nil {
		hx.Fatal("%v", err)
	}
	defer tgt.Close()
	var decMu sync.Mutex
	restored := map[string][][][]byte{} // per key: the lists the RESTOREs produced, in order
	tgt.StampFn = func() int64 { return stamp.Add(1) }
	tgt.RestoreDecoder = func(key []byte, payload []byte) (*fakeredis.Value, string) {
		// the payload of a list written by rdbgen: the harness re-derives the value from the source model,
		// the snapshot offset being the newest full resync the master answered
		decMu.Lock()
		defer decMu.Unlock()
		src.mu.Lock()
		defer src.mu.Unlock()
		m := int64(-1)
		for _, o := range src.obs {
			if o.Reply == "full" {
				m = o.M
			}
		}
		for ki, k := range src.keys {
			if string(k) != string(key) {
				continue
			}
			l := append([][]byte{}, src.initial[ki]...)
			for ci, e := range src.ends {
				if e <= m && src.keyOf[ci] == ki {
					l = append(l, []byte(src.names[ci]))
				}
			}
			restored[string(key)] = append(restored[string(key)], l)
			return &fakeredis.Value{Type: "list", List: l}, ""
		}
		return nil, "Bad data format"
	}

	dir := filepath.Join(work, fmt.Sprintf("e%d", sc.id))
	defer os.RemoveAll(dir)
	var ch syncer.Channel
	newChannel := func() {
		if sc.disk {
			ch = syncer.NewStoreChannel(syncer.StorerConf{InputId: "verif", Dir: dir, MaxSize: 1 << 30, LogSize: 16 + 4096})
		} else {
			ch = syncer.NewMemoryChannel(syncer.MemoryConf{InputId: "verif", MaxSize: 1 << 30, LogSize: 4096})
		}
	}
	newChannel()
	// replies to the requests of a snapshot replay can be withheld (a full sync that takes its time)
	var holdSnap atomic.Bool
	var heldN atomic.Int64
	release := make(chan struct{})
	tgt.Hold = func(connID int, name string, args [][]byte) <-chan struct{} {
		if holdSnap.Load() && (name == "del" || name == "rpush" || name == "restore") {
			heldN.Add(1)
			return release
		}
		return nil
	}
	rcfg := config.RedisConfig{Addresses: []string{tgt.Addr()}, Type: config.RedisTypeStandalone, Otype: config.RedisTypeStandalone, Version: "7.0.0"}
	restore, par := r.Bool(), 1+r.Intn(2)
	var runMu sync.Mutex
	var curIn *syncer.RedisInput
	var curOut *syncer.RedisOutput
	stopAll := false
	procRestart := false
	restarts := 0
	newRun := func() {
		out := syncer.NewRedisOutput(syncer.RedisOutputConfig{
			InputName: "verif", CheckpointName: cpName, CanTransaction: sc.txn, Redis: rcfg, EnableResumeFromBreakPoint: true, TargetDb: -1,
			BatchCmdCount: 3, BatchTicker: 5 * time.Millisecond, BatchBufferSize: 1 << 20, KeepaliveTicker: 50 * time.Millisecond,
			UpdateCheckpointTicker: 20 * time.Millisecond, ReplayRdbParallel: par, ReplayRdbEnableRestore: restore, KeyExists: "replace",
			Stats:      config.OutputStats{DisableLog: true},
			ReplayMode: map[bool]config.ReplayMode{false: config.ReplayModeSync, true: config.ReplayModePipeline}[sc.pipe], ReplayPipeline: sc.pipe,
		})
		in := syncer.NewRedisInput(config.RedisConfig{Addresses: []string{ln.Addr().String()}, Type: config.RedisTypeStandalone, Otype: config.RedisTypeStandalone})
		in.SetOutput(out)
		in.SetChannel(ch)
		curIn, curOut = in, out
	}
	newRun()
	done := make(chan error, 1)
	// the command layer of the tool restarts a syncer whose run ended with an error; so does the harness
	go func() {
		for {
			runMu.Lock()
			in := curIn
			runMu.Unlock()
			err := in.Run()
			runMu.Lock()
			if procRestart {
				// the process is restarted: nothing survives but the target and what the cache keeps on disk
				procRestart = false
				curOut.Close()
				ch.Close()
				newChannel()
				newRun()
				runMu.Unlock()
				continue
			}
			if stopAll || err == nil || restarts >= 8 {
				runMu.Unlock()
				done <- err
				return
			}
			restarts++
			curOut.Close()
			newRun()
			runMu.Unlock()
			time.Sleep(50 * time.Millisecond)
		}
	}()

	// wait for the target to hold every element of every list
	finalLists := func() [][]string {
		outl := make([][]string, sc.nkeys)
		tgt.Lock()
		for ki, k := range src.keys {
			outl[ki] = []string{}
			if v := tgt.DBs[0][string(k)]; v != nil && v.Type == "list" {
				for _, e := range v.List {
					outl[ki] = append(outl[ki], string(e))
				}
			}
		}
		tgt.Unlock()
		return outl
	}
	complete := func() bool {
		ls := finalLists()
		src.mu.Lock()
		defer src.mu.Unlock()
		for ki := range src.keys {
			seen := map[string]bool{}
			for _, e := range ls[ki] {
				seen[e] = true
			}
			for _, e := range src.initial[ki] {
				if !seen[string(e)] {
					return false
				}
			}
			for ci, k := range src.keyOf {
				if k == ki && !seen[src.names[ci]] {
					return false
				}
			}
		}
		return true
	}
	// the master's life: commands, interleaved with the scenario's faults
	perPhase := sc.ncmds / (len(sc.faults) + 1)
	if perPhase < 1 {
		perPhase = 1
	}
	sent := 0
	emitCmds := func(n int) {
		for i := 0; i < n && sent < sc.ncmds; i++ {
			src.appendCmd(r.Intn(sc.nkeys))
			sent++
			time.Sleep(time.Duration(r.Intn(1500)) * time.Microsecond)
		}
	}
	nextID := "B"
	for _, f := range sc.faults {
		emitCmds(perPhase)
		switch f {
		case "drop":
			src.dropNow()
		case "dropmid":
			// the connection dies after a prefix of what is written next (possibly inside a command)
			src.mu.Lock()
			src.dropAt = src.M() + int64(1+r.Intn(40))
			src.mu.Unlock()
		case "failover", "failoverloss":
			// a replica is promoted: new id, the previous one stays valid up to the switch offset. "loss": the replica
			// had not received the last commands; what the old master sent beyond it is not part of the new history
			src.mu.Lock()
			keep := len(src.ends)
			if f == "failoverloss" && keep > 0 {
				keep -= 1 + r.Intn(2)
				if keep < 0 {
					keep = 0
				}
			}
			if src.endsOf == nil {
				src.endsOf = map[string][]int64{}
			}
			src.endsOf[src.id1] = append([]int64{}, src.ends...)
			if keep < len(src.ends) {
				cut := src.base
				if keep > 0 {
					cut = src.ends[keep-1]
				}
				src.stream = src.stream[:cut-src.base]
				src.ends, src.keyOf, src.names = src.ends[:keep], src.keyOf[:keep], src.names[:keep]
			}
			if src.switchOf == nil {
				src.switchOf = map[string]int64{}
			}
			src.switchOf[src.id1] = src.M()
			src.id2, src.second, src.id1 = src.id1, src.M()+1, nextID
			src.ev("Failover", map[string]interface{}{"id": nextID, "k": keep})
			src.mu.Unlock()
			nextID = "C"
			src.dropNow()
		case "restartinfull":
			// the promoted replica lacks the newest commands, the target (transactional mode) already has them: the
			// tool is sent into a full sync; its process is restarted while the snapshot is being replayed
			waitUntil := func(f func() bool, d time.Duration) bool {
				dl := time.Now().Add(d)
				for time.Now().Before(dl) {
					if f() {
						return true
					}
					time.Sleep(time.Millisecond)
				}
				return false
			}
			waitUntil(complete, 5*time.Second) // the target is as far as the old master
			src.mu.Lock()
			keep := len(src.ends) - 1 - r.Intn(2)
			if keep < 0 {
				keep = 0
			}
			if src.endsOf == nil {
				src.endsOf = map[string][]int64{}
			}
			src.endsOf[src.id1] = append([]int64{}, src.ends...)
			if keep < len(src.ends) {
				cut := src.base
				if keep > 0 {
					cut = src.ends[keep-1]
				}
				src.stream = src.stream[:cut-src.base]
				src.ends, src.keyOf, src.names = src.ends[:keep], src.keyOf[:keep], src.names[:keep]
			}
			if src.switchOf == nil {
				src.switchOf = map[string]int64{}
			}
			src.switchOf[src.id1] = src.M()
			src.id2, src.second, src.id1 = src.id1, src.M()+1, nextID
			src.ev("Failover", map[string]interface{}{"id": nextID, "k": keep})
			nFull := 0
			for _, o := range src.obs {
				if o.Reply == "full" {
					nFull++
				}
			}
			src.mu.Unlock()
			nextID = "C"
			holdSnap.Store(true)
			heldN.Store(0)
			src.dropNow()
			for i := 0; i < 4; i++ { // the new master is written to: its stream passes the offset the target had
				src.appendCmd(r.Intn(sc.nkeys))
				sent++
			}
			full := waitUntil(func() bool {
				src.mu.Lock()
				defer src.mu.Unlock()
				n := 0
				for _, o := range src.obs {
					if o.Reply == "full" {
						n++
					}
				}
				return n > nFull
			}, 8*time.Second)
			if full && waitUntil(func() bool { return heldN.Load() > 0 }, 5*time.Second) {
				runMu.Lock()
				procRestart = true
				in := curIn
				runMu.Unlock()
				in.Stop()
				stamp.Add(1)
				src.mu.Lock()
				src.ev("ProcRestart", map[string]interface{}{"cacheLost": !sc.disk})
				src.mu.Unlock()
			}
			holdSnap.Store(false)
			tgt.Crash() // what the dead process still had in flight does not reach the target
			close(release)
			release = make(chan struct{})
			time.Sleep(2 * time.Millisecond)
			tgt.Revive()
		case "losebacklog":
			// the backlog no longer reaches back: the next connection gets a full resync
			src.mu.Lock()
			src.bl = src.M() + 2
			src.ev("LoseBacklog", map[string]interface{}{})
			src.mu.Unlock()
			emitCmds(1)
			src.dropNow()
		case "targetcrash":
			if sc.pipe || r.Bool() {
				// the target dies with requests on their way to it: what the tool has written to the socket and the target has not
				// received is lost (a pipelined sender has dispatched those batches already)
				var gateOn atomic.Bool
				gateOn.Store(true)
				gone := make(chan struct{})
				var heldData atomic.Int64
				tgt.Gate = func(connID int, name string, args [][]byte) <-chan struct{} {
					if gateOn.Load() && (name == "rpush" || name == "multi" || name == "hset") {
						if name == "rpush" || name == "multi" {
							heldData.Add(1)
						}
						return gone
					}
					return nil
				}
				emitCmds(2)
				// the batch ticker is 5 ms: wait until a data command of the next batch is on its way to the target (or nothing comes)
				for dl := time.Now().Add(400 * time.Millisecond); heldData.Load() == 0 && time.Now().Before(dl); {
					time.Sleep(200 * time.Microsecond)
				}
				time.Sleep(2 * time.Millisecond)
				tgt.Crash()
				gateOn.Store(false)
				close(gone)
				time.Sleep(2 * time.Millisecond)
				tgt.Revive()
			} else {
				tgt.Crash()
				time.Sleep(2 * time.Millisecond)
				tgt.Revive()
			}
		}
	}
	emitCmds(sc.ncmds)

	deadline := time.Now().Add(40 * time.Second)
	ended := false
	var runErr error
	for time.Now().Before(deadline) && !complete() {
		select {
		case runErr = <-done:
			ended = true
		default:
		}
		if ended {
			break
		}
		time.Sleep(2 * time.Millisecond)
	}
	ok := complete()
	time.Sleep(60 * time.Millisecond) // let ticker-driven checkpoints and late duplicates land
	if !ended {
		runMu.Lock()
		stopAll = true
		in := curIn
		runMu.Unlock()
		in.Stop()
		select {
		case runErr = <-done:
		case <-time.After(30 * time.Second):
			hx.Fatal("scenario %d: RedisInput.Run did not return after Stop", sc.id)
		}
	}
	runMu.Lock()
	curOut.Close()
	runMu.Unlock()
	ch.Close()
	lists := finalLists()
	// project: initial element j of key k -> -j, stream element v<i> -> ordinal of command i among the commands of its key
	ord := map[int]int{}
	perKey := map[int]int{}
	for ci, k := range src.keyOf {
		perKey[k]++
		ord[ci+1] = perKey[k]
	}
	proj := make([][]int, sc.nkeys)
	for ki := range lists {
		proj[ki] = []int{}
		for _, e := range lists[ki] {
			switch {
			case strings.HasPrefix(e, "s"):
				j, _ := strconv.Atoi(e[strings.IndexByte(e, '.')+1:])
				proj[ki] = append(proj[ki], -j)
			case strings.HasPrefix(e, "v"):
				i, _ := strconv.Atoi(strings.TrimRight(e[1:], "bc"))
				if i >= 1 && i <= len(src.keyOf) && src.keyOf[i-1] == ki && src.names[i-1] == e {
					proj[ki] = append(proj[ki], ord[i])
				} else {
					proj[ki] = append(proj[ki], 1000000+i) // an element of another key / unknown
				}
			default:
				proj[ki] = append(proj[ki], 2000000)
			}
		}
	}
	ninit := make([]int, sc.nkeys)
	total := make([]int, sc.nkeys)
	for ki := range src.keys {
		ninit[ki] = len(src.initial[ki])
		total[ki] = perKey[ki]
	}
	src.mu.Lock()
	obs := append([]psyncObs{}, src.obs...)
	src.mu.Unlock()
	if obs == nil {
		obs = []psyncObs{}
	}
	es := ""
	if runErr != nil {
		es = runErr.Error()
		if len(es) > 200 {
			es = es[:200]
		}
	}
	if tr2 != nil {
		emitEvents(tr2, sc, src, tgt, restored)
	}
	tr.Emit(map[string]interface{}{"ev": "E2E", "id": sc.id, "pipe": sc.pipe, "txn": sc.txn, "disk": sc.disk, "faults": sc.faults, "ncmds": len(src.keyOf),
		"initial": ninit, "total": total, "lists": proj, "complete": ok, "ended": ended, "restarts": restarts, "err": es, "psync": obs, "base": src.base})
}

func main() {
	outp := flag.String("out", "trace.ndjson", "")
	statsPath := flag.String("stats", "stats.json", "")
	seed := flag.Uint64("seed", 1, "")
	n := flag.Int("n", 16, "scenarios")
	shard := flag.Int("shard", 0, "")
	shards := flag.Int("shards", 1, "")
	work := flag.String("work", os.TempDir(), "")
	only := flag.Int("only", 0, "run only the scenario with this id")
	pipeCrash := flag.Int("pipecrash", 0, "additional directed scenarios: pipelined sending, the target dies twice with batches in flight")
	eventsPath := flag.String("events", "", "write the event-level trace of every run (for trace/TracePipeline.tla) to this file")
	flag.Parse()
	hx.QuietLogs()
	tr, err := hx.NewTrace(*outp)
	if err != nil {
		hx.Fatal("%v", err)
	}
	var tr2 *hx.Trace
	if *eventsPath != "" {
		if tr2, err = hx.NewTrace(*eventsPath); err != nil {
			hx.Fatal("%v", err)
		}
	}
	base, err := os.MkdirTemp(*work, "e2e")
	if err != nil {
		hx.Fatal("%v", err)
	}
	defer os.RemoveAll(base)
	// the package-level configuration (rdb limiter, listen port, crc verification) comes from a generated file
	yaml := fmt.Sprintf("server:\n  listen: 127.0.0.1:18001\n  listenPeer: 127.0.0.1:18001\ninput:\n  redis:\n    addresses: [127.0.0.1:1]\n    type: standalone\n"+
		"channel:\n  storer:\n    dirPath: %s\n    maxSize: 1073741800\n    logSize: 10971520\noutput:\n  replay:\n    resumeFromBreakPoint: true\n    keyExists: replace\n    targetDb: -1\n"+
		"  redis:\n    addresses: [127.0.0.1:2]\n    type: standalone\nlog:\n  level: error\n  handler:\n    stdout: false\ncluster:\n  groupName: verif\n  leaseTimeout: 9s\n", filepath.Join(base, "cfgdir"))
	cfgPath := filepath.Join(base, "cfg.yaml")
	if err := os.WriteFile(cfgPath, []byte(yaml), 0o644); err != nil {
		hx.Fatal("%v", err)
	}
	if err := config.InitSyncerConfig(cfgPath); err != nil {
		hx.Fatal("config: %v", err)
	}
	config.GetSyncerConfig().Channel.VerifyCrc = true
	hx.QuietLogs()
	wd := hx.NewWatchdog(150 * time.Second)
	nScen := 0
	kinds := map[string]int{}
	pool := []string{"drop", "dropmid", "failover", "losebacklog", "targetcrash"}
	for s := 0; s < *n+*pipeCrash; s++ {
		if s%*shards != *shard || (*only > 0 && s+1 != *only) {
			continue
		}
		r := hx.NewRng(*seed*32452843 + uint64(s))
		sc := &scenario{id: s + 1, txn: r.Bool(), disk: r.Bool(), nkeys: 1 + r.Intn(3), ncmds: 6 + r.Intn(18)}
		sc.pipe = r.Chance(35)
		if s >= *n {
			// directed: pipelined sending, the target dying twice with batches on their way
			sc.pipe, sc.txn = true, s%4 != 3
		}
		for f := 0; f < r.Intn(3); f++ {
			x := pool[r.Intn(len(pool))]
			if x == "failover" && sc.txn && r.Bool() {
				// the promoted replica lacks the newest commands. Transactional mode only: a ticker-driven target may
				// already hold, beyond its stored position, commands of the old master that the new history does not have
				x = "failoverloss"
				if r.Bool() {
					x = "restartinfull"
				}
			}
			sc.faults = append(sc.faults, x)
		}
		if sc.pipe && (s%2 == 0 || s >= *n) {
			// pipelined sending is about batches in flight: the target dies with some on their way, in the middle of the stream
			sc.faults = []string{"targetcrash", "targetcrash"}
		}
		if sc.faults == nil {
			sc.faults = []string{}
		}
		wd.Kick(fmt.Sprintf("scenario %d %v", sc.id, sc.faults))
		runScenario(sc, tr, tr2, base, r)
		nScen++
		for _, f := range sc.faults {
			kinds[f]++
		}
	}
	if err := tr.Close(); err != nil {
		hx.Fatal("%v", err)
	}
	if tr2 != nil {
		if err := tr2.Close(); err != nil {
			hx.Fatal("%v", err)
		}
	}
	hx.WriteJSON(*statsPath, map[string]interface{}{"scenarios": nScen, "faults": kinds})
	fmt.Fprintf(os.Stderr, "e2edrv: %d scenarios %v\n", nScen, kinds)
}
