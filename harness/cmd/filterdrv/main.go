// filterdrv records the decisions of the real RedisKeyFilter (and of the real
// replication-stream parser, end to end) for the slot-range configurations
// enumerated by TLC (spec/FilterCases.tla) and for seeded random
// configurations (prefix lists with arbitrary bytes, DB and command
// blacklists, multi-key commands).  spec/trace/TraceFilter.tla judges them.
package main

import (
	"bufio"
	"bytes"
	"context"
	"encoding/json"
	"flag"
	"fmt"
	"os"
	"strconv"
	"strings"
	"time"

	"github.com/mgtv-tech/redis-GunYu/config"
	"github.com/mgtv-tech/redis-GunYu/pkg/filter"
	"github.com/mgtv-tech/redis-GunYu/syncer"

	"verifh/fakeredis"
	"verifh/hx"
)

func ints(b []byte) []int {
	out := make([]int, len(b))
	for i, x := range b {
		out[i] = int(x)
	}
	return out
}
func intss(bs [][]byte) [][]int {
	out := make([][]int, len(bs))
	for i, b := range bs {
		out[i] = ints(b)
	}
	return out
}

type rangeCfg struct {
	White [][]int `json:"white"`
	Black [][]int `json:"black"`
}

type cfg struct {
	white, black [][]int
	pw, pb       [][]byte
	dbs          []int
	cmds         []string
}

func (c *cfg) build() *filter.RedisKeyFilter {
	f := &filter.RedisKeyFilter{}
	toU := func(rs [][]int) [][]uint16 {
		var out [][]uint16
		for _, r := range rs {
			out = append(out, []uint16{uint16(r[0]), uint16(r[1])})
		}
		return out
	}
	f.InsertSlotWhiteList(toU(c.white))
	f.InsertSlotBlackList(toU(c.black))
	var pw, pb []string
	for _, p := range c.pw {
		pw = append(pw, string(p))
	}
	for _, p := range c.pb {
		pb = append(pb, string(p))
	}
	f.InsertPrefixKeyWhiteList(pw)
	f.InsertPrefixKeyBlackList(pb)
	f.InsertDbBlackList(c.dbs)
	f.InsertCmdBlackList(c.cmds, true)
	return f
}

func nn(x [][]int) [][]int {
	if x == nil {
		return [][]int{}
	}
	return x
}

func (c *cfg) fields(m map[string]interface{}) {
	m["white"], m["black"] = nn(c.white), nn(c.black)
	m["pw"], m["pb"] = nn(intss(c.pw)), nn(intss(c.pb))
}

// command templates with independently stated key positions
type tmpl struct {
	name string
	nkey int
	proj bool
	mk   func(keys [][]byte, v []byte) (args [][]byte, keyIdx []int)
}

func b(s string) []byte { return []byte(s) }

var tmpls = []tmpl{
	{"set", 1, false, func(k [][]byte, v []byte) ([][]byte, []int) { return [][]byte{k[0], v}, []int{0} }},
	{"setex", 1, false, func(k [][]byte, v []byte) ([][]byte, []int) { return [][]byte{k[0], b("100"), v}, []int{0} }},
	{"hset", 1, false, func(k [][]byte, v []byte) ([][]byte, []int) { return [][]byte{k[0], b("f"), v}, []int{0} }},
	{"zadd", 1, false, func(k [][]byte, v []byte) ([][]byte, []int) { return [][]byte{k[0], b("1"), v}, []int{0} }},
	{"rpush", 1, false, func(k [][]byte, v []byte) ([][]byte, []int) { return [][]byte{k[0], v, v}, []int{0} }},
	{"expire", 1, false, func(k [][]byte, v []byte) ([][]byte, []int) { return [][]byte{k[0], b("10")}, []int{0} }},
	{"xadd", 1, false, func(k [][]byte, v []byte) ([][]byte, []int) { return [][]byte{k[0], b("1-1"), b("f"), v}, []int{0} }},
	{"del", 3, true, func(k [][]byte, v []byte) ([][]byte, []int) { return [][]byte{k[0], k[1], k[2]}, []int{0, 1, 2} }},
	{"del", 1, true, func(k [][]byte, v []byte) ([][]byte, []int) { return [][]byte{k[0]}, []int{0} }},
	{"unlink", 2, true, func(k [][]byte, v []byte) ([][]byte, []int) { return [][]byte{k[0], k[1]}, []int{0, 1} }},
	{"mset", 3, true, func(k [][]byte, v []byte) ([][]byte, []int) {
		return [][]byte{k[0], append(b("a"), v...), k[1], append(b("b"), v...), k[2], append(b("c"), v...)}, []int{0, 2, 4}
	}},
	{"msetnx", 2, false, func(k [][]byte, v []byte) ([][]byte, []int) { return [][]byte{k[0], v, k[1], v}, []int{0, 2} }},
	{"rename", 2, false, func(k [][]byte, v []byte) ([][]byte, []int) { return [][]byte{k[0], k[1]}, []int{0, 1} }},
	{"copy", 2, false, func(k [][]byte, v []byte) ([][]byte, []int) { return [][]byte{k[0], k[1]}, []int{0, 1} }},
	{"rpoplpush", 2, false, func(k [][]byte, v []byte) ([][]byte, []int) { return [][]byte{k[0], k[1]}, []int{0, 1} }},
	{"smove", 2, false, func(k [][]byte, v []byte) ([][]byte, []int) { return [][]byte{k[0], k[1], v}, []int{0, 1} }},
	{"sunionstore", 3, false, func(k [][]byte, v []byte) ([][]byte, []int) { return [][]byte{k[0], k[1], k[2]}, []int{0, 1, 2} }},
	{"pfmerge", 3, false, func(k [][]byte, v []byte) ([][]byte, []int) { return [][]byte{k[0], k[1], k[2]}, []int{0, 1, 2} }},
	{"bitop", 3, false, func(k [][]byte, v []byte) ([][]byte, []int) {
		return [][]byte{b("AND"), k[0], k[1], k[2]}, []int{1, 2, 3}
	}},
	{"zunionstore", 3, false, func(k [][]byte, v []byte) ([][]byte, []int) {
		return [][]byte{k[0], b("2"), k[1], k[2]}, []int{0, 2, 3}
	}},
	{"eval", 2, false, func(k [][]byte, v []byte) ([][]byte, []int) {
		return [][]byte{b("return 1"), b("2"), k[0], k[1], v}, []int{2, 3}
	}},
	{"lmove", 2, false, func(k [][]byte, v []byte) ([][]byte, []int) {
		return [][]byte{k[0], k[1], b("LEFT"), b("RIGHT")}, []int{0, 1}
	}},
	{"xgroup", 1, false, func(k [][]byte, v []byte) ([][]byte, []int) {
		return [][]byte{b("CREATE"), k[0], b("g"), b("$")}, []int{1}
	}},
}

// kept computes which keys (1-based indices into keyIdx) survive in newArgs and
// whether every surviving argument is byte-identical to the original one.
func kept(t tmpl, args, newArgs [][]byte, keyIdx []int) (k []int, intact bool) {
	same := len(args) == len(newArgs)
	if same {
		for i := range args {
			if !bytes.Equal(args[i], newArgs[i]) {
				same = false
			}
		}
	}
	if same {
		for i := range keyIdx {
			k = append(k, i+1)
		}
		return k, true
	}
	if !t.proj {
		return []int{}, false
	}
	k = []int{}
	switch t.name {
	case "del", "unlink":
		j := 0
		for _, a := range newArgs {
			for j < len(keyIdx) && !bytes.Equal(args[keyIdx[j]], a) {
				j++
			}
			if j == len(keyIdx) {
				return k, false
			}
			k = append(k, j+1)
			j++
		}
		return k, true
	case "mset":
		if len(newArgs)%2 != 0 {
			return k, false
		}
		j := 0
		for p := 0; p < len(newArgs); p += 2 {
			for j < len(keyIdx) && !(bytes.Equal(args[keyIdx[j]], newArgs[p]) && bytes.Equal(args[keyIdx[j]+1], newArgs[p+1])) {
				j++
			}
			if j == len(keyIdx) {
				return k, false
			}
			k = append(k, j+1)
			j++
		}
		return k, true
	}
	return k, false
}

var witness [2][16384][]byte

func initWitness() {
	for v := 0; v < 2; v++ {
		left := 16384
		for i := 0; left > 0; i++ {
			var k []byte
			if v == 0 {
				k = []byte("w" + strconv.Itoa(i))
			} else {
				k = []byte("x{t" + strconv.Itoa(i) + "}y}")
			}
			s := fakeredis.HashSlot(k)
			if witness[v][s] == nil {
				witness[v][s] = k
				left--
			}
		}
	}
}

func witnessKey(slot int, r *hx.Rng) []byte {
	return witness[r.Intn(2)][slot]
}

func main() {
	cases := flag.String("cases", "", "TLC generated slot-range configurations")
	out := flag.String("out", "observed.ndjson", "observations")
	statsPath := flag.String("stats", "stats.json", "stats")
	seed := flag.Uint64("seed", 1, "seed")
	nrand := flag.Int("nrand", 300, "random configurations")
	ne2e := flag.Int("ne2e", 100, "end-to-end parser scenarios")
	shard := flag.Int("shard", 0, "")
	shards := flag.Int("shards", 1, "")
	flag.Parse()
	hx.QuietLogs()
	initWitness()
	tr, err := hx.NewTrace(*out)
	if err != nil {
		hx.Fatal("%v", err)
	}
	id := *shard
	emit := func(m map[string]interface{}) {
		id += *shards
		m["id"] = id
		for _, k := range []string{"white", "black", "pw", "pb"} {
			if _, ok := m[k]; !ok {
				m[k] = [][]int{}
			}
		}
		if _, ok := m["e2e"]; !ok {
			m["e2e"], m["db"], m["dbs"], m["cmd"], m["cmds"] = false, 0, []int{}, []int{}, [][]int{}
		}
		tr.Emit(m)
	}
	r := hx.NewRng(*seed*31 + uint64(*shard))
	var samples []interface{}
	nCfg, nObs := 0, 0

	cmdKey := func(c *cfg, f *filter.RedisKeyFilter, t tmpl, keys [][]byte, site string) {
		args, keyIdx := t.mk(keys, append(b("v"), r.Bytes(r.Intn(5))...))
		orig := make([][]byte, len(args))
		for i := range args {
			orig[i] = append([]byte{}, args[i]...)
		}
		newArgs, reject := f.FilterCmdKey(t.name, args)
		kp, intact := kept(t, orig, newArgs, keyIdx)
		var ks [][]byte
		for _, i := range keyIdx {
			ks = append(ks, orig[i])
		}
		m := map[string]interface{}{"site": "CmdKey", "name": t.name, "keys": intss(ks), "proj": t.proj, "reject": reject, "kept": kp, "intact": intact || reject}
		c.fields(m)
		emit(m)
		nObs++
	}

	// (1) TLC-enumerated slot range configurations, probed at every boundary
	if *cases != "" {
		f, err := os.Open(*cases)
		if err != nil {
			hx.Fatal("%v", err)
		}
		sc := bufio.NewScanner(f)
		sc.Buffer(make([]byte, 1<<20), 1<<24)
		ln := 0
		for sc.Scan() {
			ln++
			if ln%*shards != *shard {
				continue
			}
			var rc rangeCfg
			if err := json.Unmarshal(sc.Bytes(), &rc); err != nil {
				hx.Fatal("cases: %v", err)
			}
			c := &cfg{white: rc.White, black: rc.Black}
			flt := c.build()
			nCfg++
			probe := map[int]bool{}
			for _, rg := range append(append([][]int{}, rc.White...), rc.Black...) {
				for _, p := range rg {
					for _, q := range []int{p - 1, p, p + 1} {
						if q >= 0 && q < 16384 {
							probe[q] = true
						}
					}
				}
			}
			probe[8000] = true
			for s := range probe {
				k := witnessKey(s, r)
				m := map[string]interface{}{"site": "Slot", "k": ints(k), "filtered": flt.FilterSlot(string(k))}
				c.fields(m)
				emit(m)
				nObs++
			}
			// a multi-key projection over keys of probed slots
			var ps []int
			for s := range probe {
				ps = append(ps, s)
			}
			if len(ps) >= 3 {
				keys := [][]byte{witnessKey(ps[0], r), witnessKey(ps[1], r), witnessKey(ps[2], r)}
				if !bytes.Equal(keys[0], keys[1]) && !bytes.Equal(keys[1], keys[2]) && !bytes.Equal(keys[0], keys[2]) {
					cmdKey(c, flt, tmpls[7+r.Intn(2)*3], keys, "CmdKey") // del / mset
				}
			}
			if len(samples) < 3 {
				samples = append(samples, map[string]interface{}{"white": rc.White, "black": rc.Black, "probed_slots": len(probe)})
			}
		}
		f.Close()
	}

	// (2) seeded random configurations
	alpha := []byte{'a', 'b', 0xff, 0xfe, 0xc3, 0x28, '{', '}'}
	rstr := func(n int) []byte {
		o := make([]byte, n)
		for i := range o {
			o[i] = alpha[r.Intn(len(alpha))]
		}
		return o
	}
	randCfg := func() *cfg {
		c := &cfg{}
		for i := r.Intn(4); i > 0; i-- {
			lo := r.Intn(16384)
			hi := lo + r.Intn(16384-lo)
			if r.Chance(30) {
				hi = lo
			}
			if r.Chance(60) {
				c.white = append(c.white, []int{lo, hi})
			} else {
				c.black = append(c.black, []int{lo, hi})
			}
		}
		for i := r.Intn(3); i > 0; i-- {
			p := rstr(1 + r.Intn(3))
			if r.Chance(50) {
				c.pw = append(c.pw, p)
			} else {
				c.pb = append(c.pb, p)
			}
		}
		return c
	}
	for i := 0; i < *nrand; i++ {
		c := randCfg()
		flt := c.build()
		nCfg++
		for j := 0; j < 12; j++ {
			t := tmpls[r.Intn(len(tmpls))]
			keys := make([][]byte, t.nkey)
			uniq := map[string]bool{}
			for x := range keys {
				for {
					keys[x] = append(rstr(r.Intn(4)), []byte(strconv.Itoa(r.Intn(50)))...)
					if !uniq[string(keys[x])] {
						uniq[string(keys[x])] = true
						break
					}
				}
			}
			cmdKey(c, flt, t, keys, "CmdKey")
			k := keys[0]
			m := map[string]interface{}{"site": "Key", "k": ints(k), "filtered": flt.FilterKey(string(k))}
			c.fields(m)
			emit(m)
			m = map[string]interface{}{"site": "Slot", "k": ints(k), "filtered": flt.FilterSlot(string(k))}
			c.fields(m)
			emit(m)
			nObs += 2
		}
		// db and command rules
		dbs := []int{}
		for d := 0; d < 4; d++ {
			if r.Chance(30) {
				dbs = append(dbs, d)
			}
		}
		f2 := &filter.RedisKeyFilter{}
		f2.InsertDbBlackList(dbs)
		for d := -1; d < 5; d++ {
			emit(map[string]interface{}{"site": "Db", "db": d, "dbs": dbs, "filtered": f2.FilterDb(d), "e2e": false, "cmd": []int{}, "cmds": [][]int{}})
			nObs++
		}
	}

	// (3) end to end through the real parser
	for i := 0; i < *ne2e; i++ {
		c := randCfg()
		if r.Chance(40) { // command rules alone, so that no key/slot/db rule masks them
			c = &cfg{}
		} else {
			for d := 0; d < 3; d++ {
				if r.Chance(25) {
					c.dbs = append(c.dbs, d)
				}
			}
		}
		// command blacklists: prefix-related names in any order, mixed case
		for k := r.Intn(4); k > 0; k-- {
			n := cmdPool[r.Intn(len(cmdPool))]
			if r.Chance(30) {
				n = strings.ToUpper(n)
			}
			c.cmds = append(c.cmds, n)
		}
		nCfg++
		e2e(c, r, emit, &nObs)
	}
	if err := tr.Close(); err != nil {
		hx.Fatal("%v", err)
	}
	hx.WriteJSON(*statsPath, map[string]interface{}{"configs": nCfg, "observations": nObs, "samples": samples})
	fmt.Fprintf(os.Stderr, "filterdrv: %d configurations, %d observations\n", nCfg, nObs)
}

// names that may be configured as blacklisted; several are prefixes of others
var cmdPool = []string{"incr", "incrby", "incrbyfloat", "set", "setex", "setnx", "expire", "expireat", "restore", "spop", "setrange", "hset", "hsetnx"}

// administrative commands a replica stream may carry and that are never forwarded
// (the harness's own list, stated from the documentation, not read from the implementation)
var adminCmds = []string{"cluster", "asking", "readonly", "readwrite", "auth", "client", "quit", "reset", "echo", "command", "flushall", "flushdb",
	"latency", "module", "psync", "replconf", "save", "shutdown", "slaveof", "slowlog", "swapdb", "sync", "bgsave", "bgrewriteaof", "opinfo",
	"lastsave", "monitor", "role", "debug", "restore-asking", "migrate", "wait", "pfselftest", "pfdebug"}

func e2e(c *cfg, r *hx.Rng, emit func(map[string]interface{}), nObs *int) {
	kf := &config.FilterKeyConfig{}
	for _, p := range c.pw {
		kf.PrefixKeyWhitelist = append(kf.PrefixKeyWhitelist, string(p))
	}
	for _, p := range c.pb {
		kf.PrefixKeyBlacklist = append(kf.PrefixKeyBlacklist, string(p))
	}
	sf := &config.FilterSlotConfig{}
	for _, w := range c.white {
		sf.KeySlotWhitelist = append(sf.KeySlotWhitelist, []uint16{uint16(w[0]), uint16(w[1])})
	}
	for _, w := range c.black {
		sf.KeySlotBlacklist = append(sf.KeySlotBlacklist, []uint16{uint16(w[0]), uint16(w[1])})
	}
	ro := syncer.NewRedisOutput(syncer.RedisOutputConfig{InputName: "verif", CheckpointName: "cp", RunId: "r", TargetDb: -1,
		BatchCmdCount: 10, BatchTicker: time.Hour, KeepaliveTicker: time.Hour, UpdateCheckpointTicker: time.Hour,
		Stats:  config.OutputStats{DisableLog: true},
		Filter: config.FilterConfig{DbBlacklist: c.dbs, CmdBlacklist: c.cmds, KeyFilter: kf, SlotFilter: sf}})
	type src struct {
		t    tmpl
		args [][]byte
		kidx []int
		db   int
		end  int64
		name string
	}
	var stream []byte
	var srcs []src
	db := 0
	alpha := []byte{'a', 'b', 0xff, 0xfe, '{', '}'}
	reserved := [][]byte{[]byte("redis-gunyu-checkpoint"), []byte("/redis-gunyu"), []byte("redis-gunyu-bisync:")}
	for j := 0; j < 14; j++ {
		// a replication stream always states its database before the first command
		if j == 0 || r.Chance(20) {
			db = r.Intn(3)
			stream = append(stream, hx.EncodeCmd([]byte("SELECT"), []byte(strconv.Itoa(db)))...)
			continue
		}
		t := tmpls[r.Intn(len(tmpls))]
		name := t.name
		if r.Chance(10) {
			name = strings.ToUpper(name)
		}
		keys := make([][]byte, t.nkey)
		uniq := map[string]bool{}
		for x := range keys {
			for {
				n := r.Intn(4)
				k := make([]byte, n)
				for y := range k {
					k[y] = alpha[r.Intn(len(alpha))]
				}
				k = append(k, []byte(strconv.Itoa(r.Intn(50)))...)
				if r.Chance(8) {
					k = append(append([]byte{}, reserved[r.Intn(len(reserved))]...), k...)
				}
				keys[x] = k
				if !uniq[string(k)] {
					uniq[string(k)] = true
					break
				}
			}
		}
		args, kidx := t.mk(keys, append([]byte("v"), r.Bytes(r.Intn(5))...))
		stream = append(stream, hx.EncodeCmd(append([][]byte{[]byte(name)}, args...)...)...)
		srcs = append(srcs, src{t: t, args: args, kidx: kidx, db: db, end: int64(len(stream)), name: strings.ToLower(name)})
	}
	// every poolable name and a few administrative ones appear in the stream (single-key layout: key first)
	extra := append(append([]string{}, cmdPool...), "restore-asking", "flushall", "replconf", "debug")
	for _, n := range extra {
		if !r.Chance(60) {
			continue
		}
		k := []byte("q" + strconv.Itoa(r.Intn(9)))
		args := [][]byte{k, []byte("1"), []byte("x")}
		kidx := []int{0}
		if n == "flushall" {
			args, kidx = [][]byte{}, []int{}
		}
		stream = append(stream, hx.EncodeCmd(append([][]byte{[]byte(n)}, args...)...)...)
		srcs = append(srcs, src{t: tmpl{name: n}, args: args, kidx: kidx, db: db, end: int64(len(stream)), name: n})
	}
	outs, err := ro.VerifParseAof(context.Background(), bufio.NewReader(bytes.NewReader(stream)), 0, 0)
	if err == nil {
		hx.Fatal("parser returned nil at end of stream (expected io.EOF)")
	}
	byEnd := map[int64]syncer.VerifCmd{}
	for _, o := range outs {
		if o.Cmd != "select" {
			byEnd[o.Offset] = o
		}
	}
	lc := func(ss []string) [][]int {
		out := [][]int{}
		for _, s := range ss {
			out = append(out, ints([]byte(strings.ToLower(s))))
		}
		return out
	}
	for _, s := range srcs {
		o, fwd := byEnd[s.end]
		var ks [][]byte
		for _, i := range s.kidx {
			ks = append(ks, s.args[i])
		}
		kp, intact := []int{}, true
		if fwd {
			kp, intact = kept(s.t, s.args, o.Args, s.kidx)
			if o.Cmd != s.name {
				intact = false
			}
		}
		m := map[string]interface{}{"site": "CmdKey", "name": s.name, "keys": intss(ks), "proj": s.t.proj, "reject": !fwd, "kept": kp, "intact": intact,
			"e2e": true, "db": s.db, "dbs": append([]int{}, c.dbs...), "cmd": ints([]byte(s.name)), "cmds": lc(append(append([]string{}, c.cmds...), adminCmds...))}
		c.fields(m)
		emit(m)
		*nObs++
	}
}
