// bisyncdrv drives the real bidirectional incremental replay
// (RedisOutput with BisyncEnabled: sendAofBisync in sync / pipeline / parallel
// mode, bisyncStartPoint recovery) against the fake standalone target: a
// stream of client commands and transactions, the target dying after every
// k-th received request, restarts (also repeated ones without traffic).  The
// raw target requests are projected onto replay units, markers, recovery
// records, frontier and journal maintenance for spec/trace/TraceBisync.tla.
package main

import (
	"bufio"
	"bytes"
	"context"
	"encoding/json"
	"errors"
	"flag"
	"fmt"
	"io"
	"os"
	"runtime"
	"sort"
	"strconv"
	"strings"
	"sync/atomic"
	"time"

	"github.com/mgtv-tech/redis-GunYu/config"
	"github.com/mgtv-tech/redis-GunYu/pkg/redis/checkpoint"
	"github.com/mgtv-tech/redis-GunYu/pkg/redis/client"
	"github.com/mgtv-tech/redis-GunYu/syncer"

	"verifh/fakeredis"
	"verifh/hx"
)

const (
	cpName = "redis-gunyu-checkpoint-bisync:verif0001"
	runID  = "dddddddddddddddddddddddddddddddddddddddd"
)

type cmd struct {
	name string
	args [][]byte
}
type unit struct {
	S, E int64
	Txn  bool
	Cmds []cmd
	Ok   bool // the unit is routable: all its keys hash to one slot and are determinable
}

type scenario struct {
	id       int
	mode     string
	start    int64
	units    []unit
	bytes    []byte // whole stream from start
	crash    []int
	idle     bool // restart twice without traffic after a crash
	cluster  bool
	stall    int // cluster: the transaction of this unit (0-based, 0 = none) is held back ~130 ms before the target sees its first command
	resyncAt int // sync mode on the cluster fake, > 0: after this many units a full resynchronisation of the same history completes
	// (root position at that unit's end), the link restarts, the remaining units follow, the link restarts again
	snapAt  int   // the snapshot of that resynchronisation was taken at the end of this unit (> resyncAt: the source had moved on)
	upto    int64 // run(): feed the stream up to this offset only (0 = all of it)
	otherDb bool  // the (standalone) target holds a key of its own in another database
	filter  bool  // a key filter is configured (prefix black list "drop:"): multi-key commands are forwarded restricted to the accepted keys
	nostart bool  // skip the start-up recovery (16384 slot reads on a cluster): C18 cases only judge admission
	// cluster target: the slot of unit migU (1-based, 0 = none) is handed over to the other node at the moment the unit's marker
	// ("marker"), its first business command ("biz") or its EXEC ("exec") arrives at the node - at once (migKind "moved") or as a
	// migration in progress with all keys moved (migKind "ask", finished when the marker of a later unit arrives)
	migU    int
	migAt   string
	migKind string
	// resync flow: the connection that carries the resetAt-th write request (never an EXEC) after the restart behind the
	// resynchronisation is closed by the target before the request is looked at (0 = none): a reset, not a crash
	resetAt int
}

// caseLine is one unit enumerated by spec/UnitRoute.tla with the spec's verdict
type caseLine struct {
	Unit []struct {
		Kind string  `json:"kind"`
		Keys [][]int `json:"keys"`
		Arg  []int   `json:"arg"`
	} `json:"unit"`
	Ok bool `json:"ok"`
}

func bytesOf(a []int) []byte {
	b := make([]byte, len(a))
	for i, x := range a {
		b[i] = byte(x)
	}
	return b
}

// caseScenario: one routable single-key unit, then the enumerated unit
func caseScenario(r *hx.Rng, id int, c caseLine) *scenario {
	sc := &scenario{id: id, start: int64(500 + r.Intn(5000)), mode: []string{"sync", "pipeline", "parallel"}[r.Intn(3)], cluster: true, nostart: true}
	off := sc.start
	add := func(args ...[]byte) {
		b := hx.EncodeCmd(args...)
		sc.bytes = append(sc.bytes, b...)
		off += int64(len(b))
	}
	addCmd := func(un *unit, cm cmd) {
		un.Cmds = append(un.Cmds, cm)
		add(append([][]byte{[]byte(cm.name)}, cm.args...)...)
	}
	u0 := unit{S: off, Ok: true}
	addCmd(&u0, cmd{"set", [][]byte{[]byte(fmt.Sprintf("{p%d}k", r.Intn(50))), []byte("v0.0")}})
	u0.E = off
	sc.units = append(sc.units, u0)
	un := unit{S: off, Ok: c.Ok, Txn: len(c.Unit) > 1}
	if un.Txn {
		add([]byte("MULTI"))
	}
	oracleOk, slot := true, -1
	for ci, cu := range c.Unit {
		v := []byte(fmt.Sprintf("v1.%d", ci))
		var cm cmd
		switch {
		case cu.Kind == "opaque":
			cm = cmd{"fooq", [][]byte{bytesOf(cu.Keys[0]), v}}
			oracleOk = false
		case cu.Kind == "counted":
			// the key count is content; the argument after the keys is not a key although it looks like one
			cm = cmd{"eval", [][]byte{[]byte(fmt.Sprintf("return %d", ci)), []byte(strconv.Itoa(len(cu.Keys)))}}
			for _, k := range cu.Keys {
				cm.args = append(cm.args, bytesOf(k))
			}
			cm.args = append(cm.args, bytesOf(cu.Arg))
		case cu.Kind == "dynamic":
			// a module's command: its keys are what the target answers to COMMAND GETKEYS
			cm = cmd{"modq.mset", nil}
			for _, k := range cu.Keys {
				cm.args = append(cm.args, bytesOf(k), v)
			}
		case len(cu.Keys) == 1:
			cm = cmd{"set", [][]byte{bytesOf(cu.Keys[0]), v}} // the keys of a unit may coincide: one value type throughout
		default:
			cm = cmd{"mset", nil}
			for _, k := range cu.Keys {
				cm.args = append(cm.args, bytesOf(k), v)
			}
		}
		for _, k := range cu.Keys {
			sl := fakeredis.HashSlot(bytesOf(k))
			if slot >= 0 && sl != slot {
				oracleOk = false
			}
			slot = sl
		}
		addCmd(&un, cm)
	}
	if oracleOk != c.Ok {
		hx.Fatal("the specification and the harness oracle disagree on a unit: %+v", c)
	}
	if un.Txn {
		add([]byte("EXEC"))
	}
	un.E = off
	sc.units = append(sc.units, un)
	return sc
}

// slotOf is the oracle's slot of a request: -1 keyless, -2 keys in several slots
func slotOf(name string, args [][]byte) int {
	ks := fakeredis.DefaultKeys(name, args)
	if len(ks) == 0 {
		return -1
	}
	sl := fakeredis.HashSlot(ks[0])
	for _, k := range ks[1:] {
		if fakeredis.HashSlot(k) != sl {
			return -2
		}
	}
	return sl
}

// keyForms returns differently braced keys that Redis Cluster maps to the slot of tag t
func keyForm(r *hx.Rng, t string, suffix string) []byte {
	switch r.Intn(6) {
	case 0:
		return []byte("{" + t + "}k:" + suffix)
	case 1:
		return []byte("p:{" + t + "}:" + suffix)
	case 2:
		return []byte("{" + t + "}{zz" + suffix + "}") // only the first tag counts
	case 3:
		return []byte("{" + t + "}}" + suffix)
	case 4:
		return []byte("q{" + t + "}{}" + suffix)
	default:
		return append([]byte("{"+t+"}\xff\x00"), suffix...)
	}
}

// the generated scripts do nothing: what is judged is where the command is sent
func noopScript(s *fakeredis.Server, db int, script string, keys [][]byte, argv [][]byte) interface{} {
	return 1
}

// refuse kinds of C18: what makes a unit unroutable on a cluster target
var refuseKinds = []string{"txn2slots", "mset2slots", "del2slots", "emptytag", "lastbrace", "unknowncmd", "nestedbrace", "eval2slots", "twokeycmd", "twokeycmd", "dyn2slots"}

// commands that address two keys, with the positions of both stated here independently of the tool's tables (Redis command
// reference; RedisTimeSeries / RedisBloom command references): %a and %b stand for the two keys
var twoKeyCmds = [][]string{
	{"rename", "%a", "%b"}, {"renamenx", "%a", "%b"}, {"smove", "%a", "%b", "m"}, {"lmove", "%a", "%b", "LEFT", "RIGHT"},
	{"rpoplpush", "%a", "%b"}, {"copy", "%a", "%b"}, {"sdiffstore", "%a", "%b"}, {"sinterstore", "%a", "%b"}, {"sunionstore", "%a", "%b"},
	{"bitop", "AND", "%a", "%b"}, {"pfmerge", "%a", "%b"}, {"zunionstore", "%a", "1", "%b"}, {"zinterstore", "%a", "1", "%b"},
	{"zrangestore", "%a", "%b", "0", "-1"}, {"geosearchstore", "%a", "%b", "FROMLONLAT", "0", "0", "BYRADIUS", "1", "km"},
	{"lmpop", "2", "%a", "%b", "LEFT"}, {"zdiffstore", "%a", "1", "%b"},
	{"ts.createrule", "%a", "%b", "AGGREGATION", "avg", "60000"}, {"ts.deleterule", "%a", "%b"},
	{"sintercard", "2", "%a", "%b"}, {"blmove", "%a", "%b", "LEFT", "RIGHT", "0"}, {"brpoplpush", "%a", "%b", "0"},
}

// filterOn: generated scenarios configure a key filter and mix accepted and rejected keys in DEL / UNLINK / MSET
var filterOn bool

func genScenario(r *hx.Rng, id int, maxUnits int, cluster bool, refuse string) *scenario {
	sc := &scenario{filter: filterOn, id: id, start: int64(500 + r.Intn(5000)), mode: []string{"sync", "pipeline", "parallel"}[r.Intn(3)], cluster: cluster}
	off := sc.start
	add := func(args ...[]byte) {
		b := hx.EncodeCmd(args...)
		sc.bytes = append(sc.bytes, b...)
		off += int64(len(b))
	}
	addCmd := func(un *unit, cm cmd) {
		un.Cmds = append(un.Cmds, cm)
		add(append([][]byte{[]byte(cm.name)}, cm.args...)...)
	}
	n := 1 + r.Intn(maxUnits)
	tags := 2 + r.Intn(6)
	// directed: a sync link to a cluster whose units all live in one slot, resynchronised in full half-way, with the connection
	// reset under the first unit after the restart (the latest record of the slot is then one of the numbering before)
	oneSlotReset := cluster && refuse == "" && !filterOn && maxUnits >= 3 && r.Chance(12)
	if oneSlotReset {
		sc.mode = "sync"
		tags = 1
		if n < 4 {
			n = 4
		}
	}
	for u := 0; u < n; u++ {
		un := unit{S: off, Ok: true}
		nc := 1
		if r.Chance(35) {
			un.Txn = true
			nc = 1 + r.Intn(3)
			add([]byte("MULTI"))
		}
		tag := fmt.Sprintf("t%d", r.Intn(tags))
		if cluster && !oneSlotReset {
			// tags with multi-byte UTF-8 and with bytes that are not UTF-8 at all
			switch r.Intn(4) {
			case 0:
				tag = fmt.Sprintf("\xe8\xae\xa2\xe5\x8d\x95%d", r.Intn(tags))
			case 1:
				tag = fmt.Sprintf("\xff\x80%d\xfe", r.Intn(tags))
			}
		}
		for c := 0; c < nc; c++ {
			key := []byte(fmt.Sprintf("k:%d:%d", u, c))
			if cluster {
				key = keyForm(r, tag, fmt.Sprintf("%d:%d", u, c))
			}
			val := append([]byte(fmt.Sprintf("v%d.%d:", u, c)), r.Bytes(r.Intn(8))...)
			var cm cmd
			if sc.filter && r.Chance(60) {
				// accepted and rejected keys in one command: the target must see the command restricted to the accepted keys
				// (the stream carries the whole command, the unit records what is owed to the target)
				k2 := []byte(fmt.Sprintf("k2:%d:%d", u, c))
				if cluster {
					k2 = keyForm(r, tag, fmt.Sprintf("b%d:%d", u, c))
				}
				d1, d2 := []byte(fmt.Sprintf("drop:%d:%d", u, c)), []byte(fmt.Sprintf("drop:x%d:%d", u, c))
				var full, proj cmd
				switch r.Intn(4) {
				case 0:
					full = cmd{"del", [][]byte{key, d1, k2}}
					proj = cmd{"del", [][]byte{key, k2}}
				case 1:
					full = cmd{"unlink", [][]byte{d1, key, d2}}
					proj = cmd{"unlink", [][]byte{key}}
				case 2:
					full = cmd{"mset", [][]byte{key, val, d1, []byte("dv"), k2, val}}
					proj = cmd{"mset", [][]byte{key, val, k2, val}}
				default:
					full = cmd{"del", [][]byte{d1, k2}}
					proj = cmd{"del", [][]byte{k2}}
				}
				un.Cmds = append(un.Cmds, proj)
				add(append([][]byte{[]byte(full.name)}, full.args...)...)
				if un.Txn && r.Chance(30) {
					// a command that touches rejected keys only is withheld entirely
					add([]byte("set"), d2, []byte("x"))
				}
				continue
			}
			switch r.Intn(9) {
			case 7:
				// a command of a module: no static table knows it, the target tells its keys (COMMAND GETKEYS)
				if cluster && nc == 1 && r.Chance(40) {
					// a key of more than a kilobyte without a tag: its slot is the slot of all its bytes (the only command of its unit)
					key = append(bytes.Repeat([]byte{'x'}, 1030+r.Intn(200)), []byte(fmt.Sprintf(":%d:%d:%d", u, c, r.Intn(100000)))...)
				}
				cm = cmd{"modq.set", [][]byte{key, val}}
			case 8:
				k2 := []byte(fmt.Sprintf("k2:%d:%d", u, c))
				if cluster {
					k2 = keyForm(r, tag, fmt.Sprintf("b%d:%d", u, c))
				}
				cm = cmd{"modq.mset", [][]byte{key, val, k2, val}}
			case 5:
				// a command whose key positions depend on its content: one key, and an argument that only looks like a
				// key of another slot (the same shape and argument count as the two-key call below)
				arg := val
				if cluster && r.Bool() {
					arg = []byte(fmt.Sprintf("{zz%d}arg", r.Intn(1000)))
				}
				cm = cmd{"eval", [][]byte{[]byte("return 1"), []byte("1"), key, arg}}
			case 6:
				k2 := []byte(fmt.Sprintf("k2:%d:%d", u, c))
				if cluster {
					k2 = keyForm(r, tag, fmt.Sprintf("b%d:%d", u, c))
				}
				cm = cmd{"eval", [][]byte{[]byte("return 1"), []byte("2"), key, k2}}
			case 0:
				cm = cmd{"set", [][]byte{key, val}}
			case 1:
				cm = cmd{"rpush", [][]byte{key, val}}
			case 2:
				cm = cmd{"hset", [][]byte{key, []byte("f"), val}}
			case 3:
				cm = cmd{"sadd", [][]byte{key, val}}
			default:
				// several keys of one slot in one command
				k2 := []byte(fmt.Sprintf("k2:%d:%d", u, c))
				if cluster {
					k2 = keyForm(r, tag, fmt.Sprintf("b%d:%d", u, c))
				}
				cm = cmd{"mset", [][]byte{key, val, k2, val}}
			}
			addCmd(&un, cm)
		}
		if un.Txn {
			add([]byte("EXEC"))
		}
		un.E = off
		sc.units = append(sc.units, un)
		if r.Chance(20) {
			add([]byte("PING"))
		}
	}
	sc.otherDb = !cluster && r.Chance(35)
	if cluster && sc.mode == "sync" && refuse == "" && len(sc.units) >= 3 && r.Chance(50) {
		sc.resyncAt = 1 + r.Intn(len(sc.units)-2)
		sc.snapAt = sc.resyncAt + 1 + r.Intn(len(sc.units)-1-sc.resyncAt)
		if r.Bool() {
			sc.resetAt = 1 + r.Intn(3)
		}
	}
	if oneSlotReset {
		// at least two units behind the snapshot: the one the reset hits and one that commits after it
		sc.resyncAt = 1 + r.Intn(len(sc.units)-3)
		sc.snapAt = sc.resyncAt + 1 + r.Intn(len(sc.units)-2-sc.resyncAt)
		sc.resetAt = 1 + r.Intn(3)
		sc.stall = 0
	}
	if cluster && len(sc.units) >= 3 && sc.mode == "parallel" && r.Chance(60) {
		sc.stall = 1 + r.Intn(len(sc.units)-2)
	}
	if refuse != "" {
		// one unroutable unit at the end: the replay has to stop with an error before sending any of it
		un := unit{S: off, Ok: false}
		u := len(sc.units)
		a, b := "ra", "rb"
		for i := 0; fakeredis.HashSlot([]byte(a)) == fakeredis.HashSlot([]byte(b)); i++ {
			b = fmt.Sprintf("rb%d", i)
		}
		v := []byte(fmt.Sprintf("v%d.r", u))
		ka, kb := []byte("{"+a+"}x"), []byte("{"+b+"}y")
		switch refuse {
		case "txn2slots":
			un.Txn = true
			add([]byte("MULTI"))
			addCmd(&un, cmd{"set", [][]byte{ka, v}})
			addCmd(&un, cmd{"set", [][]byte{kb, v}})
			add([]byte("EXEC"))
		case "mset2slots":
			addCmd(&un, cmd{"mset", [][]byte{ka, v, kb, v}})
		case "del2slots":
			addCmd(&un, cmd{"del", [][]byte{ka, kb}})
		case "eval2slots":
			// the key count is part of the content: the same command name and argument count as a one-key call
			addCmd(&un, cmd{"eval", [][]byte{[]byte("return 1"), []byte("2"), ka, kb}})
		case "emptytag":
			// "{}{a}x" hashes as a whole key, "{a}x" by its tag
			un.Txn = true
			add([]byte("MULTI"))
			k1 := []byte("{}{" + a + "}x")
			for i := 0; fakeredis.HashSlot(k1) == fakeredis.HashSlot(ka); i++ {
				k1 = []byte(fmt.Sprintf("{}{%s}x%d", a, i))
			}
			addCmd(&un, cmd{"set", [][]byte{k1, v}})
			addCmd(&un, cmd{"set", [][]byte{ka, v}})
			add([]byte("EXEC"))
		case "lastbrace":
			// same last tag, different first tag
			un.Txn = true
			add([]byte("MULTI"))
			addCmd(&un, cmd{"set", [][]byte{[]byte("{" + a + "}{zz}"), v}})
			addCmd(&un, cmd{"set", [][]byte{[]byte("{" + b + "}{zz}"), v}})
			add([]byte("EXEC"))
		case "nestedbrace":
			// "{{a}}" : tag is "{a", not "a"
			k1 := []byte("{{" + a + "}}")
			for i := 0; fakeredis.HashSlot(k1) == fakeredis.HashSlot(ka); i++ {
				a2 := fmt.Sprintf("%s%d", a, i)
				k1, ka = []byte("{{"+a2+"}}"), []byte("{"+a2+"}x")
			}
			addCmd(&un, cmd{"mset", [][]byte{k1, v, ka, v}})
		case "unknowncmd":
			addCmd(&un, cmd{"fooq", [][]byte{ka, v}})
		case "dyn2slots":
			// the target reveals the keys of a module's command: two slots
			if r.Bool() {
				// (two keys of more than a kilobyte that differ only behind their 1100th byte)
				stem := bytes.Repeat([]byte{'y'}, 1100)
				la, lb := append(append([]byte{}, stem...), []byte("-a")...), append(append([]byte{}, stem...), []byte("-b")...)
				for i := 0; fakeredis.HashSlot(la) == fakeredis.HashSlot(lb); i++ {
					lb = append(append([]byte{}, stem...), []byte(fmt.Sprintf("-b%d", i))...)
				}
				ka, kb = la, lb
			}
			addCmd(&un, cmd{"modq.mset", [][]byte{ka, v, kb, v}})
		case "twokeycmd":
			// one command, two keys in two slots: whatever table or target answer the tool consults, it has to end in refusal
			tpl := twoKeyCmds[r.Intn(len(twoKeyCmds))]
			var args [][]byte
			for _, a := range tpl[1:] {
				switch a {
				case "%a":
					args = append(args, ka)
				case "%b":
					args = append(args, kb)
				default:
					args = append(args, []byte(a))
				}
			}
			addCmd(&un, cmd{tpl[0], args})
		}
		un.E = off
		sc.units = append(sc.units, un)
	}
	return sc
}

// target hides whether the fake is one standalone server or a cluster of nodes
type target struct {
	srv *fakeredis.Server
	cs  *fakeredis.ClusterState
}

func (t *target) raw() []fakeredis.Entry {
	if t.cs != nil {
		return t.cs.RawMerged()
	}
	return t.srv.RawCopy()
}
func (t *target) log() []fakeredis.Entry {
	if t.cs != nil {
		return t.cs.LogMerged()
	}
	return t.srv.LogCopy()
}
func (t *target) conns() int {
	if t.cs != nil {
		return t.cs.ConnCount()
	}
	return t.srv.ConnCount()
}
func (t *target) recv() int {
	if t.cs != nil {
		return int(t.cs.GW.Load())
	}
	return t.srv.RecvCount()
}
func (t *target) crashAfter(k int) {
	if t.cs != nil {
		if k < 0 {
			t.cs.GCrashAfter.Store(-1)
		} else {
			t.cs.GCrashAfter.Store(t.cs.GW.Load() + int64(k))
		}
		return
	}
	if k < 0 {
		t.srv.SetCrashAfter(-1)
	} else {
		t.srv.SetCrashAfter(t.srv.RecvCount() + k)
	}
}
func (t *target) crashed() bool {
	if t.cs != nil {
		return t.cs.GCrashed.Load()
	}
	return t.srv.IsCrashed()
}
func (t *target) revive() {
	if t.cs != nil {
		t.cs.CrashAll() // nodes that did not see a request after the limit still hold connections
		t.cs.Revive()
		return
	}
	t.srv.Revive()
}
func (t *target) close() {
	if t.cs != nil {
		t.cs.Close()
		return
	}
	t.srv.Close()
}

type runner struct {
	sc         *scenario
	tg         *target
	tr         *hx.Trace
	emitted    int
	nReq       int
	emittedLog int
	leaked     int // connections the tool left open after a run had returned
	resetArmed atomic.Bool
	resetLeft  atomic.Int32
	resetFired atomic.Bool
}

func (rn *runner) redisCfg() config.RedisConfig {
	if rn.tg.cs != nil {
		return config.RedisConfig{Addresses: rn.tg.cs.Addrs(), Type: config.RedisTypeCluster, Otype: config.RedisTypeCluster, Version: "7.0.0"}
	}
	return config.RedisConfig{Addresses: []string{rn.tg.srv.Addr()}, Type: config.RedisTypeStandalone, Otype: config.RedisTypeStandalone, Version: "7.0.0"}
}

func (rn *runner) newOutput() *syncer.RedisOutput {
	mode := config.ReplayModeSync
	switch rn.sc.mode {
	case "pipeline":
		mode = config.ReplayModePipeline
	case "parallel":
		mode = config.ReplayModeParallel
	}
	return syncer.NewRedisOutput(syncer.RedisOutputConfig{
		InputName: "verif", CheckpointName: cpName, RunId: runID, BisyncEnabled: true, CanTransaction: true,
		Redis: rn.redisCfg(), EnableResumeFromBreakPoint: true, TargetDb: -1,
		BatchCmdCount: 4, BatchTicker: time.Hour, BatchBufferSize: 1 << 30, KeepaliveTicker: time.Hour, UpdateCheckpointTicker: time.Hour,
		ReplayMode: mode, Parallelism: 3, ReplayRdbParallel: 1, KeyExists: "replace",
		Stats:  config.OutputStats{DisableLog: true},
		Filter: rn.filterCfg(),
	})
}

func (rn *runner) filterCfg() config.FilterConfig {
	if !rn.sc.filter {
		return config.FilterConfig{}
	}
	return config.FilterConfig{KeyFilter: &config.FilterKeyConfig{PrefixKeyBlacklist: []string{"drop:"}}}
}

func field(args [][]byte, name string) (string, bool) {
	for i := 1; i+1 < len(args); i += 2 {
		if string(args[i]) == name {
			return string(args[i+1]), true
		}
	}
	return "", false
}

func atoi(s string) int {
	n, _ := strconv.Atoi(s)
	return n
}

// project maps a raw target request onto the vocabulary of TraceBisync.tla
func (rn *runner) project(e fakeredis.Entry) map[string]interface{} {
	ev := map[string]interface{}{"ev": "Req", "c": e.Conn, "sl": slotOf(e.Name, e.Args), "node": e.Conn / 100000}
	switch e.Name {
	case "multi", "exec":
		ev["t"] = e.Name
		return ev
	case "ping", "info", "exists", "hgetall", "hget", "type", "select", "zrangebyscore", "command", "config", "hmget", "cluster", "readonly", "asking":
		return nil
	}
	key := ""
	if len(e.Args) > 0 {
		key = string(e.Args[0])
	}
	switch {
	case key == cpName && e.Name == "hset":
		off, _ := field(e.Args, runID+"_offset")
		ev["t"], ev["off"] = "root", atoi(off)
		if off == "" {
			ev["off"] = -2
		}
		return ev
	case checkpoint.IsBisyncMarkerKey(key) && e.Name == "set":
		ev["t"] = "marker"
		var m struct {
			UnitSeq     int64 `json:"unit_seq"`
			StartOffset int64 `json:"start_offset"`
			EndOffset   int64 `json:"end_offset"`
		}
		// the marker payload is the tool's own encoding; only its presence and position matter here
		_ = json.Unmarshal(e.Args[1], &m)
		return ev
	case (checkpoint.IsBisyncLatestKey(key) || checkpoint.IsBisyncCommitKey(key)) && e.Name == "hset":
		seq, _ := field(e.Args, "unit_seq")
		end, _ := field(e.Args, "end_offset")
		ev["t"], ev["seq"], ev["off"] = "rec", atoi(seq), atoi(end)
		ev["latest"] = checkpoint.IsBisyncLatestKey(key)
		return ev
	case checkpoint.IsBisyncCommitIndexKey(key) && e.Name == "zadd":
		ev["t"], ev["seq"] = "idx", atoi(string(e.Args[1]))
		return ev
	case key == checkpoint.BisyncFrontierKey(cpName) && e.Name == "hset":
		seq, _ := field(e.Args, "unit_seq")
		end, _ := field(e.Args, "end_offset")
		ev["t"], ev["seq"], ev["off"] = "frontier", atoi(seq), atoi(end)
		return ev
	case e.Name == "del" || e.Name == "unlink":
		seqs := []int{}
		other := false
		for _, a := range e.Args {
			k := string(a)
			if checkpoint.IsBisyncCommitKey(k) {
				seqs = append(seqs, atoi(k[strings.LastIndex(k, ":")+1:]))
			} else {
				other = true
			}
		}
		if !other {
			ev["t"], ev["seqs"] = "delrec", seqs
			return ev
		}
	case checkpoint.IsBisyncCommitIndexKey(key) && e.Name == "zrem":
		ev["t"] = "zrem"
		return ev
	case key == cpName, key == config.CheckpointKeyHashKey:
		ev["t"] = "rootother"
		return ev
	}
	// business command: which unit / command is it byte-identical to?
	ev["t"], ev["u"], ev["ci"] = "biz", 0, 0
	for ui, un := range rn.sc.units {
		for ci, cm := range un.Cmds {
			if cm.name != e.Name || len(cm.args) != len(e.Args) {
				continue
			}
			same := true
			for j := range cm.args {
				if string(cm.args[j]) != string(e.Args[j]) {
					same = false
					break
				}
			}
			if same {
				ev["u"], ev["ci"] = ui+1, ci+1
				return ev
			}
		}
	}
	return ev
}

// flushExecuted (scenarios with a slot hand-over): what took effect, not what was requested - a request a node refused
// (MOVED / ASK, a transaction discarded at EXEC) has not happened.  Executed commands in cluster-wide execution order, one
// multi ... exec per block.
func (rn *runner) flushExecuted() {
	log := rn.tg.log()
	sort.Slice(log, func(i, j int) bool { return log[i].Seq < log[j].Seq })
	for i := rn.emittedLog; i < len(log); {
		e := log[i]
		e.Conn += e.Node * 100000
		if e.Blk == 0 {
			if ev := rn.project(e); ev != nil {
				rn.tr.Emit(ev)
			}
			i++
			continue
		}
		rn.tr.Emit(map[string]interface{}{"ev": "Req", "t": "multi", "c": e.Conn, "sl": -1, "node": e.Node})
		j := i
		for ; j < len(log) && log[j].Blk == e.Blk && log[j].Node == e.Node; j++ {
			x := log[j]
			x.Conn = e.Conn
			if ev := rn.project(x); ev != nil {
				rn.tr.Emit(ev)
			}
		}
		rn.tr.Emit(map[string]interface{}{"ev": "Req", "t": "exec", "c": e.Conn, "sl": -1, "node": e.Node})
		i = j
	}
	rn.emittedLog = len(log)
	rn.nReq = len(rn.tg.raw())
}

func (rn *runner) flushRaw() {
	if rn.sc.migU > 0 {
		rn.flushExecuted()
		return
	}
	raw := rn.tg.raw()
	for _, e := range raw[rn.emitted:] {
		if ev := rn.project(e); ev != nil {
			rn.tr.Emit(ev)
		}
		rn.nReq++
	}
	rn.emitted = len(raw)
}

func (rn *runner) waitNoConns() {
	dl := time.Now().Add(10 * time.Second)
	for i := 0; rn.tg.conns() > 0 && time.Now().Before(dl); i++ {
		time.Sleep(100 * time.Microsecond)
		if rn.tg.cs != nil && i%20 == 19 {
			// the cluster client drops its bootstrap node object with a pooled connection still open;
			// only the finalizer of that connection closes it
			runtime.GC()
		}
	}
	if rn.tg.conns() > 0 {
		// the replay has returned and left connections open (a leak of the tool, not a matter of the properties judged here):
		// what it sent has arrived; the connections are closed from the target's side
		rn.leaked += rn.tg.conns()
		if rn.tg.srv != nil {
			rn.tg.srv.Crash()
		}
		rn.tg.revive()
	}
}

func (rn *runner) applied() int {
	seen := map[int]bool{}
	for _, e := range rn.tg.log() {
		if ev := rn.project(e); ev != nil && ev["t"] == "biz" && ev["u"].(int) > 0 {
			seen[ev["u"].(int)*10+ev["ci"].(int)] = true
		}
	}
	return len(seen)
}

func (rn *runner) startPoint() (syncer.StartPoint, *syncer.RedisOutput) {
	ro := rn.newOutput()
	sp, err := ro.StartPoint(context.Background(), []string{runID})
	if hx.PortExhausted(err) {
		hx.Fatal("scenario %d: %v", rn.sc.id, err)
	}
	rn.waitNoConns()
	rn.flushRaw()
	if err != nil {
		// the target is healthy at this point: a start that fails leaves the tool unable to resume at all
		rn.tr.Emit(map[string]interface{}{"ev": "Resume", "off": -1, "rid": "!", "err": err.Error()})
		return syncer.StartPoint{RunId: "!"}, ro
	}
	rid := "A"
	if sp.RunId != runID {
		rid = "?"
	}
	rn.tr.Emit(map[string]interface{}{"ev": "Resume", "off": int(sp.Offset), "rid": rid})
	return sp, ro
}

// run one replay from the stored resume point; crashAfter < 0 = run to completion
func (rn *runner) run(crashAfter int) (died bool, cont bool) {
	sc := rn.sc
	var sp syncer.StartPoint
	var ro *syncer.RedisOutput
	if sc.nostart {
		sp, ro = syncer.StartPoint{RunId: runID, Offset: sc.start}, rn.newOutput()
	} else {
		sp, ro = rn.startPoint()
	}
	if sp.RunId != runID || sp.Offset < sc.start || sp.Offset > sc.start+int64(len(sc.bytes)) {
		return false, false
	}
	ctx, cancel := context.WithCancel(context.Background())
	defer cancel()
	feed := hx.NewFeedReader()
	end := sc.start + int64(len(sc.bytes))
	if sc.upto > 0 {
		end = sc.upto
	}
	if sp.Offset > end {
		return false, false
	}
	feed.Feed(sc.bytes[sp.Offset-sc.start : end-sc.start])
	if crashAfter >= 0 {
		rn.tg.crashAfter(crashAfter)
	}
	done := make(chan error, 1)
	go func() { done <- ro.Send(ctx, hx.NewChanReader(feed, true, runID, sp.Offset, -1)) }()
	want, refusing := 0, false
	for _, u := range sc.units {
		if u.E > end {
			continue
		}
		if u.Ok {
			want += len(u.Cmds)
		} else {
			refusing = true
		}
	}
	deadline := time.Now().Add(4 * time.Second)
	ended := false
	var sendErr error
	for time.Now().Before(deadline) {
		select {
		case sendErr = <-done:
			ended = true
		default:
		}
		if ended || rn.tg.crashed() || (!refusing && rn.applied() >= want) {
			break
		}

		time.Sleep(300 * time.Microsecond)
	}
	if refusing && !ended && !rn.tg.crashed() {
		// the replay has to stop by itself at the unroutable unit; a loaded machine may need longer than the polling window,
		// and a verdict must not rest on a time-out of the harness
		select {
		case sendErr = <-done:
			ended = true
		case <-time.After(90 * time.Second):
			// 94 s without an answer: the replay is not going to refuse (it is waiting for more input)
		}
	}
	endedByItself := ended // before the source's stream was closed
	if !ended && !rn.tg.crashed() {
		// everything applied: let the run end the way a stopped source ends it (coordinator flush included)
		feed.CloseWith(io.EOF)
		select {
		case sendErr = <-done:
			ended = true
		case <-time.After(5 * time.Second):
		}
	}
	cancel()
	if !ended {
		select {
		case sendErr = <-done:
		case <-time.After(20 * time.Second):
			hx.Fatal("scenario %d: Send did not return", sc.id)
		}
	}
	if hx.PortExhausted(sendErr) {
		hx.Fatal("scenario %d: %v", sc.id, sendErr)
	}
	died = rn.tg.crashed()
	if died {
		rn.tg.revive() // closes whatever is still open
	}
	if sc.migU > 0 && endedByItself && sendErr != nil && !errors.Is(sendErr, context.Canceled) {
		// a slot hand-over may end the run with a reported error (C19: "retried at the indicated node or a reported restart");
		// the link is started again - what must not happen is a unit that is lost or, in sync mode, applied twice
		died = true
	}
	if rn.resetFired.Swap(false) && endedByItself {
		died = true // the connection was reset under the run and the run ended with an error: a fault, the link is started again
	}
	rn.waitNoConns()
	rn.flushRaw()
	es := ""
	if sendErr != nil {
		es = sendErr.Error()
		if len(es) > 300 {
			es = es[:300]
		}
	}
	rn.tr.Emit(map[string]interface{}{"ev": "Return", "died": died, "text": es, "err": sendErr != nil && !errors.Is(sendErr, io.EOF), "eof": sendErr != nil && errors.Is(sendErr, io.EOF)})
	if died {
		rn.tr.Emit(map[string]interface{}{"ev": "Crash"})
		return true, true
	}
	rn.tg.crashAfter(-1)
	if sc.upto == 0 {
		rn.tr.Emit(map[string]interface{}{"ev": "Quiesce"})
	}
	return false, true
}

// installHandOver: see scenario.migU.  The nodes execute one request at a time cluster-wide (Serialize), the hand-over happens
// between two requests, before the triggering request is looked at.
func installHandOver(sc *scenario, cs *fakeredis.ClusterState, tr *hx.Trace) {
	cs.Serialize, cs.ExecRecheck = true, true
	un := sc.units[sc.migU-1]
	slot := -1
	for _, cm := range un.Cmds {
		if ks := fakeredis.DefaultKeys(cm.name, cm.args); len(ks) > 0 {
			slot = fakeredis.HashSlot(ks[0])
			break
		}
	}
	if slot < 0 {
		return
	}
	pfx := []byte(fmt.Sprintf("v%d.", sc.migU-1))
	var fired, finished atomic.Bool
	var markerConn atomic.Int64
	markerConn.Store(-1)
	endOf := func(args [][]byte) int64 {
		var m struct {
			EndOffset int64 `json:"end_offset"`
		}
		if len(args) >= 2 && checkpoint.IsBisyncMarkerKey(string(args[0])) && json.Unmarshal(args[1], &m) == nil {
			return m.EndOffset
		}
		return -1
	}
	for ni := range cs.Nodes {
		node := ni
		cs.Nodes[ni].Gate = func(connID int, name string, args [][]byte) <-chan struct{} {
			trig := false
			switch {
			case name == "set" && endOf(args) == un.E:
				markerConn.Store(int64(node*100000 + connID))
				trig = sc.migAt == "marker"
			case name == "exec":
				trig = sc.migAt == "exec" && markerConn.Load() == int64(node*100000+connID)
			case sc.migAt == "biz":
				for _, a := range args {
					trig = trig || bytes.HasPrefix(a, pfx)
				}
			}
			if trig && fired.CompareAndSwap(false, true) {
				cs.Big.Lock()
				dst := 1 - cs.Owner[slot]
				cs.BeginMigrate(slot, dst)
				if sc.migKind == "moved" {
					cs.FinishMigrate(slot)
					finished.Store(true)
				} else {
					cs.MoveKeys(slot)
				}
				cs.Big.Unlock()
				tr.Emit(map[string]interface{}{"ev": "Mig", "slot": slot, "kind": sc.migKind, "at": sc.migAt, "u": sc.migU})
			} else if fired.Load() && !finished.Load() && name == "set" && endOf(args) > un.E && finished.CompareAndSwap(false, true) {
				cs.Big.Lock()
				cs.FinishMigrate(slot)
				cs.Big.Unlock()
				tr.Emit(map[string]interface{}{"ev": "Mig", "slot": slot, "kind": "finish", "at": "later-marker", "u": sc.migU})
			}
			return nil
		}
	}
}

// resetHolder lets the target's request hook reach the runner that is created after the target
type resetHolder struct{ rn *runner }

func (h *resetHolder) armed() bool { return h.rn != nil && h.rn.resetArmed.Load() }
func (h *resetHolder) hit() bool {
	if h.rn.resetLeft.Add(-1) == 0 {
		h.rn.resetArmed.Store(false)
		h.rn.resetFired.Store(true)
		return true
	}
	return false
}

func runScenario(sc *scenario, tr *hx.Trace) (recv int, reqs int) {
	resetHook := &resetHolder{}
	tg := &target{}
	if sc.cluster {
		cs, err := fakeredis.NewCluster(2)
		if err != nil {
			hx.Fatal("%v", err)
		}
		tg.cs = cs
		if sc.stall > 0 {
			// one lane stalls long enough for the coordinator's timer to flush the frontier below it
			// while the other lanes go on committing later units
			var stalls atomic.Int32
			pfx := []byte(fmt.Sprintf("v%d.0:", sc.stall))
			gate := func(connID int, name string, args [][]byte) <-chan struct{} {
				for _, a := range args {
					if bytes.HasPrefix(a, pfx) {
						if stalls.Add(1) > 2 {
							return nil
						}
						ch := make(chan struct{})
						time.AfterFunc(130*time.Millisecond, func() { close(ch) })
						return ch
					}
				}
				return nil
			}
			for _, nd := range cs.Nodes {
				nd.Gate = gate
			}
		}
		if sc.migU > 0 {
			installHandOver(sc, cs, tr)
		}
		for _, nd := range cs.Nodes {
			nd.Eval = noopScript
		}
		if sc.resetAt > 0 {
			for _, nd := range cs.Nodes {
				nd.PreExec = func(connID int, db int, name string, args [][]byte, inMulti bool) (interface{}, fakeredis.Action) {
					if !resetHook.armed() || name == "exec" || !cs.GCount(name) {
						return nil, fakeredis.Proceed
					}
					if resetHook.hit() {
						return nil, fakeredis.CloseConn
					}
					return nil, fakeredis.Proceed
				}
			}
		}
		// the start-up recovery of a cluster target reads 16384 slots: only writes count as crash points
		cs.GCount = func(name string) bool {
			switch name {
			case "hgetall", "hget", "hmget", "zrangebyscore", "zrange", "exists", "type", "cluster", "command", "info", "ping", "select", "config", "asking", "readonly":
				return false
			}
			return true
		}
		// slow down one node's EXEC replies a little so that lanes complete out of order
		rr := hx.NewRng(uint64(sc.id))
		cs.Nodes[0].Hold = func(connID int, name string, args [][]byte) <-chan struct{} {
			if name != "exec" || !rr.Chance(50) {
				return nil
			}
			ch := make(chan struct{})
			time.AfterFunc(time.Duration(200+rr.Intn(1500))*time.Microsecond, func() { close(ch) })
			return ch
		}
	} else {
		srv := fakeredis.New()
		srv.Eval = noopScript
		srv.KeepRaw = true
		srv.RealClock = true
		if _, err := srv.Start(); err != nil {
			hx.Fatal("%v", err)
		}
		if sc.otherDb {
			// the site's own applications use another database of the target as well
			srv.Lock()
			srv.DBs[3] = fakeredis.DB{"app:own": &fakeredis.Value{Type: "string", Str: []byte("x")}}
			srv.Unlock()
		}
		tg.srv = srv
	}
	defer tg.close()
	rn := &runner{sc: sc, tg: tg, tr: tr}
	resetHook.rn = rn
	us := []map[string]interface{}{}
	for _, u := range sc.units {
		us = append(us, map[string]interface{}{"s": u.S, "e": u.E, "n": len(u.Cmds), "txn": u.Txn, "ok": u.Ok})
	}
	tr.Emit(map[string]interface{}{"ev": "Reset", "id": sc.id, "mode": sc.mode, "start": sc.start, "units": us, "cluster": sc.cluster, "filter": sc.filter})
	cli, err := client.NewRedis(rn.redisCfg())
	if err != nil {
		hx.Fatal("%v", err)
	}
	if err := checkpoint.SetCheckpoint(cli, &checkpoint.CheckpointInfo{Key: cpName, RunId: runID, Offset: sc.start, Version: config.Version}); err != nil {
		hx.Fatal("seed: %v", err)
	}
	cli.Close()
	rn.waitNoConns()
	rn.flushRaw()
	base := tg.recv()
	if sc.resyncAt > 0 && sc.snapAt > sc.resyncAt && sc.snapAt < len(sc.units) {
		// units 1..j, then a completed full resynchronisation of the same history at unit j's end (the position is voided, the
		// snapshot - which holds those units - is replayed, the position of the completed full sync is stored), a restart, the
		// remaining units, and two more restarts: a sync link resumes exactly behind its last committed unit
		sc.upto = sc.units[sc.resyncAt-1].E
		if _, cont := rn.run(-1); !cont {
			return tg.recv() - base, rn.nReq
		}
		sc.upto = 0
		cli, err := client.NewRedis(rn.redisCfg())
		if err != nil {
			hx.Fatal("%v", err)
		}
		if err := checkpoint.ResetCheckpoint(cli, cpName, []string{runID, runID}); err != nil {
			hx.Fatal("resync reset: %v", err)
		}
		if err := checkpoint.SetCheckpoint(cli, &checkpoint.CheckpointInfo{Key: cpName, RunId: runID, Offset: sc.units[sc.snapAt-1].E, Version: config.Version}); err != nil {
			hx.Fatal("resync: %v", err)
		}
		cli.Close()
		rn.waitNoConns()
		rn.flushRaw()
		// the units up to the snapshot's offset are on the target as part of the snapshot
		rn.tr.Emit(map[string]interface{}{"ev": "SnapshotApplied", "off": sc.units[sc.snapAt-1].E})
		if sc.resetAt > 0 {
			rn.resetLeft.Store(int32(sc.resetAt))
			rn.resetArmed.Store(true)
		}
		cont := true
		for tries := 0; tries < 4 && cont; tries++ {
			var died bool
			died, cont = rn.run(-1)
			if !died {
				break
			}
		}
		rn.resetArmed.Store(false)
		if cont {
			rn.startPoint()
			rn.startPoint()
		}
		return tg.recv() - base, rn.nReq
	}
	for r := 0; r < 6; r++ {
		crash := -1
		if r < len(sc.crash) {
			crash = sc.crash[r]
		}
		died, cont := rn.run(crash)
		if r == 0 {
			recv = tg.recv() - base
		}
		if !cont {
			break
		}
		if died && sc.idle {
			// restart twice with no traffic in between
			rn.startPoint()
			rn.startPoint()
		}
		if !died {
			break
		}
	}
	return recv, rn.nReq
}

func main() {
	out := flag.String("out", "trace.ndjson", "")
	statsPath := flag.String("stats", "stats.json", "")
	seed := flag.Uint64("seed", 1, "")
	n := flag.Int("n", 20, "base scenarios")
	maxUnits := flag.Int("max-units", 6, "")
	stride := flag.Int("crash-stride", 2, "")
	shard := flag.Int("shard", 0, "")
	shards := flag.Int("shards", 1, "")
	idBase := flag.Int("id-base", 0, "first scenario id")
	cluster := flag.Bool("cluster", false, "two-node cluster target")
	cases := flag.String("cases", "", "units enumerated by spec/UnitRoute.tla (CASE lines): one scenario per unit, cluster target")
	refuse := flag.Bool("refuse", false, "append an unroutable unit to every scenario (cluster only, no crashes)")
	mig := flag.Bool("mig", false, "cluster only, no crashes: the slot of one unit is handed over to the other node while the unit is on its way")
	flag.BoolVar(&filterOn, "filter", false, "configure a key filter; DEL / UNLINK / MSET mix accepted and rejected keys")
	flag.Parse()
	hx.QuietLogs()
	tr, err := hx.NewTrace(*out)
	if err != nil {
		hx.Fatal("%v", err)
	}
	wd := hx.NewWatchdog(90 * time.Second)
	id := *shard + *idBase
	nScen, nReq := 0, 0
	modes := map[string]int{}
	kinds := map[string]int{}
	var samples []interface{}
	if *cases != "" {
		f, err := os.Open(*cases)
		if err != nil {
			hx.Fatal("%v", err)
		}
		scn := bufio.NewScanner(f)
		scn.Buffer(make([]byte, 1<<20), 1<<26)
		r := hx.NewRng(*seed*31 + uint64(*shard))
		ln := 0
		for scn.Scan() {
			line := scn.Text()
			if strings.HasPrefix(line, "\"CASE ") {
				line = strings.ReplaceAll(strings.TrimSuffix(strings.TrimPrefix(line, "\"CASE "), "\""), "\\\"", "\"")
			} else if !strings.HasPrefix(line, "{") {
				continue
			}
			ln++
			if ln%*shards != *shard {
				continue
			}
			var c caseLine
			if err := json.Unmarshal([]byte(line), &c); err != nil {
				hx.Fatal("case: %v (%s)", err, line)
			}
			id += *shards
			wd.Kick(fmt.Sprintf("case %d", ln))
			sc := caseScenario(r, id, c)
			_, q := runScenario(sc, tr)
			nScen++
			nReq += q
			modes[sc.mode]++
			if c.Ok {
				kinds["routable"]++
			} else {
				kinds["unroutable"]++
			}
		}
		f.Close()
		*n = 0
	}
	for b := 0; b < *n; b++ {
		if b%*shards != *shard {
			continue
		}
		r := hx.NewRng(*seed*9176 + uint64(b))
		kind := ""
		if *refuse {
			kind = refuseKinds[b%len(refuseKinds)]
		}
		base := genScenario(r, 0, *maxUnits, *cluster, kind)
		if *mig {
			base.resyncAt, base.stall, base.resetAt = 0, 0, 0
			base.migU = 1 + r.Intn(len(base.units))
			base.migAt = []string{"marker", "biz", "exec"}[r.Intn(3)]
			base.migKind = []string{"moved", "ask"}[r.Intn(2)]
		}
		id += *shards
		base.id = id
		wd.Kick(fmt.Sprintf("base %d %s", b, base.mode))
		total, q := runScenario(base, tr)
		nScen++
		nReq += q
		modes[base.mode]++
		if *refuse {
			kinds[kind]++
			continue
		}
		if *mig {
			kinds[base.migKind+"@"+base.migAt]++
			continue
		}
		for k := 1 + r.Intn(*stride); k <= total; k += *stride {
			s := *base
			id += *shards
			s.id = id
			s.resyncAt, s.resetAt = 0, 0
			s.crash = []int{k}
			if r.Chance(25) {
				s.crash = append(s.crash, 1+r.Intn(total))
			}
			s.idle = r.Chance(50)
			wd.Kick(fmt.Sprintf("base %d crash %v", b, s.crash))
			_, q := runScenario(&s, tr)
			nScen++
			nReq += q
		}
		if len(samples) < 3 {
			var us []string
			for _, u := range base.units {
				us = append(us, fmt.Sprintf("[%d,%d) txn=%v cmds=%d", u.S, u.E, u.Txn, len(u.Cmds)))
			}
			samples = append(samples, map[string]interface{}{"mode": base.mode, "units": us, "requests_uncrashed": total})
		}
	}
	if err := tr.Close(); err != nil {
		hx.Fatal("%v", err)
	}
	hx.WriteJSON(*statsPath, map[string]interface{}{"scenarios": nScen, "requests": nReq, "modes": modes, "refuse_kinds": kinds, "cluster": *cluster, "samples": samples})
	fmt.Fprintf(os.Stderr, "bisyncdrv: %d scenarios, %d requests %v\n", nScen, nReq, modes)
}
