// leasedrv replays TLC-generated operation sequences (spec/Lease.tla) and
// seeded random ones on the real Redis-based election (pkg/cluster) against
// the fake lease store, whose EVAL interprets the script text it receives on a
// virtual clock.  Every call, its answer and the store's state afterwards are
// recorded for spec/trace/TraceLease.tla.
package main

import (
	"bufio"
	"context"
	"encoding/json"
	"errors"
	"flag"
	"fmt"
	"os"
	"strings"
	"sync"
	"time"

	"github.com/mgtv-tech/redis-GunYu/config"
	"github.com/mgtv-tech/redis-GunYu/pkg/cluster"

	"verifh/fakeredis"
	"verifh/hx"
)

type op struct {
	Op string `json:"op"`
	I  string `json:"i"`
	F  string `json:"f"`
}

const key = "/redis-gunyu/verif/input-election/shard0/"

type contender struct {
	id string
	cl cluster.Cluster
	el cluster.Election
}

func main() {
	cases := flag.String("cases", "", "TLC CASE lines")
	out := flag.String("out", "trace.ndjson", "")
	statsPath := flag.String("stats", "stats.json", "")
	seed := flag.Uint64("seed", 1, "")
	nrand := flag.Int("nrand", 200, "random sequences")
	rlen := flag.Int("rand-len", 14, "length of random sequences")
	ttl := flag.Int("ttl", 2, "lease period in ticks (= seconds of the virtual clock)")
	shard := flag.Int("shard", 0, "")
	shards := flag.Int("shards", 1, "")
	flag.Parse()
	hx.QuietLogs()
	tr, err := hx.NewTrace(*out)
	if err != nil {
		hx.Fatal("%v", err)
	}
	srv := fakeredis.New()
	srv.Eval = fakeredis.LuaEval
	if _, err := srv.Start(); err != nil {
		hx.Fatal("%v", err)
	}
	defer srv.Close()
	cfg := config.RedisConfig{Addresses: []string{srv.Addr()}, Type: config.RedisTypeStandalone, Otype: config.RedisTypeStandalone}
	ctx := context.Background()
	ids := []string{"a", "b", "c"}
	longID := map[string]string{"a": "10.0.0.1:18001", "b": "10.0.0.2:18001", "c": "10.0.0.1:18001x"}
	short := map[string]string{}
	for k, v := range longID {
		short[v] = k
	}
	cs := map[string]*contender{}
	connect := func(id string) {
		if c := cs[id]; c != nil {
			c.cl.Close()
		}
		cl, err := cluster.NewRedisCluster(ctx, cfg, *ttl)
		if err != nil {
			hx.Fatal("NewRedisCluster: %v", err)
		}
		cs[id] = &contender{id: id, cl: cl, el: cl.NewElection(ctx, key, longID[id])}
	}
	var mode string // "", "lost", "fail" for the next EVAL
	srv.PreExec = func(connID int, db int, name string, args [][]byte, inMulti bool) (interface{}, fakeredis.Action) {
		if name == "eval" && mode == "fail" {
			mode = ""
			return nil, fakeredis.CloseConn
		}
		return nil, fakeredis.Proceed
	}
	// "late": the store executes the script at once and answers after the deadline the caller set for the call
	const callDeadline, lateBy = 15 * time.Millisecond, 50 * time.Millisecond
	var lateDone chan struct{}
	srv.Hold = func(connID int, name string, args [][]byte) <-chan struct{} {
		if name == "eval" && mode == "late" {
			mode = ""
			ch := make(chan struct{})
			lateDone = ch
			time.AfterFunc(lateBy, func() { close(ch) })
			return ch
		}
		return nil
	}
	srv.AfterExec = func(connID int, name string, args [][]byte) fakeredis.Action {
		if name == "eval" && mode == "lost" {
			mode = ""
			return fakeredis.CloseConn
		}
		return fakeredis.Proceed
	}
	nSeq, nOps := 0, 0
	tid := *shard
	var samples []interface{}
	runSeq := func(ops []op) {
		nSeq++
		tid += *shards
		srv.Lock()
		srv.DBs = map[int]fakeredis.DB{}
		srv.NowMs = 1_000_000
		srv.Unlock()
		for _, id := range ids {
			connect(id)
		}
		tr.Emit(map[string]interface{}{"ev": "Reset", "id": tid, "ttl": *ttl})
		var sample []string
		for _, o := range ops {
			if o.Op == "tick" {
				srv.Lock()
				srv.NowMs += 1000
				srv.Unlock()
				tr.Emit(map[string]interface{}{"ev": "Tick", "d": 1})
				sample = append(sample, "tick")
				continue
			}
			c := cs[o.I]
			srv.Lock()
			mode = ""
			if o.F != "ok" {
				mode = o.F
			}
			srv.Unlock()
			res := ""
			ctx := ctx
			if o.F == "late" {
				// the command layer bounds every election call (lease renew interval, graceful stop timeout)
				c2, cancel := context.WithTimeout(ctx, callDeadline)
				defer cancel()
				ctx = c2
			}
			switch o.Op {
			case "campaign":
				role, err := c.el.Campaign(ctx)
				switch {
				case err != nil:
					res = "err"
				case role == cluster.RoleLeader:
					res = "leader"
				default:
					res = "follower"
				}
			case "renew":
				err := c.el.Renew(ctx)
				switch {
				case err == nil:
					res = "ok"
				case errors.Is(err, cluster.ErrNotLeader):
					res = "notleader"
				default:
					res = "err"
				}
			case "resign":
				if err := c.el.Resign(ctx); err != nil {
					res = "err"
				} else {
					res = "ok"
				}
			default:
				hx.Fatal("unknown op %q", o.Op)
			}
			if o.F == "late" {
				// the late reply reaches the instance before it calls again
				srv.Lock()
				ld := lateDone
				srv.Unlock()
				if ld != nil {
					<-ld
				}
				time.Sleep(5 * time.Millisecond)
			} else if o.F != "ok" {
				connect(o.I) // the broken connection is replaced, as a restarted instance would
			}
			holder, rem := "none", 0
			if v := srv.Get(0, key); v != nil {
				holder = short[string(v.Str)]
				if holder == "" {
					holder = "?"
				}
				srv.Lock()
				if v.ExpireAt == 0 {
					rem = 1 << 20
				} else {
					rem = int((v.ExpireAt - srv.NowMs) / 1000)
				}
				srv.Unlock()
			}
			tr.Emit(map[string]interface{}{"ev": "Op", "op": o.Op, "i": o.I, "f": o.F, "res": res, "holder": holder, "rem": rem})
			sample = append(sample, fmt.Sprintf("%s(%s,%s)=%s", o.Op, o.I, o.F, res))
			nOps++
		}
		if len(samples) < 4 && len(ops) >= 4 {
			samples = append(samples, strings.Join(sample, " "))
		}
	}
	if *cases != "" {
		f, err := os.Open(*cases)
		if err != nil {
			hx.Fatal("%v", err)
		}
		sc := bufio.NewScanner(f)
		sc.Buffer(make([]byte, 1<<20), 1<<24)
		ln := 0
		for sc.Scan() {
			line := sc.Text()
			if !strings.HasPrefix(line, "\"CASE ") {
				continue
			}
			ln++
			if ln%*shards != *shard {
				continue
			}
			line = strings.ReplaceAll(strings.TrimSuffix(strings.TrimPrefix(line, "\"CASE "), "\""), "\\\"", "\"")
			var c struct {
				Ops []op `json:"ops"`
			}
			if err := json.Unmarshal([]byte(line), &c); err != nil {
				hx.Fatal("case: %v", err)
			}
			runSeq(c.Ops)
		}
		f.Close()
	}
	r := hx.NewRng(*seed*13 + uint64(*shard))
	for i := 0; i < *nrand; i++ {
		var ops []op
		for j := 0; j < *rlen; j++ {
			id := ids[r.Intn(3)]
			switch x := r.Intn(100); {
			case x < 25:
				ops = append(ops, op{"tick", "none", "ok"})
			case x < 50:
				ops = append(ops, op{"campaign", id, "ok"})
			case x < 70:
				ops = append(ops, op{"renew", id, "ok"})
			case x < 82:
				ops = append(ops, op{"resign", id, "ok"})
			case x < 90:
				ops = append(ops, op{"campaign", id, "lost"})
			case x < 94:
				ops = append(ops, op{"campaign", id, "fail"})
			case x < 96:
				ops = append(ops, op{[]string{"campaign", "renew"}[r.Intn(2)], id, "late"})
			case x < 98:
				ops = append(ops, op{"resign", id, "late"})
			default:
				ops = append(ops, op{"resign", id, "lost"})
			}
		}
		runSeq(ops)
	}
	// one instance runs an election per source shard over the one connection of its redisCluster, each shard from a goroutine
	// of its own: instance a holds shard X and keeps renewing it while it campaigns for shard Y, which instance b holds and
	// renews.  Every answer has one right value throughout; a differing one is recorded with the store's holder at that time.
	nConc := 0
	if *shard == 0 {
		srv.Lock()
		srv.DBs = map[int]fakeredis.DB{}
		srv.NowMs = 1_000_000
		mode = ""
		srv.Unlock()
		connect("a")
		connect("b")
		keyX, keyY := key+"X/", key+"Y/"
		ax, ay := cs["a"].cl.NewElection(ctx, keyX, longID["a"]), cs["a"].cl.NewElection(ctx, keyY, longID["a"])
		by := cs["b"].cl.NewElection(ctx, keyY, longID["b"])
		if r, err := ax.Campaign(ctx); err != nil || r != cluster.RoleLeader {
			hx.Fatal("concurrent phase: a does not get shard X: %v %v", r, err)
		}
		if r, err := by.Campaign(ctx); err != nil || r != cluster.RoleLeader {
			hx.Fatal("concurrent phase: b does not get shard Y: %v %v", r, err)
		}
		tid += *shards
		tr.Emit(map[string]interface{}{"ev": "Reset", "id": tid, "ttl": *ttl})
		holderOf := func(k string) string {
			if v := srv.Get(0, k); v != nil {
				return short[string(v.Str)]
			}
			return "none"
		}
		var mu sync.Mutex
		var wg sync.WaitGroup
		rec := func(shardName, i, op, res, want, k string) {
			nConc++
			if res == want {
				return
			}
			mu.Lock()
			tr.Emit(map[string]interface{}{"ev": "Conc", "shard": shardName, "i": i, "op": op, "res": res, "want": want, "holder": holderOf(k)})
			mu.Unlock()
		}
		const rounds = 3000
		wg.Add(3)
		go func() {
			defer wg.Done()
			for n := 0; n < rounds; n++ {
				res := "ok"
				if err := ax.Renew(ctx); errors.Is(err, cluster.ErrNotLeader) {
					res = "notleader"
				} else if err != nil {
					res = "err"
				}
				rec("X", "a", "renew", res, "ok", keyX)
			}
		}()
		go func() {
			defer wg.Done()
			for n := 0; n < rounds; n++ {
				res := "follower"
				if r, err := ay.Campaign(ctx); err != nil {
					res = "err"
				} else if r == cluster.RoleLeader {
					res = "leader"
				}
				rec("Y", "a", "campaign", res, "follower", keyY)
			}
		}()
		go func() {
			defer wg.Done()
			for n := 0; n < rounds; n++ {
				res := "ok"
				if err := by.Renew(ctx); errors.Is(err, cluster.ErrNotLeader) {
					res = "notleader"
				} else if err != nil {
					res = "err"
				}
				rec("Y", "b", "renew", res, "ok", keyY)
			}
		}()
		wg.Wait()
	}
	// the lease store of a group is the first address of the (standalone, several sources) input.  Instance a holds the lease
	// there; instance b starts while its path to that address is down (its second address answers): it must not be told leader
	// by whatever it finds elsewhere
	nSplit := 0
	if *shard == 1%*shards {
		srv.Lock()
		srv.DBs = map[int]fakeredis.DB{}
		srv.NowMs = 1_000_000
		mode = ""
		srv.Unlock()
		srv2 := fakeredis.New()
		srv2.Eval = fakeredis.LuaEval
		if _, err := srv2.Start(); err != nil {
			hx.Fatal("%v", err)
		}
		deadLn, err := hx.Listen()
		if err != nil {
			hx.Fatal("%v", err)
		}
		deadAddr := deadLn.Addr().String()
		// (the port stays taken - another process of this check could be given it otherwise; whoever connects is hung up on)
		defer deadLn.Close()
		go func() {
			for {
				c, err := deadLn.Accept()
				if err != nil {
					return
				}
				c.Close()
			}
		}()
		cfgA := config.RedisConfig{Addresses: []string{srv.Addr(), srv2.Addr()}, Type: config.RedisTypeStandalone, Otype: config.RedisTypeStandalone}
		cfgB := config.RedisConfig{Addresses: []string{deadAddr, srv2.Addr()}, Type: config.RedisTypeStandalone, Otype: config.RedisTypeStandalone}
		clA, err := cluster.NewRedisCluster(ctx, cfgA, *ttl)
		if err != nil {
			hx.Fatal("split phase: NewRedisCluster(a): %v", err)
		}
		keyS := key + "S/"
		ea := clA.NewElection(ctx, keyS, longID["a"])
		if r, err := ea.Campaign(ctx); err != nil || r != cluster.RoleLeader {
			hx.Fatal("split phase: a does not get the lease: %v %v", r, err)
		}
		tid += *shards
		tr.Emit(map[string]interface{}{"ev": "Reset", "id": tid, "ttl": *ttl})
		for n := 0; n < 3; n++ {
			res := "nostart"
			if clB, err := cluster.NewRedisCluster(ctx, cfgB, *ttl); err == nil {
				res = "follower"
				if r, err := clB.NewElection(ctx, keyS, longID["b"]).Campaign(ctx); err != nil {
					res = "err"
				} else if r == cluster.RoleLeader {
					res = "leader"
				}
				clB.Close()
			}
			holder := "none"
			if v := srv.Get(0, keyS); v != nil {
				holder = short[string(v.Str)]
			}
			want := res
			if res == "leader" {
				want = "nostart"
			}
			nSplit++
			tr.Emit(map[string]interface{}{"ev": "Conc", "shard": "split", "i": "b", "op": "campaign", "res": res, "want": want, "holder": holder})
			if err := ea.Renew(ctx); err != nil {
				hx.Fatal("split phase: a cannot renew on the group's store: %v", err)
			}
		}
		clA.Close()
		srv2.Close()
	}
	if len(srv.LuaErrors) > 0 {
		hx.Fatal("the lease store could not interpret a script: %v", srv.LuaErrors[0])
	}
	if err := tr.Close(); err != nil {
		hx.Fatal("%v", err)
	}
	hx.WriteJSON(*statsPath, map[string]interface{}{"sequences": nSeq, "calls": nOps, "concurrent_calls": nConc, "split_store_starts": nSplit, "samples": samples})
	fmt.Fprintf(os.Stderr, "leasedrv: %d sequences, %d calls\n", nSeq, nOps)
}
