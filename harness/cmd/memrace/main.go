// memrace: stress of one race of the memory cache (syncer/memory_channel.go): a log writer is closed while its ingest
// goroutine rotates to a new segment.  finishAof used to pick "the writer's current segment" outside the channel lock: the
// rotation could slip in between, the segment it created was then never closed, and every later reader stalled at its end
// although a following writer had appended more.  Counts, over -n tries, readers that do not reach the right edge.
package main

import (
	"flag"
	"fmt"
	"io"
	"os"
	"sync"
	"time"

	usync "github.com/mgtv-tech/redis-GunYu/pkg/sync"
	"github.com/mgtv-tech/redis-GunYu/pkg/verifhook"
	"github.com/mgtv-tech/redis-GunYu/syncer"

	"verifh/hx"
)

func main() {
	n := flag.Int("n", 2000, "tries")
	out := flag.String("out", "", "trace (vocabulary of spec/trace/TraceCache.tla): every try whose reader stalls, and the first 20")
	flag.Parse()
	hx.QuietLogs()
	var tr *hx.Trace
	if *out != "" {
		t, err := hx.NewTrace(*out)
		if err != nil {
			hx.Fatal("%v", err)
		}
		tr = t
		defer tr.Close()
	}
	id := "1111111111111111111111111111111111111111"
	stalls := 0
	for i := 0; i < *n; i++ {
		ch := syncer.NewMemoryChannel(syncer.MemoryConf{InputId: "verif", MaxSize: 1 << 30, LogSize: 3000})
		ch.SetRunId(id)
		f1 := hx.NewFeedReader()
		w1, err := ch.NewAofWritter(f1, 1000)
		if err != nil {
			panic(err)
		}
		// forced schedule (hook point "memch rotate": the ingest goroutine has filled its segment and is about to open the
		// next one): the writer is closed from another goroutine at exactly that moment, the rotation goes on a millisecond later
		closed := make(chan struct{})
		var once sync.Once
		if i%2 == 0 {
			verifhook.SetPoint(func(name string, args ...interface{}) {
				if name == "memch" {
					once.Do(func() {
						go func() { w1.Close(); close(closed) }()
						time.Sleep(time.Millisecond)
					})
				}
			})
		} else {
			verifhook.SetPoint(nil)
		}
		w1.Start()
		f1.Feed(make([]byte, 4096))
		if i%2 == 0 {
			select {
			case <-closed:
			case <-time.After(5 * time.Second):
				hx.Fatal("try %d: the rotation point was not reached", i)
			}
			verifhook.SetPoint(nil)
		} else {
			// unforced: close while the ingest goroutine is somewhere in its append
			for j := 0; j < i%200; j++ {
				_ = j * j
			}
			w1.Close()
		}
		f1.CloseWith(io.EOF)
		time.Sleep(200 * time.Microsecond)
		_, right := ch.GetOffsetRange(id)
		f2 := hx.NewFeedReader()
		w2, err := ch.NewAofWritter(f2, right)
		if err != nil {
			panic(err)
		}
		w2.Start()
		f2.Feed(make([]byte, 2304))
		dl := time.Now().Add(5 * time.Second)
		for {
			if _, r := ch.GetOffsetRange(id); r >= right+2304 || time.Now().After(dl) {
				break
			}
			time.Sleep(50 * time.Microsecond)
		}
		_, end := ch.GetOffsetRange(id)
		rd, err := ch.NewReader(syncer.Offset{RunId: id, Offset: 1000})
		if err != nil {
			panic(err)
		}
		wt := usync.NewWaitCloser(nil)
		rd.Start(wt)
		got := int64(0)
		done := make(chan struct{})
		go func() {
			b := make([]byte, 8192)
			for got < end-1000 {
				k, err := rd.IoReader().Read(b)
				got += int64(k)
				if err != nil {
					break
				}
			}
			close(done)
		}()
		stalled := false
		select {
		case <-done:
		case <-time.After(3 * time.Second): // bytes that are cached arrive in microseconds; three seconds without the end is a reader that waits for ever
			stalls++
			stalled = true
			if stalls <= 3 {
				fmt.Fprintf(os.Stderr, "try %d: the cache holds [1000,%d), a reader from 1000 stalls after %d bytes\n", i, end, got)
			}
		}
		if tr != nil && (stalled || i < 20) {
			tr.Emit(map[string]interface{}{"ev": "Reset", "id": 9000000 + i, "backend": "memory"})
			tr.Emit(map[string]interface{}{"ev": "Op", "op": "aofwriter", "off": 1000})
			tr.Emit(map[string]interface{}{"ev": "Op", "op": "append", "n": right - 1000})
			tr.Emit(map[string]interface{}{"ev": "Op", "op": "aofwriter", "off": right})
			tr.Emit(map[string]interface{}{"ev": "Op", "op": "append", "n": end - right})
			tr.Emit(map[string]interface{}{"ev": "Obs", "o": "open", "r": 1, "off": 1000, "aof": true, "lazy": false})
			tr.Emit(map[string]interface{}{"ev": "Obs", "o": "deliver", "r": 1, "n": got, "want": end - 1000, "match": true, "own": true, "ended": false})
		}
		rd.Close()
		wt.Close(nil)
		f2.CloseWith(io.EOF)
		w2.Close()
		ch.Close()
	}
	fmt.Printf("tries=%d stalled_readers=%d\n", *n, stalls)
}
