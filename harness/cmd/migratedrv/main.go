// migratedrv drives the start-up bookkeeping of a bidirectional link on the real code - namespace
// resolution with the migration of the recovery state to the format of another replay mode
// (syncer.resolveBisyncCheckpointNameWithClient), checkpoint.UpdateCheckpoint and
// RedisOutput.StartPoint - against the fake standalone target.  The layouts the operation starts
// from are produced by the real bidirectional replay (sync / pipeline / parallel, optionally killed at a
// request).  The target dies before the (k+1)-th write request of the start-up, for every k; the next
// start runs to completion and the resume position it finds is compared with the one a start found
// before the operation (spec/trace/TraceMigrate.tla; the layout and the request index bind every case to
// spec/BisyncMigrate.tla, which computes the same position from the layout).
package main

import (
	"context"
	"errors"
	"flag"
	"fmt"
	"io"
	"os"
	"sort"
	"strconv"
	"strings"
	"time"

	"github.com/mgtv-tech/redis-GunYu/config"
	"github.com/mgtv-tech/redis-GunYu/pkg/redis/checkpoint"
	"github.com/mgtv-tech/redis-GunYu/pkg/redis/client"
	"github.com/mgtv-tech/redis-GunYu/syncer"

	"verifh/fakeredis"
	"verifh/hx"
)

const (
	idA = "aaaaaaaaaaaaaaaaaaaaaaaaaaaaaaaaaaaaaaaa"
	idB = "bbbbbbbbbbbbbbbbbbbbbbbbbbbbbbbbbbbbbbbb"
	// what a master that never failed over reports as its previous id
	idNone = "0000000000000000000000000000000000000000"
)

var modes = []string{"sync", "pipeline", "parallel"}

type unit struct {
	S, E int64
	Keys []string
}

type scenario struct {
	id       int
	m1, m2   string
	m3       string // mode of the start after the stop
	n        int    // units
	upto     int    // units fed before the operation (the rest is fed afterwards)
	crash1   int    // phase A: the target dies after this many requests (-1: none)
	root     bool   // the namespace holds a root position (a completed full sync) before the first unit
	failover bool   // the source reports a new id (idB, previous idA) from the operation on
	gap      bool   // frontier modes: the journal record of the lowest sequence number is missing (its lane had not committed when
	// the link stopped - on a cluster target lanes complete out of order; spec/BisyncFrontier.tla, bisyncdrv -cluster)
	resync   int    // > 0: after the first units a second full sync (same id) completed at the end of this unit
	start    int64
	units    []unit
	bytes    []byte
}

func replayMode(m string) config.ReplayMode {
	switch m {
	case "pipeline":
		return config.ReplayModePipeline
	case "parallel":
		return config.ReplayModeParallel
	}
	return config.ReplayModeSync
}

func isWrite(name string) bool {
	switch name {
	case "hgetall", "hget", "hmget", "zrangebyscore", "zrange", "exists", "type", "cluster", "command", "info", "ping", "select", "config", "readonly", "get", "multi":
		return false
	}
	return true
}

type runner struct {
	sc  *scenario
	srv *fakeredis.Server
}

func (rn *runner) cfg() config.RedisConfig {
	return config.RedisConfig{Addresses: []string{rn.srv.Addr()}, Type: config.RedisTypeStandalone, Otype: config.RedisTypeStandalone, Version: "7.0.0"}
}

func (rn *runner) output(mode, name, id string) *syncer.RedisOutput {
	return syncer.NewRedisOutput(syncer.RedisOutputConfig{
		InputName: "verif", CheckpointName: name, RunId: id, BisyncEnabled: true, CanTransaction: true,
		Redis: rn.cfg(), EnableResumeFromBreakPoint: true, TargetDb: -1,
		BatchCmdCount: 4, BatchTicker: time.Hour, BatchBufferSize: 1 << 30, KeepaliveTicker: time.Hour, UpdateCheckpointTicker: time.Hour,
		ReplayMode: replayMode(mode), Parallelism: 3, ReplayRdbParallel: 1, KeyExists: "replace",
		Stats: config.OutputStats{DisableLog: true},
	})
}

func (rn *runner) waitNoConns() {
	dl := time.Now().Add(10 * time.Second)
	for rn.srv.ConnCount() > 0 && time.Now().Before(dl) {
		time.Sleep(100 * time.Microsecond)
	}
	if rn.srv.ConnCount() > 0 {
		hx.Fatal("scenario %d: fake target still has %d open connections", rn.sc.id, rn.srv.ConnCount())
	}
}

type resume struct {
	Rid  string `json:"rid"`
	Off  int    `json:"off"`
	Db   int    `json:"db"`
	Err  string `json:"err,omitempty"`
	Name string `json:"-"`
	sp   syncer.StartPoint
	ro   *syncer.RedisOutput
}

// startUp is what newOutput + RedisInput do before any data flows: resolve the namespace for the configured mode,
// bring the checkpoint under the current id, ask the output for its start point
func (rn *runner) startUp(mode string, ids []string) resume {
	cli, err := client.NewRedis(rn.cfg())
	if err != nil {
		if hx.PortExhausted(err) {
			hx.Fatal("%v", err)
		}
		return resume{Rid: "!", Off: -1, Err: "connect: " + err.Error()}
	}
	name, err := syncer.VerifResolveBisyncNamespace(cli, rn.cfg(), ids, replayMode(mode))
	if err == nil {
		err = checkpoint.UpdateCheckpoint(cli, name, ids)
	}
	cli.Close()
	if err != nil {
		rn.waitNoConns()
		return resume{Rid: "!", Off: -1, Err: err.Error()}
	}
	ro := rn.output(mode, name, ids[0])
	sp, err := ro.StartPoint(context.Background(), ids)
	rn.waitNoConns()
	if err != nil {
		if hx.PortExhausted(err) {
			hx.Fatal("%v", err)
		}
		return resume{Rid: "!", Off: -1, Err: err.Error()}
	}
	r := resume{Off: int(sp.Offset), Db: sp.DbId, Name: name, sp: sp, ro: ro}
	switch sp.RunId {
	case idA:
		r.Rid = "A"
	case idB:
		r.Rid = "B"
	default:
		r.Rid, r.Off = "?", -1
	}
	return r
}

// applied[u] = how often the whole unit was executed by the target
func (rn *runner) applied() []int {
	cnt := make([]int, len(rn.sc.units))
	seen := map[string]int{}
	for _, e := range rn.srv.LogCopy() {
		if e.Name == "set" && len(e.Args) > 0 && strings.HasPrefix(string(e.Args[0]), "k:") && e.Err == "" {
			seen[string(e.Args[0])]++
		}
	}
	for u, un := range rn.sc.units {
		c := 1 << 30
		for _, k := range un.Keys {
			if seen[k] < c {
				c = seen[k]
			}
		}
		cnt[u] = c
	}
	return cnt
}

// committedPrefix: end offset of the longest prefix of units that are all applied
func (rn *runner) committedPrefix() int {
	off := rn.sc.start
	for u, c := range rn.applied() {
		if c == 0 {
			break
		}
		off = rn.sc.units[u].E
	}
	return int(off)
}

// replay feeds the units [.., upto) from the resume position; crashAfter >= 0: the target dies after that many requests
func (rn *runner) replay(r resume, ids []string, upto int, crashAfter int) (died bool, errText string) {
	sc := rn.sc
	end := sc.start
	if upto > 0 {
		end = sc.units[upto-1].E
	}
	if int64(r.Off) < sc.start || int64(r.Off) > end {
		return false, ""
	}
	ctx, cancel := context.WithCancel(context.Background())
	defer cancel()
	feed := hx.NewFeedReader()
	feed.Feed(sc.bytes[int64(r.Off)-sc.start : end-sc.start])
	if crashAfter >= 0 {
		rn.srv.SetCrashAfter(rn.srv.RecvCount() + crashAfter)
	}
	done := make(chan error, 1)
	go func() { done <- r.ro.Send(ctx, hx.NewChanReader(feed, true, r.sp.RunId, int64(r.Off), -1)) }()
	deadline := time.Now().Add(4 * time.Second)
	ended := false
	var sendErr error
	for time.Now().Before(deadline) {
		select {
		case sendErr = <-done:
			ended = true
		default:
		}
		if ended || rn.srv.IsCrashed() {
			break
		}
		all := true
		for u, c := range rn.applied() {
			if u < upto && sc.units[u].E > int64(r.Off) && c == 0 {
				all = false
			}
		}
		if all {
			break
		}
		time.Sleep(300 * time.Microsecond)
	}
	if !ended && !rn.srv.IsCrashed() {
		feed.CloseWith(io.EOF)
		select {
		case sendErr = <-done:
			ended = true
		case <-time.After(5 * time.Second):
		}
	}
	cancel()
	if !ended {
		select {
		case sendErr = <-done:
		case <-time.After(20 * time.Second):
			hx.Fatal("scenario %d: Send did not return", sc.id)
		}
	}
	if hx.PortExhausted(sendErr) {
		hx.Fatal("scenario %d: %v", sc.id, sendErr)
	}
	died = rn.srv.IsCrashed()
	rn.srv.Revive()
	rn.waitNoConns()
	if sendErr != nil && !errors.Is(sendErr, io.EOF) {
		errText = sendErr.Error()
		if len(errText) > 200 {
			errText = errText[:200]
		}
	}
	return died, errText
}

func (rn *runner) unitOf(off int64) int {
	if off == rn.sc.start {
		return 0
	}
	for u, un := range rn.sc.units {
		if un.E == off {
			return u + 1
		}
	}
	return -9
}

func ridName(id string) string {
	switch id {
	case idA:
		return "A"
	case idB:
		return "B"
	case "":
		return ""
	}
	return "?"
}

// layout projects the bookkeeping keys of the target onto the vocabulary of spec/BisyncMigrate.tla: positions are
// unit numbers (0 = the start offset, u = the end of unit u, -1 = "none yet", -9 = anything else); namespaces are numbered
// in the order of their names
func (rn *runner) layout() map[string]interface{} {
	srv := rn.srv
	hs := func(key string) map[string]string {
		v := srv.Get(0, key)
		if v == nil || v.Hash == nil {
			return nil
		}
		m := map[string]string{}
		for f, x := range v.Hash {
			m[f] = string(x)
		}
		return m
	}
	num := func(s string) int64 { n, _ := strconv.ParseInt(s, 10, 64); return n }
	names := map[string]bool{}
	rawIdx := hs(config.CheckpointKeyHashKey)
	for _, nm := range rawIdx {
		names[nm] = true
	}
	srv.Lock()
	keys := srv.Keys(0)
	srv.Unlock()
	for _, k := range keys {
		if strings.HasPrefix(k, checkpoint.BisyncCheckpointKeyPrefix+":") && !strings.HasSuffix(k, ":frontier") {
			names[k] = true
		}
		if strings.HasPrefix(k, checkpoint.BisyncKeyPrefix+":") {
			// redis-gunyu-bisync:<name>:<kind>:{tag}...  (the name itself contains one colon)
			rest := strings.TrimPrefix(k, checkpoint.BisyncKeyPrefix+":")
			if i := strings.Index(rest, ":"); i >= 0 {
				if j := strings.Index(rest[i+1:], ":"); j >= 0 {
					names[rest[:i+1+j]] = true
				}
			}
		}
		if strings.HasSuffix(k, ":frontier") {
			names[strings.TrimSuffix(k, ":frontier")] = true
		}
	}
	var sorted []string
	for nm := range names {
		sorted = append(sorted, nm)
	}
	sort.Strings(sorted)
	if len(sorted) > 4 {
		hx.Fatal("scenario %d: %d namespaces on the target", rn.sc.id, len(sorted))
	}
	label := map[string]int{}
	for i, nm := range sorted {
		label[nm] = i + 1
	}
	norec := func() map[string]interface{} { return map[string]interface{}{"rid": "", "seq": 0, "u": -1} }
	rec := func(h map[string]string) map[string]interface{} {
		return map[string]interface{}{"rid": ridName(h["run_id"]), "seq": num(h["unit_seq"]), "u": rn.unitOf(num(h["end_offset"]))}
	}
	tag := checkpoint.BisyncSlotTag(0)
	nss := []interface{}{}
	for i := 0; i < 4; i++ {
		d := map[string]interface{}{"exists": false, "mode": "none", "root": []interface{}{}, "snap": norec(), "latest": norec(), "jour": []interface{}{}, "dang": false}
		nss = append(nss, d)
		if i >= len(sorted) {
			continue
		}
		nm := sorted[i]
		d["exists"] = true
		if root := hs(nm); root != nil {
			if m, ok := root["bisync_mode"]; ok {
				d["mode"] = m
			}
			roots := []interface{}{}
			for _, id := range []string{idA, idB} {
				if off, ok := root[id+"_offset"]; ok {
					u := -1 // "none yet"
					if num(off) >= 0 {
						u = rn.unitOf(num(off))
					}
					roots = append(roots, map[string]interface{}{"rid": ridName(id), "u": u})
				}
			}
			d["root"] = roots
		}
		if f := hs(checkpoint.BisyncFrontierKey(nm)); f != nil {
			d["snap"] = rec(f)
		}
		if l := hs(checkpoint.BisyncLatestCheckpointKey(nm, tag)); l != nil {
			d["latest"] = rec(l)
		}
		jour := []interface{}{}
		if z := srv.Get(0, checkpoint.BisyncCommitIndexKey(nm, tag)); z != nil && z.ZSet != nil {
			var members []string
			for m := range z.ZSet {
				members = append(members, m)
			}
			sort.Strings(members)
			for _, m := range members {
				if h := hs(m); h != nil {
					jour = append(jour, rec(h))
				} else {
					d["dang"] = true
				}
			}
		}
		d["jour"] = jour
	}
	li := map[string]int{"A": 0, "B": 0}
	for rid, nm := range rawIdx {
		if r := ridName(rid); r == "A" || r == "B" {
			li[r] = label[nm]
		}
	}
	return map[string]interface{}{"idx": li, "ns": nss}
}

// active: the namespace the index points to for ids, as a layout record (an absent one when there is none)
func active(lay map[string]interface{}, ids []string) interface{} {
	idx := lay["idx"].(map[string]int)
	nss := lay["ns"].([]interface{})
	for _, id := range ids {
		if n := idx[ridName(id)]; n > 0 {
			return nss[n-1]
		}
	}
	return map[string]interface{}{"exists": false, "mode": "none", "root": []interface{}{}, "snap": map[string]interface{}{"rid": "", "seq": 0, "u": -1},
		"latest": map[string]interface{}{"rid": "", "seq": 0, "u": -1}, "jour": []interface{}{}, "dang": false}
}

func compact(lay map[string]interface{}) string {
	var b strings.Builder
	fmt.Fprintf(&b, "idx=%v", lay["idx"])
	for i, x := range lay["ns"].([]interface{}) {
		d := x.(map[string]interface{})
		if d["exists"] == true {
			fmt.Fprintf(&b, " N%d{mode=%v root=%v snap=%v latest=%v jour=%v dang=%v}", i+1, d["mode"], d["root"], d["snap"], d["latest"], d["jour"], d["dang"])
		}
	}
	return b.String()
}

// dropFirstJournalRecord removes the journal record with the lowest sequence number (record and index member) when the
// namespace holds at least two records and no frontier snapshot: the state a stop leaves when the first lane had not committed
func (rn *runner) dropFirstJournalRecord() {
	cli, err := client.NewRedis(rn.cfg())
	if err != nil {
		hx.Fatal("%v", err)
	}
	defer func() { cli.Close(); rn.waitNoConns() }()
	nm, _, err := checkpoint.GetCheckpointHash(cli, []string{idA, idNone})
	if err != nil || nm == "" {
		return
	}
	if v := rn.srv.Get(0, checkpoint.BisyncFrontierKey(nm)); v != nil {
		return
	}
	idx := checkpoint.BisyncCommitIndexKey(nm, checkpoint.BisyncSlotTag(0))
	z := rn.srv.Get(0, idx)
	if z == nil || len(z.ZSet) < 2 {
		return
	}
	first, best := "", 0.0
	for m, sc := range z.ZSet {
		if first == "" || sc < best {
			first, best = m, sc
		}
	}
	if _, err := cli.Do("del", first); err != nil {
		hx.Fatal("%v", err)
	}
	if _, err := cli.Do("zrem", idx, first); err != nil {
		hx.Fatal("%v", err)
	}
}

// ownMode: the mode marker of the namespace the index points to (the mode a refused start leaves the operator to go back to)
func (rn *runner) ownMode(ids []string, dflt string) string {
	cli, err := client.NewRedis(rn.cfg())
	if err != nil {
		hx.Fatal("%v", err)
	}
	defer func() { cli.Close(); rn.waitNoConns() }()
	nm, _, err := checkpoint.GetCheckpointHash(cli, ids)
	if err != nil || nm == "" {
		return dflt
	}
	m, ok, err := checkpoint.LoadBisyncNamespaceMode(cli, nm)
	if err != nil || !ok {
		return dflt
	}
	return string(m)
}

func genScenario(r *hx.Rng, id int) *scenario {
	sc := &scenario{id: id, start: int64(300 + r.Intn(3000)), n: 2 + r.Intn(4), crash1: -1, root: !r.Chance(12)}
	sc.m1 = modes[r.Intn(3)]
	sc.m2 = modes[r.Intn(3)]
	for sc.m2 == sc.m1 && !r.Chance(10) {
		sc.m2 = modes[r.Intn(3)]
	}
	sc.m3 = sc.m2
	if r.Chance(25) {
		sc.m3 = modes[r.Intn(3)] // the operator changes the mode again (or back) after the stop
	}
	sc.upto = r.Intn(sc.n + 1)
	sc.failover = r.Chance(20)
	if r.Chance(20) {
		sc.resync = sc.upto + r.Intn(sc.n-sc.upto+1)
	}
	sc.gap = sc.m1 != "sync" && sc.upto >= 2 && r.Chance(35)
	off := sc.start
	add := func(args ...[]byte) {
		b := hx.EncodeCmd(args...)
		sc.bytes = append(sc.bytes, b...)
		off += int64(len(b))
	}
	for u := 0; u < sc.n; u++ {
		un := unit{S: off}
		nc := 1
		txn := r.Chance(35)
		if txn {
			nc = 1 + r.Intn(2)
			add([]byte("MULTI"))
		}
		for c := 0; c < nc; c++ {
			k := fmt.Sprintf("k:%d:%d", u, c)
			un.Keys = append(un.Keys, k)
			add([]byte("set"), []byte(k), []byte(fmt.Sprintf("v%d.%d", u, c)))
		}
		if txn {
			add([]byte("EXEC"))
		}
		un.E = off
		sc.units = append(sc.units, un)
		if r.Chance(20) {
			add([]byte("PING"))
		}
	}
	return sc
}

func runScenario(sc *scenario, r *hx.Rng, tr *hx.Trace, stride int) (cases int, total int) {
	srv := fakeredis.New()
	srv.KeepRaw = false
	srv.RealClock = true
	srv.CountFn = isWrite
	if _, err := srv.Start(); err != nil {
		hx.Fatal("%v", err)
	}
	defer srv.Close()
	rn := &runner{sc: sc, srv: srv}

	// phase A: a link in mode m1 - first start, (full sync = root position), incremental replay of the first units
	idsA := []string{idA, idNone}
	r0 := rn.startUp(sc.m1, idsA)
	if r0.Rid == "!" {
		hx.Fatal("scenario %d: first start failed: %s", sc.id, r0.Err)
	}
	if sc.root {
		cli, err := client.NewRedis(rn.cfg())
		if err != nil {
			hx.Fatal("%v", err)
		}
		if err := checkpoint.SetCheckpoint(cli, &checkpoint.CheckpointInfo{Key: r0.Name, RunId: idA, Offset: sc.start, Version: config.Version}); err != nil {
			hx.Fatal("seed: %v", err)
		}
		cli.Close()
		rn.waitNoConns()
		r1 := rn.startUp(sc.m1, idsA)
		if r1.Rid != "A" || int64(r1.Off) != sc.start {
			hx.Fatal("scenario %d: start after the seeded full sync: %+v", sc.id, r1)
		}
		if sc.upto > 0 {
			c1 := -1
			if r.Chance(40) {
				c1 = 2 + r.Intn(8*sc.upto)
			}
			sc.crash1 = c1
			died, _ := rn.replay(r1, idsA, sc.upto, c1)
			if died && r.Chance(50) {
				// one more run in the old mode after the kill (it tidies the journal) - or not
				r2 := rn.startUp(sc.m1, idsA)
				if r2.Rid == "A" {
					rn.replay(r2, idsA, sc.upto, -1)
				}
			}
		}
	}
	ids := idsA
	if sc.failover {
		ids = []string{idB, idA}
	}
	snapOff := int64(-1)
	if sc.root && sc.resync > 0 {
		// a full resynchronisation under the same id (the source lost its backlog): the position is voided, the snapshot
		// is replayed (it contains the units up to its offset), the position of the completed full sync is stored
		snapOff = sc.units[sc.resync-1].E
		cli, err := client.NewRedis(rn.cfg())
		if err != nil {
			hx.Fatal("%v", err)
		}
		nm, _, err := checkpoint.GetCheckpointHash(cli, idsA)
		if err != nil || nm == "" {
			hx.Fatal("scenario %d: namespace lost before the resync: %v", sc.id, err)
		}
		if err := checkpoint.ResetCheckpoint(cli, nm, []string{idA, idA}); err != nil {
			hx.Fatal("reset: %v", err)
		}
		if err := checkpoint.SetCheckpoint(cli, &checkpoint.CheckpointInfo{Key: nm, RunId: idA, Offset: snapOff, Version: config.Version}); err != nil {
			hx.Fatal("resync: %v", err)
		}
		cli.Close()
		rn.waitNoConns()
	}
	if sc.gap {
		rn.dropFirstJournalRecord()
	}
	s0 := srv.SnapshotDBs()
	lay := rn.layout()
	committed := rn.committedPrefix()
	if int64(committed) < snapOff {
		committed = int(snapOff)
	}

	// the position a start with the unchanged configuration finds
	before := rn.startUp(sc.m1, ids)
	srv.RestoreDBs(s0)

	// the operation, uninterrupted: how many write requests does the start-up in mode m2 issue?
	srv.SetCrashAfterCounted(1 << 30)
	full := rn.startUp(sc.m2, ids)
	total = srv.CountedCount()
	srv.SetCrashAfterCounted(-1)
	layFull := rn.layout()
	emit := func(k int, after resume, final resume, lost []int, layAfter map[string]interface{}) {
		old := resume{Rid: "", Off: -1}
		if after.Rid == "!" {
			// the start in the new mode was refused: is the position still there for the mode the namespace is marked with?
			old = rn.startUp(rn.ownMode(ids, sc.m1), ids)
		}
		if lost == nil {
			lost = []int{}
		}
		tr.Emit(map[string]interface{}{"afterold": old, "afteroldu": rn.unitOf(int64(old.Off)),"ev": "Case", "id": sc.id, "op": "migrate:" + sc.m1 + ">" + sc.m2 + ">" + sc.m3, "m1": sc.m1, "m2": sc.m2, "m3": sc.m3,
			"k": k, "total": total, "before": before, "after": after, "final": final, "reported": "cur", "failover": sc.failover,
			"lay": lay, "act": active(layAfter, ids), "committed": committed, "committedu": rn.unitOf(int64(committed)), "n": sc.n, "upto": sc.upto, "lost": lost,
			"beforeu": rn.unitOf(int64(before.Off)), "afteru": rn.unitOf(int64(after.Off)),
			"state": compact(lay), "datadbs": "0", "crash1": sc.crash1, "root": sc.root, "resync": sc.resync, "gap": sc.gap})
	}
	// go on from the uninterrupted start-up to the end of the stream, then one more start
	finish := func(after resume, mode string) (resume, []int) {
		if after.Rid != "A" && after.Rid != "B" {
			return resume{Rid: "-", Off: -1}, nil
		}
		if int64(after.Off) < sc.start {
			return resume{Rid: "-", Off: -1}, nil
		}
		rn.replay(after, ids, sc.n, -1)
		fin := rn.startUp(mode, ids)
		var lost []int
		for u, c := range rn.applied() {
			if c == 0 && u+1 > sc.resync {
				lost = append(lost, u+1)
			}
		}
		if lost == nil {
			lost = []int{}
		}
		return fin, lost
	}
	fin, lost := finish(full, sc.m2)
	fullCase := *sc
	_ = fullCase
	{
		m3 := sc.m3
		sc.m3 = sc.m2
		emit(-1, full, fin, lost, layFull)
		sc.m3 = m3
	}
	cases = 1
	for k := r.Intn(stride); k < total; k += stride {
		srv.RestoreDBs(s0)
		srv.SetCrashAfterCounted(k)
		cut := rn.startUp(sc.m2, ids)
		if !srv.IsCrashed() && cut.Rid != "!" {
			// fewer writes than in the uninterrupted pass (time-dependent branch): nothing was cut
			srv.Revive()
			continue
		}
		srv.Revive()
		rn.waitNoConns()
		after := rn.startUp(sc.m3, ids)
		layAfter := rn.layout()
		fin, lost := finish(after, sc.m3)
		emit(k, after, fin, lost, layAfter)
		cases++
	}
	return cases, total
}

func main() {
	out := flag.String("out", "trace.ndjson", "")
	statsPath := flag.String("stats", "stats.json", "")
	seed := flag.Uint64("seed", 1, "")
	n := flag.Int("n", 20, "scenarios")
	stride := flag.Int("stride", 1, "crash point stride")
	shard := flag.Int("shard", 0, "")
	shards := flag.Int("shards", 1, "")
	flag.Parse()
	hx.QuietLogs()
	tr, err := hx.NewTrace(*out)
	if err != nil {
		hx.Fatal("%v", err)
	}
	wd := hx.NewWatchdog(120 * time.Second)
	nScen, nCases := 0, 0
	byOp := map[string]int{}
	var samples []interface{}
	for b := 0; b < *n; b++ {
		if b%*shards != *shard {
			continue
		}
		r := hx.NewRng(*seed*7919 + uint64(b))
		sc := genScenario(r, b+1)
		wd.Kick(fmt.Sprintf("scenario %d %s>%s>%s", sc.id, sc.m1, sc.m2, sc.m3))
		c, total := runScenario(sc, r, tr, *stride)
		nScen++
		nCases += c
		byOp[sc.m1+">"+sc.m2]++
		if len(samples) < 3 {
			samples = append(samples, map[string]interface{}{"from": sc.m1, "to": sc.m2, "then": sc.m3, "units": sc.n, "fed_before": sc.upto, "write_requests_of_start_up": total, "failover": sc.failover})
		}
	}
	if err := tr.Close(); err != nil {
		hx.Fatal("%v", err)
	}
	hx.WriteJSON(*statsPath, map[string]interface{}{"scenarios": nScen, "cases": nCases, "by_op": byOp, "samples": samples})
	fmt.Fprintf(os.Stderr, "migratedrv: %d scenarios, %d cases %v\n", nScen, nCases, byOp)
}
