// loopdrv closes the bidirectional loop for C13: two fake sites with the
// propagation personality of a Redis master, two real RedisOutputs with
// BisyncEnabled, each replaying the *other* site's replication stream
// (optionally after a snapshot of that site) while harness clients write at both
// sites.  What the tool's connections applied at each site, the clients' own
// writes in their propagated form, the final contents and whether the exchange
// went quiet are recorded for spec/trace/TraceLoop.tla.
package main

import (
	"bufio"
	"bytes"
	"context"
	"crypto/sha1"
	"encoding/binary"
	"encoding/hex"
	"flag"
	"fmt"
	"net"
	"os"
	"sort"
	"strconv"
	"strings"
	"sync"
	"time"

	"github.com/mgtv-tech/redis-GunYu/config"
	"github.com/mgtv-tech/redis-GunYu/pkg/rdb"
	"github.com/mgtv-tech/redis-GunYu/pkg/redis/checkpoint"
	"github.com/mgtv-tech/redis-GunYu/pkg/redis/client"
	"github.com/mgtv-tech/redis-GunYu/syncer"

	"verifh/fakeredis"
	"verifh/hx"
	"verifh/rdbgen"
)

var runIDs = [2]string{"aaaaaaaaaaaaaaaaaaaaaaaaaaaaaaaaaaaaaaaa", "bbbbbbbbbbbbbbbbbbbbbbbbbbbbbbbbbbbbbbbb"}
var siteName = [2]string{"A", "B"}

// link i replays site i's stream into site 1-i
var cpNames = [2]string{"redis-gunyu-checkpoint-bisync:linkab", "redis-gunyu-checkpoint-bisync:linkba"}

const bisyncNS = "redis-gunyu-bisync:"

func reserved(key []byte) bool {
	return bytes.HasPrefix(key, []byte(bisyncNS)) || bytes.HasPrefix(key, []byte("redis-gunyu-checkpoint")) || bytes.HasPrefix(key, []byte("/redis-gunyu"))
}

type op struct {
	txn  bool
	cmds [][][]byte // name first
}

type scenario struct {
	id       int
	mode     string
	wrap1    bool
	snapshot bool
	restore  bool
	left     bool // leftovers of an older link incarnation in the reserved namespace
	restart  int  // -1, or the link (0 / 1) that is stopped and started again while the loop runs
	chunk    int  // value-chunking threshold of the snapshot parser (0 = default 16 MiB): big values travel in several bins
	ops      [2][]op
	data     [2][]*rdbgen.Entry
	base     [2]int64
}

func b(s string) []byte { return []byte(s) }

// values and keys that merely look like bookkeeping
func lookalike(r *hx.Rng, site int) []byte {
	cp := cpNames[1-site]
	switch r.Intn(5) {
	case 0:
		return b(checkpoint.BisyncMarkerKey(cp, "slot-0"))
	case 1:
		return b(`{"version":1,"run_id":"` + runIDs[site] + `","unit_seq":3,"start_offset":10,"end_offset":20}`)
	case 2:
		return b(bisyncNS + "x")
	case 3:
		return b("redis-gunyu-checkpoint-bisync:linkab")
	default:
		return b("/redis-gunyu/lease")
	}
}

func genOps(r *hx.Rng, site int, n int, big bool) []op {
	p := strings.ToLower(siteName[site]) + ":"
	var ops []op
	cnt := 0
	val := func() []byte {
		cnt++
		if r.Chance(25) {
			return append(lookalike(r, site), b(fmt.Sprintf("#%d", cnt))...)
		}
		return append(b(fmt.Sprintf("v%s%d:", siteName[site], cnt)), r.Bytes(r.Intn(6))...)
	}
	key := func() []byte {
		switch r.Intn(8) {
		case 0:
			return b(p + "x" + bisyncNS + strconv.Itoa(r.Intn(3))) // reserved text, but not as a prefix
		case 1:
			return b(p + "redis-gunyu-checkpoint" + strconv.Itoa(r.Intn(3)))
		}
		return b(p + "k" + strconv.Itoa(r.Intn(6)))
	}
	one := func() [][]byte {
		k := key()
		switch r.Intn(10) {
		case 0:
			return [][]byte{b("set"), append(k, 's'), val()}
		case 1:
			return [][]byte{b("set"), append(k, 's'), val(), b("px"), b(strconv.Itoa(100000 + r.Intn(100000)))}
		case 2:
			return [][]byte{b("setex"), append(k, 's'), b(strconv.Itoa(1000 + r.Intn(100))), val()}
		case 3:
			return [][]byte{b("rpush"), append(k, 'l'), val()}
		case 4:
			return [][]byte{b("hset"), append(k, 'h'), b("f" + strconv.Itoa(r.Intn(3))), val()}
		case 5:
			return [][]byte{b("sadd"), append(k, 't'), b("m" + strconv.Itoa(r.Intn(2)))} // repeats are no-ops
		case 6:
			return [][]byte{b("del"), append(k, "sslh"[r.Intn(4)])} // often a no-op
		case 7:
			return [][]byte{b("expire"), append(k, 's'), b(strconv.Itoa(1000 + r.Intn(1000)))}
		case 8:
			return [][]byte{b("mset"), append(k, 's'), val(), append(key(), 's'), val()}
		default:
			return [][]byte{b("SET"), append(k, 's'), val()} // upper-case name
		}
	}
	if big {
		// one very large transaction (a bulk loader, the effects of a script): thousands of commands between MULTI and EXEC
		o := op{txn: true}
		m := 4090 + r.Intn(600)
		for j := 0; j < m; j++ {
			o.cmds = append(o.cmds, [][]byte{b("rpush"), b(p + "bigl"), b(fmt.Sprintf("e%d", j))})
		}
		ops = append(ops, o)
	}
	for i := 0; i < n; i++ {
		if r.Chance(35) {
			o := op{txn: true}
			for j := 0; j < 1+r.Intn(3); j++ {
				o.cmds = append(o.cmds, one())
			}
			ops = append(ops, o)
		} else {
			ops = append(ops, op{cmds: [][][]byte{one()}})
		}
	}
	return ops
}

func genData(r *hx.Rng, site int) []*rdbgen.Entry {
	p := strings.ToLower(siteName[site]) + ":d"
	var out []*rdbgen.Entry
	n := 1 + r.Intn(5)
	for i := 0; i < n; i++ {
		e := &rdbgen.Entry{Key: b(p + strconv.Itoa(i))}
		switch r.Intn(5) {
		case 0:
			e.Val, e.Enc = rdbgen.Val{Type: "string", Str: append(b("sv"), r.Bytes(r.Intn(20))...)}, "raw"
		case 1:
			e.Val, e.Enc = rdbgen.Val{Type: "list", List: [][]byte{b("a"), b("b" + strconv.Itoa(i)), b("12")}}, []string{"quicklist", "quicklist2", "ziplist"}[r.Intn(3)]
		case 2:
			e.Val, e.Enc = rdbgen.Val{Type: "hash", Hash: [][2][]byte{{b("f"), b("v" + strconv.Itoa(i))}, {b("g"), lookalike(r, site)}}}, []string{"table", "listpack", "ziplist"}[r.Intn(3)]
		case 3:
			e.Val, e.Enc = rdbgen.Val{Type: "set", Set: [][]byte{b("m1"), b("m" + strconv.Itoa(i+2))}}, []string{"table", "listpack"}[r.Intn(2)]
		default:
			e.Val, e.Enc = rdbgen.Val{Type: "zset", ZSet: []rdbgen.ZM{{M: b("z1"), S: 1.5}, {M: b("z2"), S: float64(i)}}}, []string{"skiplist", "listpack", "ziplist"}[r.Intn(3)]
		}
		if r.Chance(30) {
			e.ExpireAtMs = time.Now().UnixMilli() + 3600_000 + int64(r.Intn(1000))
		}
		out = append(out, e)
	}
	// values large enough to be split into several bins when the chunking threshold is lowered
	if r.Chance(60) {
		e := &rdbgen.Entry{Key: b(p + "big")}
		switch r.Intn(3) {
		case 0:
			v := rdbgen.Val{Type: "list"}
			for j := 0; j < 6+r.Intn(10); j++ {
				v.List = append(v.List, b(fmt.Sprintf("elem-%d-%s", j, siteName[site])))
			}
			e.Val, e.Enc = v, []string{"quicklist", "quicklist2", "linked"}[r.Intn(3)]
		case 1:
			v := rdbgen.Val{Type: "hash"}
			for j := 0; j < 6+r.Intn(10); j++ {
				v.Hash = append(v.Hash, [2][]byte{b(fmt.Sprintf("field-%d", j)), b(fmt.Sprintf("value-%d-%s", j, siteName[site]))})
			}
			e.Val, e.Enc = v, "table"
		default:
			v := rdbgen.Val{Type: "set"}
			for j := 0; j < 6+r.Intn(10); j++ {
				v.Set = append(v.Set, b(fmt.Sprintf("member-%d-%s", j, siteName[site])))
			}
			e.Val, e.Enc = v, "table"
		}
		out = append(out, e)
	}
	return out
}

// leftovers of an older incarnation of the link that targets this site
func leftovers(site int) []*rdbgen.Entry {
	old := "redis-gunyu-checkpoint-bisync:old" + siteName[site]
	return []*rdbgen.Entry{
		{Key: b(checkpoint.BisyncMarkerKey(old, "slot-0")), Val: rdbgen.Val{Type: "string", Str: b(`{"unit_seq":9}`)}, Enc: "raw", ExpireAtMs: time.Now().UnixMilli() + 7200_000},
		{Key: b(checkpoint.BisyncLatestCheckpointKey(old, "slot-0")), Val: rdbgen.Val{Type: "hash", Hash: [][2][]byte{{b("unit_seq"), b("9")}, {b("end_offset"), b("77")}}}, Enc: "table"},
		{Key: b(checkpoint.BisyncCommitRecordKey(old, "slot-0", 4)), Val: rdbgen.Val{Type: "hash", Hash: [][2][]byte{{b("unit_seq"), b("4")}}}, Enc: "listpack"},
		{Key: b(checkpoint.BisyncCommitIndexKey(old, "slot-0")), Val: rdbgen.Val{Type: "zset", ZSet: []rdbgen.ZM{{M: b("x"), S: 4}}}, Enc: "skiplist"},
		{Key: b(old), Val: rdbgen.Val{Type: "hash", Hash: [][2][]byte{{b(runIDs[1-site] + "_offset"), b("55")}}}, Enc: "table"},
	}
}

func toFake(v rdbgen.Val) *fakeredis.Value {
	switch v.Type {
	case "string":
		return &fakeredis.Value{Type: "string", Str: v.Str}
	case "list":
		return &fakeredis.Value{Type: "list", List: v.List}
	case "set":
		o := &fakeredis.Value{Type: "set", Set: map[string]struct{}{}}
		for _, e := range v.Set {
			o.Set[string(e)] = struct{}{}
		}
		return o
	case "hash":
		o := &fakeredis.Value{Type: "hash", Hash: map[string][]byte{}}
		for _, p := range v.Hash {
			o.Hash[string(p[0])] = p[1]
		}
		return o
	case "zset":
		o := &fakeredis.Value{Type: "zset", ZSet: map[string]float64{}}
		for _, m := range v.ZSet {
			o.ZSet[string(m.M)] = m.S
		}
		return o
	}
	return nil
}

// canon renders a value for comparison between the sites
func canon(v *fakeredis.Value) string {
	if v == nil {
		return "<none>"
	}
	var parts []string
	switch v.Type {
	case "string":
		parts = []string{hex.EncodeToString(v.Str)}
	case "list":
		for _, e := range v.List {
			parts = append(parts, hex.EncodeToString(e))
		}
	case "set":
		for k := range v.Set {
			parts = append(parts, hex.EncodeToString([]byte(k)))
		}
		sort.Strings(parts)
	case "hash":
		for k, x := range v.Hash {
			parts = append(parts, hex.EncodeToString([]byte(k))+"="+hex.EncodeToString(x))
		}
		sort.Strings(parts)
	case "zset":
		for k, x := range v.ZSet {
			parts = append(parts, hex.EncodeToString([]byte(k))+"="+strconv.FormatFloat(x, 'g', -1, 64))
		}
		sort.Strings(parts)
	case "opaque":
		if ov, ok := v.Opaque.(*fakeredis.Value); ok {
			c := *ov
			c.ExpireAt = v.ExpireAt
			return canon(&c)
		}
	}
	return fmt.Sprintf("%s[%s]", v.Type, strings.Join(parts, ","))
}

// compact replaces every run of more than 64 consecutive business commands by one entry that names the run by its digest and
// length (the monitor compares units as sequences of strings; a transaction of thousands of commands is one string then)
func compact(kinds []string, strs []string) ([]string, []string) {
	var ok, os []string
	for i := 0; i < len(kinds); {
		j := i
		for j < len(kinds) && kinds[j] == "biz" {
			j++
		}
		if j-i > 64 {
			h := sha1.New()
			for _, x := range strs[i:j] {
				h.Write([]byte(x))
				h.Write([]byte{0})
			}
			ok = append(ok, "biz")
			os = append(os, fmt.Sprintf("digest:%x:%d", h.Sum(nil), j-i))
			i = j
			continue
		}
		if j == i {
			j = i + 1
		}
		ok = append(ok, kinds[i:j]...)
		os = append(os, strs[i:j]...)
		i = j
	}
	return ok, os
}

func cmdStr(cm [][]byte) string {
	var sb strings.Builder
	sb.WriteString(strings.ToLower(string(cm[0])))
	for _, a := range cm[1:] {
		sb.WriteByte(' ')
		sb.WriteString(hex.EncodeToString(a))
	}
	return sb.String()
}

// ---------------------------------------------------------------------------

type cliConn struct {
	c net.Conn
	r *bufio.Reader
}

func dial(addr, tag string) *cliConn {
	c, err := net.Dial("tcp", addr)
	if err != nil {
		hx.Fatal("dial: %v", err)
	}
	cc := &cliConn{c: c, r: bufio.NewReader(c)}
	cc.do(b("client"), b("setname"), b(tag))
	return cc
}

// skipReply consumes one RESP reply
func (cc *cliConn) skipReply() {
	line, err := cc.r.ReadString('\n')
	if err != nil {
		hx.Fatal("client read: %v", err)
	}
	switch line[0] {
	case '$':
		n, _ := strconv.Atoi(strings.TrimSpace(line[1:]))
		if n >= 0 {
			buf := make([]byte, n+2)
			if _, err := readFull(cc.r, buf); err != nil {
				hx.Fatal("client read: %v", err)
			}
		}
	case '*':
		n, _ := strconv.Atoi(strings.TrimSpace(line[1:]))
		for i := 0; i < n; i++ {
			cc.skipReply()
		}
	}
}

func readFull(r *bufio.Reader, buf []byte) (int, error) {
	n := 0
	for n < len(buf) {
		m, err := r.Read(buf[n:])
		n += m
		if err != nil {
			return n, err
		}
	}
	return n, nil
}

func (cc *cliConn) do(args ...[]byte) {
	if _, err := cc.c.Write(hx.EncodeCmd(args...)); err != nil {
		hx.Fatal("client write: %v", err)
	}
	cc.skipReply()
}

// ---------------------------------------------------------------------------

type linkRun struct {
	idx         int
	ro          *syncer.RedisOutput
	mu          sync.Mutex // feed and fed change when the link is restarted
	feed        *hx.FeedReader
	fed         int
	stop        context.CancelFunc
	restartNote string
	done        chan error
	rdbErr      error
	started     bool
}

func newOutput(sc *scenario, i int, target *fakeredis.Server) *syncer.RedisOutput {
	mode := config.ReplayModeSync
	switch sc.mode {
	case "pipeline":
		mode = config.ReplayModePipeline
	case "parallel":
		mode = config.ReplayModeParallel
	}
	return syncer.NewRedisOutput(syncer.RedisOutputConfig{
		InputName: "site" + siteName[i], CheckpointName: cpNames[i], RunId: runIDs[i], BisyncEnabled: true, CanTransaction: true,
		Redis:                      config.RedisConfig{Addresses: []string{target.Addr()}, Type: config.RedisTypeStandalone, Otype: config.RedisTypeStandalone, Version: "7.0.0"},
		EnableResumeFromBreakPoint: true, TargetDb: -1,
		BatchCmdCount: 4, BatchTicker: time.Hour, BatchBufferSize: 1 << 30, KeepaliveTicker: time.Hour, UpdateCheckpointTicker: time.Hour,
		ReplayMode: mode, Parallelism: 3, ReplayRdbParallel: 1, ReplayRdbEnableRestore: sc.restore, KeyExists: "replace",
		Stats: config.OutputStats{DisableLog: true},
	})
}

func runScenario(sc *scenario, tr *hx.Trace) (units int) {
	if sc.chunk > 0 {
		defer rdb.VerifSetMaxBinEntryBuffer(rdb.VerifSetMaxBinEntryBuffer(sc.chunk))
	}
	var sites [2]*fakeredis.Server
	payloads := map[string]*rdbgen.Entry{}
	var pmu sync.Mutex
	var rdbs [2][]byte
	for i := 0; i < 2; i++ {
		srv := fakeredis.New()
		srv.RealClock = true
		srv.Wrap1 = sc.wrap1
		if _, err := srv.Start(); err != nil {
			hx.Fatal("%v", err)
		}
		defer srv.Close()
		sites[i] = srv
	}
	for i := 0; i < 2; i++ {
		ents := append([]*rdbgen.Entry{}, sc.data[i]...)
		if sc.left {
			ents = append(ents, leftovers(i)...)
		}
		if sc.snapshot {
			data, err := rdbgen.Build(ents, 9+sc.id%3, sc.id%2 == 0)
			if err != nil {
				hx.Fatal("rdbgen: %v", err)
			}
			rdbs[i] = data
		}
		sites[i].Lock()
		sites[i].DBs[0] = fakeredis.DB{}
		for _, e := range ents {
			v := toFake(e.Val)
			v.ExpireAt = e.ExpireAtMs
			sites[i].DBs[0][string(e.Key)] = v
			payloads[string(e.Key)] = e
		}
		sites[i].Propagate = true
		sites[i].Unlock()
		sites[i].RestoreDecoder = func(key []byte, payload []byte) (*fakeredis.Value, string) {
			pmu.Lock()
			defer pmu.Unlock()
			e := payloads[string(key)]
			if e == nil || len(payload) < 10 {
				return nil, "Bad data format"
			}
			body, foot := payload[:len(payload)-10], payload[len(payload)-10:]
			if !bytes.Equal(body, e.Payload) || binary.LittleEndian.Uint64(foot[2:]) != hx.Crc64(0, payload[:len(payload)-8]) {
				return nil, "Bad data format"
			}
			return toFake(e.Val), ""
		}
	}
	ctx, cancel := context.WithCancel(context.Background())
	defer cancel()
	var links [2]*linkRun
	var wg sync.WaitGroup
	startErr := make([]string, 2)
	for i := 0; i < 2; i++ {
		i := i
		target := sites[1-i]
		lk := &linkRun{idx: i, feed: hx.NewFeedReader(), done: make(chan error, 1)}
		links[i] = lk
		if !sc.snapshot {
			cli, err := client.NewRedis(config.RedisConfig{Addresses: []string{target.Addr()}, Type: config.RedisTypeStandalone, Otype: config.RedisTypeStandalone, Version: "7.0.0"})
			if err != nil {
				hx.Fatal("%v", err)
			}
			if err := checkpoint.SetCheckpoint(cli, &checkpoint.CheckpointInfo{Key: cpNames[i], RunId: runIDs[i], Offset: sc.base[i], Version: config.Version}); err != nil {
				hx.Fatal("seed checkpoint: %v", err)
			}
			cli.Close()
		}
		lk.ro = newOutput(sc, i, target)
		wg.Add(1)
		go func() {
			defer wg.Done()
			sp, err := lk.ro.StartPoint(ctx, []string{runIDs[i]})
			if err != nil {
				startErr[i] = "startpoint: " + err.Error()
				lk.done <- err
				return
			}
			if sc.snapshot {
				if sp.RunId == runIDs[i] {
					startErr[i] = "a start point exists before the first full sync"
				}
				if err := lk.ro.Send(ctx, hx.NewChanReader(bytes.NewReader(rdbs[i]), false, runIDs[i], sc.base[i], int64(len(rdbs[i])))); err != nil {
					lk.rdbErr = err
					lk.done <- err
					return
				}
			} else if sp.RunId != runIDs[i] || sp.Offset != sc.base[i] {
				startErr[i] = fmt.Sprintf("unexpected start point %+v", sp)
			}
			lk.started = true
			lctx, lcancel := context.WithCancel(ctx)
			lk.stop = lcancel
			err = lk.ro.Send(lctx, hx.NewChanReader(lk.feed, true, runIDs[i], sc.base[i], -1))
			if sc.restart == i && ctx.Err() == nil && lctx.Err() != nil {
				// the link was stopped while the loop runs: a new instance resumes from what the target holds
				ro2 := newOutput(sc, i, target)
				sp2, err2 := ro2.StartPoint(ctx, []string{runIDs[i]})
				repl, _ := sites[i].ReplCopy()
				if err2 != nil || sp2.RunId != runIDs[i] || sp2.Offset < sc.base[i] || sp2.Offset > sc.base[i]+int64(len(repl)) {
					lk.restartNote = fmt.Sprintf("restart: start point %+v err=%v", sp2, err2)
					lk.done <- fmt.Errorf("%s", lk.restartNote)
					return
				}
				lk.mu.Lock()
				lk.ro = ro2
				lk.feed = hx.NewFeedReader()
				lk.fed = int(sp2.Offset - sc.base[i])
				f2 := lk.feed
				lk.mu.Unlock()
				lk.restartNote = fmt.Sprintf("restarted at %d", sp2.Offset-sc.base[i])
				err = ro2.Send(ctx, hx.NewChanReader(f2, true, runIDs[i], sp2.Offset, -1))
			}
			lk.done <- err
		}()
	}
	// pumps: the stream of site i goes to link i
	stopPump := make(chan struct{})
	var pumpWG sync.WaitGroup
	for i := 0; i < 2; i++ {
		i := i
		pumpWG.Add(1)
		go func() {
			defer pumpWG.Done()
			for {
				repl, _ := sites[i].ReplCopy()
				links[i].mu.Lock()
				if len(repl) > links[i].fed {
					links[i].feed.Feed(repl[links[i].fed:])
					links[i].fed = len(repl)
				}
				links[i].mu.Unlock()
				select {
				case <-stopPump:
					return
				case <-time.After(150 * time.Microsecond):
				}
			}
		}()
	}
	if sc.restart >= 0 {
		go func() {
			lk := links[sc.restart]
			r := hx.NewRng(uint64(sc.id) * 31)
			dl := time.Now().Add(3 * time.Second)
			for (!lk.started || lk.stop == nil) && time.Now().Before(dl) {
				time.Sleep(200 * time.Microsecond)
			}
			time.Sleep(time.Duration(r.Intn(3000)) * time.Microsecond)
			if lk.stop != nil {
				lk.stop()
			}
		}()
	}
	// clients
	var cwg sync.WaitGroup
	for i := 0; i < 2; i++ {
		i := i
		cwg.Add(1)
		go func() {
			defer cwg.Done()
			r := hx.NewRng(uint64(sc.id*2 + i))
			cc := dial(sites[i].Addr(), "client")
			defer cc.c.Close()
			for _, o := range sc.ops[i] {
				time.Sleep(time.Duration(r.Intn(400)) * time.Microsecond)
				if o.txn {
					cc.do(b("multi"))
					for _, cm := range o.cmds {
						cc.do(cm...)
					}
					cc.do(b("exec"))
				} else {
					cc.do(o.cmds[0]...)
				}
			}
		}()
	}
	cwg.Wait()
	// what has to arrive where: client units of site i (propagated form) at site 1-i
	type unitRec struct {
		cmds []string
		txn  bool
	}
	var clientUnits [2][]unitRec
	for i := 0; i < 2; i++ {
		_, us := sites[i].ReplCopy()
		for _, u := range us {
			if u.Tag != "client" {
				continue
			}
			ur := unitRec{txn: u.Txn}
			for _, cm := range u.Cmds {
				ur.cmds = append(ur.cmds, cmdStr(cm))
			}
			clientUnits[i] = append(clientUnits[i], ur)
		}
	}
	if os.Getenv("LOOPDBG") != "" {
		for i := 0; i < 2; i++ {
			_, us := sites[i].ReplCopy()
			for _, u := range us {
				fmt.Fprintf(os.Stderr, "site %d unit tag=%q conn=%d txn=%v %s\n", i, u.Tag, u.Conn, u.Txn, cmdStr(u.Cmds[0])[:30])
			}
			for _, e := range sites[i].LogCopy() {
				if e.Tag != "" {
					fmt.Fprintf(os.Stderr, "site %d log tag=%q conn=%d %s %q err=%s\n", i, e.Tag, e.Conn, e.Name, e.Args, e.Err)
				}
			}
		}
	}
	// tool-applied business commands at a site (connections without a name are the tool's)
	toolBiz := func(i int) int {
		n := 0
		for _, e := range sites[i].LogCopy() {
			if e.Tag == "" && e.Blk > 0 && len(e.Args) > 0 && !reserved(e.Args[0]) && e.Err == "" {
				n++
			}
		}
		return n
	}
	want := [2]int{}
	for i := 0; i < 2; i++ {
		for _, u := range clientUnits[i] {
			want[1-i] += len(u.cmds)
		}
	}
	ended := func() bool {
		for i := 0; i < 2; i++ {
			if len(links[i].done) > 0 {
				return true
			}
		}
		return false
	}
	deadline := time.Now().Add(40 * time.Second)
	runaway := false
	for time.Now().Before(deadline) && !ended() {
		if links[0].started && links[1].started && toolBiz(0) >= want[0] && toolBiz(1) >= want[1] {
			break
		}
		time.Sleep(300 * time.Microsecond)
	}
	// an exchange that feeds itself (a write sent back and forth) does not go quiet: it is cut off once the tool has
	// applied several times what the clients wrote, and recorded as not quiet
	over := func() bool { return toolBiz(0) > 4*want[0]+200 || toolBiz(1) > 4*want[1]+200 }
	// settle: nothing moves for 300 ms (the coordinator's flush timer is 100 ms)
	quiet := false
	settleDeadline := time.Now().Add(20 * time.Second)
	last := [4]int{-1, -1, -1, -1}
	lastChange := time.Now()
	for time.Now().Before(settleDeadline) && !ended() {
		if over() {
			runaway = true
			break
		}
		cur := [4]int{sites[0].ReplLen(), sites[1].ReplLen(), len(sites[0].LogCopy()), len(sites[1].LogCopy())}
		drained := func(k int) bool {
			links[k].mu.Lock()
			defer links[k].mu.Unlock()
			return links[k].feed.Drained() && links[k].fed == cur[k]
		}
		if cur != last || !drained(0) || !drained(1) {
			last = cur
			lastChange = time.Now()
		} else if time.Since(lastChange) > 300*time.Millisecond {
			quiet = true
			break
		}
		time.Sleep(2 * time.Millisecond)
	}
	linkErr := [2]string{}
	for i := 0; i < 2; i++ {
		select {
		case err := <-links[i].done:
			// a link that ended by itself while the loop was running
			linkErr[i] = fmt.Sprintf("%v", err)
			links[i].done <- err
		default:
		}
	}
	cancel()
	close(stopPump)
	pumpWG.Wait()
	for i := 0; i < 2; i++ {
		select {
		case <-links[i].done:
		case <-time.After(20 * time.Second):
			hx.Fatal("scenario %d: link %d did not stop", sc.id, i)
		}
	}
	wg.Wait()

	// ---- trace
	tr.Emit(map[string]interface{}{"ev": "Reset", "id": sc.id, "mode": sc.mode, "snapshot": sc.snapshot, "restore": sc.restore, "wrap1": sc.wrap1, "leftovers": sc.left, "chunk": sc.chunk, "restart": sc.restart >= 0,
		"restartNote": links[0].restartNote + links[1].restartNote})
	for i := 0; i < 2; i++ {
		for _, u := range clientUnits[i] {
			ck := make([]string, len(u.cmds))
			for q := range ck {
				ck[q] = "biz"
			}
			_, cc := compact(ck, u.cmds)
			tr.Emit(map[string]interface{}{"ev": "Client", "site": i, "cmds": cc, "txn": u.txn})
			units++
		}
	}
	for i := 0; i < 2; i++ {
		log := sites[i].LogCopy()
		for j := 0; j < len(log); {
			e := log[j]
			if e.Tag != "" {
				j++
				continue
			}
			k := j + 1
			if e.Blk > 0 {
				for k < len(log) && log[k].Blk == e.Blk && log[k].Conn == e.Conn {
					k++
				}
			}
			var kinds, strs []string
			for _, x := range log[j:k] {
				kind := "other"
				key := []byte{}
				if len(x.Args) > 0 {
					key = x.Args[0]
				}
				ks := string(key)
				switch {
				case x.Name == "select" || x.Name == "ping" || x.Name == "info" || x.Name == "exists" || x.Name == "hgetall" || x.Name == "hget" ||
					x.Name == "zrangebyscore" || x.Name == "type" || x.Name == "command" || x.Name == "config" || x.Name == "hmget" || x.Name == "client":
					kind = "read"
				case x.Name == "set" && strings.HasPrefix(ks, bisyncNS+cpNames[1-i]+":marker:"):
					kind = "marker"
				case strings.HasPrefix(ks, bisyncNS+cpNames[1-i]+":") || strings.HasPrefix(ks, cpNames[1-i]):
					kind = "own" // bookkeeping of the link that targets this site
				case ks == config.CheckpointKeyHashKey && (x.Name == "hset" || x.Name == "hdel") && len(x.Args) > 1 && string(x.Args[1]) == runIDs[1-i]:
					kind = "own" // run id of the link's source -> checkpoint name, written with the checkpoint
				case reserved(key):
					kind = "ns" // reserved namespace, but not this link's own bookkeeping
				default:
					kind = "biz"
					if x.Name == "del" || x.Name == "unlink" {
						for _, a := range x.Args {
							if reserved(a) {
								kind = "ns"
							}
						}
					}
				}
				if kind == "read" {
					continue
				}
				kinds = append(kinds, kind)
				strs = append(strs, cmdStr(append([][]byte{[]byte(x.Name)}, x.Args...)))
			}
			if len(kinds) > 0 {
				keys := []string{}
				dataSite := -1 // site whose snapshot data all business keys of this block belong to (-2: mixed)
				for _, x := range log[j:k] {
					if len(x.Args) > 0 {
						keys = append(keys, hex.EncodeToString(x.Args[0]))
						if !reserved(x.Args[0]) {
							ds := -2
							for si := 0; si < 2; si++ {
								if bytes.HasPrefix(x.Args[0], b(strings.ToLower(siteName[si])+":d")) {
									ds = si
								}
							}
							if dataSite == -1 {
								dataSite = ds
							} else if dataSite != ds {
								dataSite = -2
							}
						}
					}
				}
				kinds, strs = compact(kinds, strs)
				if len(keys) > 16 {
					keys = keys[:16]
				}
				tr.Emit(map[string]interface{}{"ev": "Applied", "site": i, "inExec": e.Blk > 0, "kinds": kinds, "cmds": strs, "keys": keys, "dataSite": dataSite})
			}
			j = k
		}
	}
	// final contents outside the reserved namespace
	var diff []string
	exp := [2]map[string]int64{{}, {}}
	content := func(i int) map[string]string {
		m := map[string]string{}
		sites[i].Lock()
		for k, v := range sites[i].DBs[0] {
			if !reserved([]byte(k)) && (v.ExpireAt == 0 || v.ExpireAt > time.Now().UnixMilli()) {
				m[k] = canon(v)
				exp[i][k] = v.ExpireAt
			}
		}
		sites[i].Unlock()
		return m
	}
	ca, cb := content(0), content(1)
	for k, v := range ca {
		if cb[k] != v {
			diff = append(diff, fmt.Sprintf("%s: A=%s B=%s", k, v, cb[k]))
		} else if d := exp[0][k] - exp[1][k]; (exp[0][k] == 0) != (exp[1][k] == 0) || d > 2000 || d < -2000 {
			// a snapshot value travels with a relative ttl: the two clocks may differ by the transfer time
			diff = append(diff, fmt.Sprintf("%s: expiry A=%d B=%d", k, exp[0][k], exp[1][k]))
		}
	}
	for k, v := range cb {
		if _, ok := ca[k]; !ok {
			diff = append(diff, fmt.Sprintf("%s: A=<none> B=%s", k, v))
		}
	}
	sort.Strings(diff)
	if len(diff) > 5 {
		diff = diff[:5]
	}
	nsAt := [2][]string{{}, {}}
	for i := 0; i < 2; i++ {
		// reserved-namespace keys of the *other* site's leftovers that turned up here
		sites[i].Lock()
		for k := range sites[i].DBs[0] {
			if strings.Contains(k, "old"+siteName[1-i]) {
				nsAt[i] = append(nsAt[i], k)
			}
		}
		sites[i].Unlock()
		sort.Strings(nsAt[i])
	}
	_ = runaway
	tr.Emit(map[string]interface{}{"ev": "End", "quiet": quiet, "diff": append([]string{}, diff...), "foreignBookkeeping": [][]string{nsAt[0], nsAt[1]},
		"linkErr": []string{linkErr[0], linkErr[1]}, "startErr": []string{startErr[0], startErr[1]},
		"rdbErr": []string{fmt.Sprint(links[0].rdbErr), fmt.Sprint(links[1].rdbErr)}})
	return units
}

func main() {
	out := flag.String("out", "trace.ndjson", "")
	statsPath := flag.String("stats", "stats.json", "")
	seed := flag.Uint64("seed", 1, "")
	n := flag.Int("n", 20, "scenarios")
	maxOps := flag.Int("max-ops", 4, "client operations per site")
	shard := flag.Int("shard", 0, "")
	shards := flag.Int("shards", 1, "")
	flag.Parse()
	hx.QuietLogs()
	tr, err := hx.NewTrace(*out)
	if err != nil {
		hx.Fatal("%v", err)
	}
	wd := hx.NewWatchdog(120 * time.Second)
	nScen, nUnits := 0, 0
	modes := map[string]int{}
	snap := 0
	for s := 0; s < *n; s++ {
		if s%*shards != *shard {
			continue
		}
		r := hx.NewRng(*seed*7919 + uint64(s))
		sc := &scenario{id: s + 1, mode: []string{"sync", "pipeline", "parallel"}[r.Intn(3)], wrap1: r.Chance(30), snapshot: r.Chance(50), restore: r.Chance(50), left: r.Chance(60)}
		if sc.snapshot && r.Chance(50) {
			sc.chunk = 30 + r.Intn(60)
		}
		sc.restart = -1
		if r.Chance(30) {
			sc.restart = r.Intn(2)
		}
		// the name a link keeps its bookkeeping under: created for a bidirectional link, or adopted from the one-way link
		// the deployment ran before (the plain checkpoint key, or the per-shard key of a transactional cluster link)
		switch r.Intn(4) {
		case 0:
			cpNames = [2]string{"redis-gunyu-checkpoint", "redis-gunyu-checkpoint-abcdefghijklmnopqrst"}
		case 1:
			cpNames = [2]string{"redis-gunyu-checkpoint-bisync:linkab", "redis-gunyu-checkpoint"}
		default:
			cpNames = [2]string{"redis-gunyu-checkpoint-bisync:linkab", "redis-gunyu-checkpoint-bisync:linkba"}
		}
		bigSite := -1
		if s == 0 || r.Chance(3) {
			bigSite = r.Intn(2)
		}
		for i := 0; i < 2; i++ {
			sc.ops[i] = genOps(r, i, r.Intn(*maxOps+1), bigSite == i)
			if sc.snapshot {
				sc.data[i] = genData(r, i)
			}
			sc.base[i] = int64(1000 + r.Intn(9000))
		}
		wd.Kick(fmt.Sprintf("scenario %d %s snapshot=%v", sc.id, sc.mode, sc.snapshot))
		nUnits += runScenario(sc, tr)
		nScen++
		modes[sc.mode]++
		if sc.snapshot {
			snap++
		}
	}
	if err := tr.Close(); err != nil {
		hx.Fatal("%v", err)
	}
	hx.WriteJSON(*statsPath, map[string]interface{}{"scenarios": nScen, "client_units": nUnits, "modes": modes, "with_snapshot": snap})
	fmt.Fprintf(os.Stderr, "loopdrv: %d scenarios, %d client units %v\n", nScen, nUnits, modes)
}
