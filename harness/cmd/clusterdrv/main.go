// clusterdrv replays generated streams through the real RedisOutput (plain
// incremental path: blocking batches, pipelined batches, transactional mode)
// into a three-node cluster fake whose slots migrate while the replay runs
// (MOVED after an instant hand-over, ASK windows with keys moved one by one).
// The cluster-wide execution log is projected onto source command indices for
// spec/trace/TraceCluster.tla (C19).
package main

import (
	"context"
	"errors"
	"flag"
	"fmt"
	"io"
	"os"
	"runtime"
	"sort"
	"strings"
	"sync/atomic"
	"time"

	"github.com/mgtv-tech/redis-GunYu/config"
	"github.com/mgtv-tech/redis-GunYu/pkg/redis/checkpoint"
	"github.com/mgtv-tech/redis-GunYu/pkg/redis/client"
	"github.com/mgtv-tech/redis-GunYu/syncer"

	"verifh/fakeredis"
	"verifh/hx"
)

const runID = "cccccccccccccccccccccccccccccccccccccccc"

// a checkpoint key owned by node 0 (3 nodes: slots below 5462), as a transactional cluster link needs it
var cpName = func() string {
	for i := 0; ; i++ {
		n := fmt.Sprintf("redis-gunyu-checkpoint-verifc19{c%d}", i)
		if fakeredis.HashSlot([]byte(n))*3/16384 == 0 {
			return n
		}
	}
}()

type srcCmd struct {
	name string
	args [][]byte
	key  int   // index into scenario.keys (first key)
	keys []int // every key the command touches
}

type migStep struct {
	at   int    // fires when this many keyed requests have been routed by the cluster
	kind string // begin | move | moveone | finish
	key  int    // slot of this key (moveone: only this key is moved)
	dst  int
}

type scenario struct {
	id    int
	mode  string // batch | pipeline | txn | txnpipe
	keys  [][]byte
	cmds  []srcCmd
	steps []migStep
	start int64
	batch int
	// slowOld: once a migration has fired, the node that owns key 0 receives the requests of the connection that carried
	// key 0's first command a few milliseconds late (a congested connection); any other connection to it is served at once
	slowOld bool
	// slowNode >= 0: this node receives every request a few milliseconds late (a node that is busy): what one node group of a
	// batch is still doing when another group has already failed
	slowNode int
	// failNode >= 0: this node drops the connection instead of executing the first data command it receives after the
	// migrations have fired (a node that fails while another node group of the same batch is still being redirected)
	failNode int
	// hangNode >= 0: after the hand-over this node executes the first command of key 0 it receives and closes the connection
	// without answering (the new owner goes away between executing a redirected command and its reply)
	hangNode int
}

// failFastScenario: blocking batches that span two nodes while the slot of one key is handed over to a busy node and the
// node of the other key drops its connection: one node group of a batch fails at once, the other is still being redirected
func failFastScenario(r *hx.Rng, id int) *scenario {
	sc := &scenario{id: id, mode: "batch", start: int64(100 + r.Intn(900)), batch: 3, slowNode: -1, failNode: -1, hangNode: -1}
	k1 := []byte(fmt.Sprintf("{m%d}moved", r.Intn(4000)))
	k2 := []byte(fmt.Sprintf("{f%d}fails", r.Intn(4000)))
	for fakeredis.HashSlot(k2)*3/16384 == fakeredis.HashSlot(k1)*3/16384 {
		k2 = []byte(fmt.Sprintf("{f%d}fails", r.Intn(4000)))
	}
	sc.keys = [][]byte{k1, k2}
	a, c := fakeredis.HashSlot(k1)*3/16384, fakeredis.HashSlot(k2)*3/16384
	b := 3 - a - c
	n := 9 + r.Intn(6)
	for i := 0; i < n; i++ {
		k := 0
		if i%3 == 2 {
			k = 1
		}
		sc.cmds = append(sc.cmds, srcCmd{name: "rpush", args: [][]byte{sc.keys[k], []byte(fmt.Sprintf("v%d", i+1))}, key: k, keys: []int{k}})
	}
	at := r.Intn(3)
	sc.steps = []migStep{{at: at, kind: "begin", key: 0, dst: b}, {at: at, kind: "finish", key: 0}}
	sc.slowNode, sc.failNode = b, c
	return sc
}

// hangUpScenario: two keys; first the slot of key 1 is handed over to another node (the sender learns the new owner and from
// then on holds a pooled connection to it), later the slot of key 0 follows, and the new owner executes the first redirected
// command of key 0 and hangs up before its reply.  Blocking batches (a transactional link cannot go on once its keys live on
// two nodes: every later run ends with "not hashed in the same node", which is a reported error, not a replay).
func hangUpScenario(r *hx.Rng, id int) *scenario {
	sc := &scenario{id: id, mode: "batch", start: int64(100 + r.Intn(900)), batch: 1 + r.Intn(3), slowNode: -1, failNode: -1, hangNode: -1}
	pick := func(pfx string, other []byte) []byte {
		for {
			k := []byte(fmt.Sprintf("{%s%d}k", pfx, r.Intn(4000)))
			// (a transactional link writes to one shard: both keys start on node 0)
			if fakeredis.HashSlot(k)*3/16384 == 0 && (other == nil || fakeredis.HashSlot(k) != fakeredis.HashSlot(other)) {
				return k
			}
		}
	}
	k0 := pick("m", nil)
	k1 := pick("s", k0)
	sc.keys = [][]byte{k0, k1}
	n := 12 + r.Intn(6)
	for i := 0; i < n; i++ {
		k := i % 2
		sc.cmds = append(sc.cmds, srcCmd{name: "rpush", args: [][]byte{sc.keys[k], []byte(fmt.Sprintf("v%d", i+1))}, key: k, keys: []int{k}})
	}
	at := r.Intn(3)
	dst := 1 + r.Intn(2)
	at2 := at + 5 + r.Intn(5)
	sc.steps = []migStep{{at: at, kind: "begin", key: 1, dst: dst}, {at: at, kind: "finish", key: 1},
		{at: at2, kind: "begin", key: 0, dst: dst}, {at: at2, kind: "finish", key: 0}}
	sc.hangNode = dst
	return sc
}

// tryAgainScenario: two keys of one tag and a three-key DEL in the middle of a batch while their slot is in migration with
// not all of the keys present at the old owner: the node answers TRYAGAIN to the DEL and has the commands behind it in hand
func tryAgainScenario(r *hx.Rng, id int) *scenario {
	sc := &scenario{id: id, mode: []string{"batch", "txn", "pipeline", "txnpipe"}[r.Intn(4)], start: int64(100 + r.Intn(900)), batch: 3 + r.Intn(3), slowNode: -1, failNode: -1, hangNode: -1}
	tag := fmt.Sprintf("q%d", r.Intn(4000))
	for fakeredis.HashSlot([]byte("{"+tag+"}k0"))*3/16384 != 0 { // (a transactional link writes to one shard: node 0)
		tag = fmt.Sprintf("q%d", r.Intn(4000))
	}
	sc.keys = [][]byte{[]byte("{" + tag + "}k0"), []byte("{" + tag + "}k1")}
	n := 6 + r.Intn(5)
	for i := 0; i < n; i++ {
		if i == 2 || (i > 4 && r.Chance(20)) {
			sc.cmds = append(sc.cmds, srcCmd{name: "del", args: [][]byte{sc.keys[0], sc.keys[1], []byte(fmt.Sprintf("{%s}none%d", tag, i+1))}, key: 0, keys: []int{0, 1}})
			continue
		}
		k := 0
		if r.Chance(25) {
			k = 1
		}
		sc.cmds = append(sc.cmds, srcCmd{name: "rpush", args: [][]byte{sc.keys[k], []byte(fmt.Sprintf("v%d", i+1))}, key: k, keys: []int{k}})
	}
	at := r.Intn(3)
	dst := 1 + r.Intn(2)
	sc.steps = []migStep{{at: at, kind: "begin", key: 0, dst: dst}, {at: at + 1 + r.Intn(3), kind: "moveone", key: 0}, {at: at + 6 + r.Intn(6), kind: "finish", key: 0}}
	return sc
}

// coldMoveScenario: pipelined replay, a hot key whose slot never moves and a cold key on another node whose slot is handed over
// early: the MOVED answer makes the client refresh its slot map while batches of the hot key are in flight on a slow connection
func coldMoveScenario(r *hx.Rng, id int) *scenario {
	sc := &scenario{id: id, mode: "pipeline", start: int64(100 + r.Intn(900)), batch: 1, slowOld: true, slowNode: -1, failNode: -1, hangNode: -1}
	hot := []byte(fmt.Sprintf("{h%d}hot", r.Intn(40)))
	cold := []byte(fmt.Sprintf("{c%d}cold", r.Intn(40)))
	for fakeredis.HashSlot(cold)*3/16384 == fakeredis.HashSlot(hot)*3/16384 {
		cold = []byte(fmt.Sprintf("{c%d}cold", r.Intn(4000)))
	}
	sc.keys = [][]byte{hot, cold}
	n := 12 + r.Intn(8)
	for i := 0; i < n; i++ {
		k := 0
		if i%4 == 1 {
			k = 1
		}
		sc.cmds = append(sc.cmds, srcCmd{name: "rpush", args: [][]byte{sc.keys[k], []byte(fmt.Sprintf("v%d", i+1))}, key: k, keys: []int{k}})
	}
	at := 1 + r.Intn(3)
	dst := fakeredis.HashSlot(hot) * 3 / 16384 // the cold slot moves to the hot key's node or to the third one
	if r.Bool() {
		dst = 3 - dst - fakeredis.HashSlot(cold)*3/16384
	}
	sc.steps = []migStep{{at: at, kind: "begin", key: 1, dst: dst}, {at: at, kind: "finish", key: 1}}
	return sc
}

// hotScenario: one hot key, single-command batches, one instant hand-over early in the run
func hotScenario(r *hx.Rng, id int) *scenario {
	sc := &scenario{id: id, mode: []string{"pipeline", "batch"}[r.Intn(2)], start: int64(100 + r.Intn(900)), batch: 1 + r.Intn(2), slowNode: -1, failNode: -1, hangNode: -1}
	sc.keys = [][]byte{[]byte(fmt.Sprintf("{h%d}hot", r.Intn(40))), []byte(fmt.Sprintf("{c%d}cold", r.Intn(40)))}
	n := 10 + r.Intn(8)
	for i := 0; i < n; i++ {
		k := 0
		if r.Chance(15) {
			k = 1
		}
		sc.cmds = append(sc.cmds, srcCmd{name: "rpush", args: [][]byte{sc.keys[k], []byte(fmt.Sprintf("v%d", i+1))}, key: k, keys: []int{k}})
	}
	at := r.Intn(4)
	dst := (fakeredis.HashSlot(sc.keys[0])*3/16384 + 1 + r.Intn(2)) % 3
	if r.Chance(50) {
		sc.steps = []migStep{{at: at, kind: "begin", key: 0, dst: dst}, {at: at, kind: "finish", key: 0}}
	} else {
		sc.steps = []migStep{{at: at, kind: "begin", key: 0, dst: dst}, {at: at + 1 + r.Intn(3), kind: "move", key: 0}, {at: at + 3 + r.Intn(4), kind: "finish", key: 0}}
	}
	return sc
}

func genScenario(r *hx.Rng, id int, maxCmds int) *scenario {
	sc := &scenario{id: id, mode: []string{"batch", "pipeline", "txn", "txnpipe"}[r.Intn(4)], start: int64(100 + r.Intn(900)), batch: 1 + r.Intn(4), slowNode: -1, failNode: -1, hangNode: -1}
	if r.Chance(30) {
		sc.slowNode = r.Intn(3)
	}
	nk := 2 + r.Intn(3)
	txnMode := sc.mode == "txn" || sc.mode == "txnpipe"
	pair := r.Chance(40) // the first two keys share a hash tag: multi-key commands on them are legal
	tag0 := ""
	for i := 0; i < nk; i++ {
		tag := fmt.Sprintf("g%d", r.Intn(40))
		if pair && i == 1 {
			tag = tag0
		}
		k := []byte(fmt.Sprintf("{%s}k%d", tag, i))
		// a transactional link writes to one shard: all keys (and the checkpoint) start on node 0
		for txnMode && fakeredis.HashSlot(k)*3/16384 != 0 {
			tag = fmt.Sprintf("g%d", r.Intn(400))
			k = []byte(fmt.Sprintf("{%s}k%d", tag, i))
			if pair && i == 1 {
				break
			}
		}
		if i == 0 {
			tag0 = tag
		}
		sc.keys = append(sc.keys, k)
	}
	if pair && txnMode && fakeredis.HashSlot(sc.keys[1])*3/16384 != 0 {
		pair = false
		sc.keys[1] = []byte("{g-none}k1")
		for fakeredis.HashSlot(sc.keys[1])*3/16384 != 0 {
			sc.keys[1] = []byte(fmt.Sprintf("{g%d}k1", r.Intn(400)))
		}
	}
	n := 3 + r.Intn(maxCmds-2)
	for i := 0; i < n; i++ {
		if pair && r.Chance(25) {
			// a multi-key command: during a migration with only one of the keys moved the node answers TRYAGAIN
			sc.cmds = append(sc.cmds, srcCmd{name: "del", args: [][]byte{sc.keys[0], sc.keys[1], []byte(fmt.Sprintf("{%s}none%d", tag0, i+1))}, key: 0, keys: []int{0, 1}})
			continue
		}
		k := r.Intn(nk)
		v := []byte(fmt.Sprintf("v%d", i+1))
		// lists make order and repetition visible in the final value as well
		sc.cmds = append(sc.cmds, srcCmd{name: "rpush", args: [][]byte{sc.keys[k], v}, key: k, keys: []int{k}})
	}
	// migrations: up to two, each begin -> (move)* -> finish at increasing request counts, or instant
	// a slot never returns to a node it has left during the scenario: a hand-over A -> B -> A between two commands of one
	// pipeline lets A refuse the first and execute the second (an environment no real resharding produces)
	at := 0
	owners := map[int][]int{}
	for m := 0; m < r.Intn(3); m++ {
		k := r.Intn(nk)
		slot := fakeredis.HashSlot(sc.keys[k])
		if owners[slot] == nil {
			owners[slot] = []int{slot * 3 / 16384}
		}
		dst := r.Intn(3)
		for tries := 0; tries < 8; tries++ {
			been := false
			for _, o := range owners[slot][:len(owners[slot])-1] {
				been = been || o == dst
			}
			if !been {
				break
			}
			dst = r.Intn(3)
		}
		been := false
		for _, o := range owners[slot][:len(owners[slot])-1] {
			been = been || o == dst
		}
		if been {
			continue
		}
		owners[slot] = append(owners[slot], dst)
		at += r.Intn(n + 2)
		if r.Chance(40) {
			// instant hand-over: the old owner answers MOVED from now on
			sc.steps = append(sc.steps, migStep{at: at, kind: "begin", key: k, dst: dst}, migStep{at: at, kind: "finish", key: k})
			continue
		}
		sc.steps = append(sc.steps, migStep{at: at, kind: "begin", key: k, dst: dst})
		at += r.Intn(3)
		if r.Chance(60) {
			kind := "move"
			if r.Chance(50) {
				kind = "moveone" // keys of the slot travel one at a time
			}
			sc.steps = append(sc.steps, migStep{at: at, kind: kind, key: k})
			at += r.Intn(3)
		}
		sc.steps = append(sc.steps, migStep{at: at, kind: "finish", key: k})
	}
	return sc
}

func (sc *scenario) stream() ([]byte, []int64) {
	var b []byte
	var ends []int64
	for _, c := range sc.cmds {
		b = append(b, hx.EncodeCmd(append([][]byte{[]byte(c.name)}, c.args...)...)...)
		ends = append(ends, sc.start+int64(len(b)))
	}
	return b, ends
}

func waitNoConns(cs *fakeredis.ClusterState, what string) {
	dl := time.Now().Add(10 * time.Second)
	for i := 0; cs.ConnCount() > 0 && time.Now().Before(dl); i++ {
		time.Sleep(100 * time.Microsecond)
		if i%20 == 19 {
			runtime.GC() // the cluster client leaks its bootstrap connection until finalised
		}
	}
	if cs.ConnCount() > 0 {
		hx.Fatal("%s: the cluster fake still has %d open connections", what, cs.ConnCount())
	}
}

func runScenario(sc *scenario, tr *hx.Trace) int {
	cs, err := fakeredis.NewCluster(3)
	if err != nil {
		hx.Fatal("%v", err)
	}
	defer cs.Close()
	cs.Serialize = true
	var armed atomic.Bool
	fired := 0
	base := 0
	var migLog []map[string]interface{}
	cs.OnRoute = func(c *fakeredis.ClusterState, n int) {
		if !armed.Load() {
			base = n
			return
		}
		for fired < len(sc.steps) && n-base > sc.steps[fired].at {
			st := sc.steps[fired]
			slot := fakeredis.HashSlot(sc.keys[st.key])
			switch st.kind {
			case "begin":
				c.BeginMigrate(slot, st.dst)
			case "move":
				c.MoveKeys(slot)
			case "moveone":
				c.MoveKeys(slot, string(sc.keys[st.key]))
			case "finish":
				c.FinishMigrate(slot)
			}
			migLog = append(migLog, map[string]interface{}{"ev": "Mig", "kind": st.kind, "k": st.key + 1, "after": int(c.ESeq.Load())})
			fired++
		}
	}
	if sc.failNode >= 0 && sc.failNode < len(cs.Nodes) {
		var failed atomic.Bool
		cs.Nodes[sc.failNode].PreExec = func(connID int, db int, name string, args [][]byte, inMulti bool) (interface{}, fakeredis.Action) {
			if name == "rpush" && armed.Load() && len(migLog) > 0 && !failed.Swap(true) {
				return nil, fakeredis.CloseConn
			}
			return nil, fakeredis.Proceed
		}
	}
	if sc.hangNode >= 0 && sc.hangNode < len(cs.Nodes) {
		var hung atomic.Bool
		k0 := string(sc.keys[0])
		cs.Nodes[sc.hangNode].AfterExec = func(connID int, name string, args [][]byte) fakeredis.Action {
			// (key 0 reaches this node only after its own hand-over)
			if name == "rpush" && len(args) > 0 && string(args[0]) == k0 && armed.Load() && len(migLog) > 0 && !hung.Swap(true) {
				return fakeredis.CloseConn
			}
			return fakeredis.Proceed
		}
	}
	if sc.slowNode >= 0 && sc.slowNode < len(cs.Nodes) {
		var firstHeld atomic.Bool
		cs.Nodes[sc.slowNode].Gate = func(connID int, name string, args [][]byte) <-chan struct{} {
			if name != "rpush" && name != "del" {
				return nil
			}
			d := 4 * time.Millisecond
			if sc.failNode >= 0 {
				// the first command that reaches the new owner (the redirected one of the failing batch) stays on its way for
				// longer than the sender waits before it retries a failed batch (1 s); everything else is served at once
				if firstHeld.Swap(true) {
					return nil
				}
				d = 1300 * time.Millisecond
			}
			ch := make(chan struct{})
			time.AfterFunc(d, func() { close(ch) })
			return ch
		}
	}
	if sc.slowOld {
		var oldConn atomic.Int64
		oldConn.Store(-1)
		hotNode := cs.Nodes[fakeredis.HashSlot(sc.keys[0])*3/16384]
		hotNode.Gate = func(connID int, name string, args [][]byte) <-chan struct{} {
			if name != "rpush" || len(args) == 0 || string(args[0]) != string(sc.keys[0]) {
				return nil
			}
			oldConn.CompareAndSwap(-1, int64(connID))
			if int64(connID) != oldConn.Load() || !armed.Load() || len(migLog) == 0 {
				return nil
			}
			ch := make(chan struct{})
			time.AfterFunc(3*time.Millisecond, func() { close(ch) })
			return ch
		}
	}
	rcfg := config.RedisConfig{Addresses: cs.Addrs(), Type: config.RedisTypeCluster, Otype: config.RedisTypeCluster, Version: "7.0.0",
		ClusterOptions: &config.RedisClusterOptions{HandleMoveErr: true, HandleAskErr: true}}
	cli, err := client.NewRedis(rcfg)
	if err != nil {
		hx.Fatal("%v", err)
	}
	if err := checkpoint.SetCheckpoint(cli, &checkpoint.CheckpointInfo{Key: cpName, RunId: runID, Offset: sc.start, Version: config.Version}); err != nil {
		hx.Fatal("seed: %v", err)
	}
	cli.Close()
	waitNoConns(cs, "seeding")
	txn := sc.mode == "txn" || sc.mode == "txnpipe"
	pipe := sc.mode == "pipeline" || sc.mode == "txnpipe"
	bytes_, ends := sc.stream()
	keyOf := make([]int, len(sc.cmds))
	keysOf := make([][]int, len(sc.cmds))
	for i, c := range sc.cmds {
		keyOf[i] = c.key + 1
		for _, k := range c.keys {
			keysOf[i] = append(keysOf[i], k+1)
		}
	}
	slotOf := make([]int, len(sc.keys)) // keys of one tag share a slot: a hand-over of one is a hand-over of the other
	for i, k := range sc.keys {
		slotOf[i] = fakeredis.HashSlot(k)
	}
	tr.Emit(map[string]interface{}{"ev": "Reset", "id": sc.id, "mode": sc.mode, "txn": txn, "pipe": pipe, "keysOf": keysOf, "slotOf": slotOf, "nkeys": len(sc.keys), "batch": sc.batch, "steps": len(sc.steps)})
	logBase := len(cs.LogMerged())

	// project the cluster-wide execution log onto source indices
	type ex struct {
		seq, idx, node int
		err            string
	}
	project := func() []ex {
		var out []ex
		log := cs.LogMerged()
		sort.Slice(log, func(i, j int) bool { return log[i].Seq < log[j].Seq })
		for _, e := range log {
			if e.Seq <= logBase || len(e.Args) == 0 || string(e.Args[0]) == cpName || (e.Name != "rpush" && e.Name != "del") {
				continue
			}
			idx := 0
			for i, c := range sc.cmds {
				if c.name != e.Name || len(c.args) != len(e.Args) {
					continue
				}
				same := true
				for j := range c.args {
					same = same && string(c.args[j]) == string(e.Args[j])
				}
				if same {
					idx = i + 1
				}
			}
			out = append(out, ex{seq: e.Seq, idx: idx, node: e.Node, err: e.Err})
		}
		return out
	}
	complete := func() bool {
		seen := map[int]bool{}
		for _, e := range project() {
			seen[e.idx] = true
		}
		for i := range sc.cmds {
			if !seen[i+1] {
				return false
			}
		}
		return true
	}
	emitted, mi, nExec := 0, 0, 0
	flush := func() {
		exs := project()
		for _, e := range exs[emitted:] {
			for mi < len(migLog) && migLog[mi]["after"].(int) < e.seq {
				tr.Emit(migLog[mi])
				mi++
			}
			k := 0
			if e.idx > 0 {
				k = keyOf[e.idx-1]
			}
			tr.Emit(map[string]interface{}{"ev": "Exec", "idx": e.idx, "k": k, "node": e.node, "err": e.err})
			nExec++
		}
		emitted = len(exs)
		for ; mi < len(migLog); mi++ {
			tr.Emit(migLog[mi])
		}
	}
	armed.Store(true)
	for run := 0; run < 4; run++ {
		armed.Store(false)
		ro := syncer.NewRedisOutput(syncer.RedisOutputConfig{
			InputName: "verif", CheckpointName: cpName, RunId: runID, CanTransaction: txn,
			Redis: rcfg, EnableResumeFromBreakPoint: true, TargetDb: -1,
			BatchCmdCount: uint(sc.batch), BatchTicker: 2 * time.Millisecond, BatchBufferSize: 1 << 30, KeepaliveTicker: time.Hour, UpdateCheckpointTicker: time.Hour,
			ReplayPipeline: pipe, Stats: config.OutputStats{DisableLog: true},
		})
		sp, err := ro.StartPoint(context.Background(), []string{runID})
		if err != nil {
			hx.Fatal("scenario %d: start point: %v", sc.id, err)
		}
		waitNoConns(cs, "start point")
		from := 0
		for _, e := range ends {
			if e <= sp.Offset {
				from++
			}
		}
		atEnd := sp.Offset == sc.start
		for _, e := range ends {
			atEnd = atEnd || e == sp.Offset
		}
		tr.Emit(map[string]interface{}{"ev": "Resume", "run": run, "off": int(sp.Offset), "from": from, "boundary": atEnd && sp.RunId == runID})
		if sp.RunId != runID || !atEnd {
			break
		}
		feed := hx.NewFeedReader()
		feed.Feed(bytes_[sp.Offset-sc.start:])
		ctx, cancel := context.WithCancel(context.Background())
		armed.Store(true)
		done := make(chan error, 1)
		go func() { done <- ro.Send(ctx, hx.NewChanReader(feed, true, runID, sp.Offset, -1)) }()
		// the sender sleeps 1 s between its (at most 3) attempts of a redirected batch
		// (8 s without any further execution at the cluster, not 8 s in all: a loaded machine must not look like a stalled replay)
		deadline := time.Now().Add(8 * time.Second)
		var sendErr error
		ended := false
		lastN := -1
		for time.Now().Before(deadline) {
			select {
			case sendErr = <-done:
				ended = true
			default:
			}
			if ended || complete() {
				break
			}
			if n := int(cs.ESeq.Load()); n != lastN {
				lastN = n
				deadline = time.Now().Add(8 * time.Second)
			}
			time.Sleep(500 * time.Microsecond)
		}
		stalled := !ended && !complete()
		sourceEnded := false // an EOF is the end of the source stream only when the harness has ended it
		if !ended {
			sourceEnded = true
			// let in-flight receives finish, then stop the run the way a stopped source ends it
			time.Sleep(5 * time.Millisecond)
			feed.CloseWith(io.EOF)
			select {
			case sendErr = <-done:
			case <-time.After(10 * time.Second):
				cancel()
				select {
				case sendErr = <-done:
				case <-time.After(20 * time.Second):
					hx.Fatal("scenario %d: Send did not return", sc.id)
				}
			}
		}
		cancel()
		armed.Store(false)
		if hx.PortExhausted(sendErr) {
			hx.Fatal("scenario %d: %v", sc.id, sendErr)
		}
		waitNoConns(cs, "end of run")
		flush()
		es := ""
		// (a node that closes its connection surfaces as io.EOF as well: that one is an error the tool reports)
		isErr := sendErr != nil && !(errors.Is(sendErr, io.EOF) && sourceEnded)
		if sendErr != nil {
			es = sendErr.Error()
			if len(es) > 300 {
				es = es[:300]
			}
		}
		// final list contents as the owners hold them
		final := make([][]string, len(sc.keys))
		for ki, k := range sc.keys {
			final[ki] = []string{}
			owner := cs.Nodes[cs.Owner[fakeredis.HashSlot(k)]]
			owner.Lock()
			if v := owner.DBs[0][string(k)]; v != nil {
				for _, x := range v.List {
					final[ki] = append(final[ki], string(x))
				}
			}
			owner.Unlock()
		}
		tr.Emit(map[string]interface{}{"ev": "Return", "run": run, "err": isErr, "restart": sendErr != nil && errors.Is(sendErr, syncer.ErrRestart), "text": es, "stalled": stalled,
			"final": final, "migrations_fired": fired})
		if !isErr {
			break
		}
	}
	return nExec
}

func main() {
	out := flag.String("out", "trace.ndjson", "")
	statsPath := flag.String("stats", "stats.json", "")
	seed := flag.Uint64("seed", 1, "")
	n := flag.Int("n", 20, "scenarios")
	maxCmds := flag.Int("max-cmds", 8, "")
	idBase := flag.Int("id-base", 0, "first scenario id")
	onlyMode := flag.String("mode", "", "force this mode (batch | pipeline | txn | txnpipe)")
	hot := flag.Int("hot", 4, "every hot-th scenario is a hot-key scenario (0 = none)")
	shard := flag.Int("shard", 0, "")
	shards := flag.Int("shards", 1, "")
	flag.Parse()
	hx.QuietLogs()
	tr, err := hx.NewTrace(*out)
	if err != nil {
		hx.Fatal("%v", err)
	}
	wd := hx.NewWatchdog(120 * time.Second)
	nScen, nExec, nMig := 0, 0, 0
	modes := map[string]int{}
	for s := 0; s < *n; s++ {
		if s%*shards != *shard {
			continue
		}
		r := hx.NewRng(*seed*104729 + uint64(s))
		sc := genScenario(r, s+1+*idBase, *maxCmds)
		if *hot > 0 && s%*hot == 1 && s%(2**hot) == 1 {
			sc = failFastScenario(r, s+1+*idBase)
		} else if *hot > 0 && s%*hot == 3 && s%(2**hot) == 3 {
			sc = hangUpScenario(r, s+1+*idBase)
		} else if *hot > 0 && s%*hot == 2 && s%(2**hot) == 2 {
			sc = tryAgainScenario(r, s+1+*idBase)
		} else if *hot > 0 && s%*hot == 0 && s%(2**hot) != 0 {
			sc = coldMoveScenario(r, s+1+*idBase)
		} else if *hot > 0 && s%*hot == 0 {
			sc = hotScenario(r, s+1+*idBase)
		}
		if *onlyMode != "" {
			sc.mode = *onlyMode
		}
		wd.Kick(fmt.Sprintf("scenario %d %s steps=%d", sc.id, sc.mode, len(sc.steps)))
		nExec += runScenario(sc, tr)
		nScen++
		modes[sc.mode]++
		if len(sc.steps) > 0 {
			nMig++
		}
	}
	if err := tr.Close(); err != nil {
		hx.Fatal("%v", err)
	}
	hx.WriteJSON(*statsPath, map[string]interface{}{"scenarios": nScen, "executed": nExec, "modes": modes, "with_migration": nMig})
	fmt.Fprintf(os.Stderr, "clusterdrv: %d scenarios, %d executed commands, %d with migrations %v\n", nScen, nExec, nMig, modes)
	_ = strings.ToLower
}
