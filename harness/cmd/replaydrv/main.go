// replaydrv drives the real incremental replay (RedisOutput.Send over the AOF
// path, StartPoint, checkpoint writes) against the fake target in lockstep:
// the sender loop is gated at the top of every iteration, tickers are fired
// by the harness, the byte source is released item by item, and the target can
// die after any number of received requests.  Every scenario is recorded as an
// ndjson trace for spec/trace/TraceReplay.tla.
package main

import (
	"bufio"
	"context"
	"encoding/json"
	"flag"
	"fmt"
	"io"
	"os"
	"reflect"
	"strconv"
	"strings"
	"sync"
	"time"

	"github.com/mgtv-tech/redis-GunYu/config"
	"github.com/mgtv-tech/redis-GunYu/pkg/redis/checkpoint"
	"github.com/mgtv-tech/redis-GunYu/pkg/redis/client"
	"github.com/mgtv-tech/redis-GunYu/pkg/verifhook"
	"github.com/mgtv-tech/redis-GunYu/syncer"

	"verifh/fakeredis"
	"verifh/hx"
)

const (
	cpName = "redis-gunyu-checkpoint-verif"
	runID  = "aaaaaaaaaaaaaaaaaaaaaaaaaaaaaaaaaaaaaaaa"
)

type Item struct {
	K    string   `json:"k"`
	D    int      `json:"d"`
	E    int64    `json:"e"`
	Name string   `json:"name"`
	Args [][]byte `json:"args"`
	Enc  []byte   `json:"enc"`
}

type lightItem struct {
	K string `json:"k"`
	D int    `json:"d"`
	E int64  `json:"e"`
}

type Scenario struct {
	ID       int
	Txn      bool
	Pipe     bool
	Batch    int
	BufSize  uint64 // BatchBufferSize (0 = practically unlimited): the byte limit of a batch
	TargetDb int
	DbMap    map[int]int
	Black    []int
	Start    int64
	Items    []Item
	Ticks    map[int][]string // gap index (0 = before item 1) -> ticks fired there, per run
	Crash    []int            // per run: die after k requests of that run (-1 = none)
	IdleRun  bool             // additionally stop/start once with no traffic
	Desc     string
}

// ---------------------------------------------------------------------------
// scenario generation

func genItems(r *hx.Rng, n int, sc *Scenario) {
	off := sc.Start
	idx := 0
	add := func(k string, d int, name string, args ...[]byte) {
		idx++
		all := append([][]byte{[]byte(name)}, args...)
		enc := hx.EncodeCmd(all...)
		off += int64(len(enc))
		sc.Items = append(sc.Items, Item{K: k, D: d, E: off, Name: strings.ToLower(name), Args: args, Enc: enc})
	}
	val := func() []byte {
		tag := []byte(fmt.Sprintf("v%d:", idx+1))
		switch r.Intn(6) {
		case 0:
			return append(tag, "\r\n$3\r\n*1\r\n"...)
		case 1:
			return append(tag, r.Bytes(r.Intn(20))...)
		case 2:
			return append(tag, 0, 0xff, 0xfe)
		case 3:
			return append(tag, make([]byte, 300+r.Intn(300))...)
		}
		return tag
	}
	cmd := func() {
		key := []byte(fmt.Sprintf("k:%d", idx+1))
		switch r.Intn(9) {
		case 0:
			add("cmd", 0, "SET", key, val())
		case 1:
			add("cmd", 0, "rpush", key, val(), val())
		case 2:
			add("cmd", 0, "SADD", key, val())
		case 3:
			add("cmd", 0, "hset", key, []byte("f"), val())
		case 4:
			add("cmd", 0, "zadd", key, []byte("1.5"), val())
		case 5:
			add("cmd", 0, "del", key)
		case 6:
			add("cmd", 0, "incr", key)
		case 7:
			add("cmd", 0, "append", key, val())
		case 8:
			add("cmd", 0, "set", key, []byte{}) // empty argument
		}
	}
	inGroup := 0
	for len(sc.Items) < n {
		if inGroup > 0 {
			if r.Chance(15) {
				// a transaction that touches two databases carries the database switch inside the group
				d := r.Intn(3)
				add("sel", d, "SELECT", []byte(strconv.Itoa(d)))
			}
			cmd()
			inGroup--
			if inGroup == 0 {
				if r.Chance(25) {
					// the last command of the group is one the filter removes (what an upstream instance of the tool writes
					// at the end of each of its transactions)
					add("flt", 0, "hset", []byte(fmt.Sprintf("redis-gunyu-checkpoint:%d", idx+1)), []byte("f"), []byte("x"))
				}
				add("exec", 0, "EXEC")
			}
			continue
		}
		switch x := r.Intn(100); {
		case x < 45:
			cmd()
		case x < 60:
			add("sel", r.Intn(3), "SELECT", nil)
			it := &sc.Items[len(sc.Items)-1]
			// re-encode with the real argument
			off -= int64(len(it.Enc))
			it.Args = [][]byte{[]byte(strconv.Itoa(it.D))}
			it.Enc = hx.EncodeCmd([]byte("SELECT"), it.Args[0])
			off += int64(len(it.Enc))
			it.E = off
		case x < 75:
			add("multi", 0, "MULTI")
			inGroup = 1 + r.Intn(3)
		case x < 83:
			add("ping", 0, "PING")
		case x < 88:
			add("adm", 0, "REPLCONF", []byte("GETACK"), []byte("*"))
		case x < 91:
			add("adm", 0, "publish", []byte("__sentinel__:hello"), []byte("x"))
		case x < 96:
			add("flt", 0, "set", []byte(fmt.Sprintf("redis-gunyu-checkpoint:%d", idx+1)), []byte("x"))
		default:
			add("flt", 0, "SPOP", []byte(fmt.Sprintf("k:%d", idx+1)))
		}
	}
	if inGroup > 0 {
		for ; inGroup > 0; inGroup-- {
			cmd()
		}
		add("exec", 0, "EXEC")
	}
}

// itemsFromShape builds a concrete stream for a TLC-enumerated shape.
func itemsFromShape(r *hx.Rng, shape []string, sc *Scenario) {
	off := sc.Start
	for i, k := range shape {
		var name string
		var args [][]byte
		kind, d := k, 0
		key := []byte(fmt.Sprintf("k:%d", i+1))
		val := append([]byte(fmt.Sprintf("v%d:", i+1)), r.Bytes(r.Intn(6))...)
		switch k {
		case "cmd":
			switch r.Intn(4) {
			case 0:
				name, args = "SET", [][]byte{key, val}
			case 1:
				name, args = "rpush", [][]byte{key, val}
			case 2:
				name, args = "hset", [][]byte{key, []byte("f"), val}
			default:
				name, args = "incr", [][]byte{key}
			}
		case "sel0", "sel1", "sel2":
			kind, d = "sel", int(k[3]-'0')
			name, args = "SELECT", [][]byte{[]byte(strconv.Itoa(d))}
		case "multi":
			name = "MULTI"
		case "exec":
			name = "EXEC"
		case "ping":
			name = "PING"
		case "flt":
			if r.Bool() {
				name, args = "set", [][]byte{[]byte(fmt.Sprintf("redis-gunyu-checkpoint:%d", i+1)), []byte("x")}
			} else {
				name, args = "REPLCONF", [][]byte{[]byte("GETACK"), []byte("*")}
			}
		default:
			hx.Fatal("unknown shape item %q", k)
		}
		enc := hx.EncodeCmd(append([][]byte{[]byte(name)}, args...)...)
		off += int64(len(enc))
		sc.Items = append(sc.Items, Item{K: kind, D: d, E: off, Name: strings.ToLower(name), Args: args, Enc: enc})
	}
}

func bufSize(sc *Scenario) uint64 {
	if sc.BufSize == 0 {
		return 1 << 40
	}
	return sc.BufSize
}

func genScenario(r *hx.Rng, id int, maxItems int) *Scenario {
	sc := &Scenario{ID: id, TargetDb: -1, Start: int64(100 + r.Intn(1000)), Ticks: map[int][]string{}}
	sc.Txn = r.Bool()
	sc.Pipe = r.Chance(25)
	sc.Batch = 1 + r.Intn(3)
	switch r.Intn(8) {
	case 0:
		sc.DbMap = map[int]int{1: 0}
	case 1:
		sc.DbMap = map[int]int{1: 2, 2: 1}
	case 2:
		sc.Black = []int{1}
	case 3:
		sc.TargetDb = 3
	case 4:
		// source and target numbers overlap: a swap, a rotation (the target db of one source db is the number
		// of another source db)
		sc.DbMap = map[int]int{0: 1, 1: 0}
	case 5:
		sc.DbMap = map[int]int{0: 1, 1: 2, 2: 0}
	}
	if r.Chance(30) {
		// byte-limited batches: a few commands fill a batch, a long value overflows it on its own
		sc.BufSize = uint64(30 + r.Intn(150))
		sc.Batch = 2 + r.Intn(4)
	}
	n := 1 + r.Intn(maxItems)
	genItems(r, n, sc)
	return sc
}

func (sc *Scenario) mapDb(d int) int {
	if sc.TargetDb != -1 {
		return sc.TargetDb
	}
	if t, ok := sc.DbMap[d]; ok {
		return t
	}
	return d
}

func (sc *Scenario) tickKinds() []string {
	if sc.Txn {
		return []string{"keepalive", "batch"}
	}
	return []string{"keepalive", "batch", "checkpoint"}
}

// ---------------------------------------------------------------------------
// gate

type gateState struct {
	qlen  int
	last  int64
	inTxn bool
}

type gate struct {
	arrive  chan gateState
	release chan struct{}
	dead    chan struct{}
	mu      sync.Mutex
	ticks   map[string]chan time.Time
	sendBuf reflect.Value
	st      gateState
}

var curGate struct {
	sync.Mutex
	g *gate
}

func installHooks() {
	verifhook.SetTicker(func(name string, t *time.Ticker) {
		curGate.Lock()
		g := curGate.g
		curGate.Unlock()
		if g == nil {
			return
		}
		ch := make(chan time.Time, 1)
		t.C = ch
		g.mu.Lock()
		g.ticks[name] = ch
		g.mu.Unlock()
	})
	verifhook.SetPoint(func(name string, args ...interface{}) {
		if name != "sendCmdsBatch.loop" {
			return
		}
		curGate.Lock()
		g := curGate.g
		curGate.Unlock()
		if g == nil {
			return
		}
		st := gateState{qlen: args[0].(int), last: args[1].(int64), inTxn: args[2].(bool)}
		g.mu.Lock()
		g.sendBuf = reflect.ValueOf(args[3])
		g.mu.Unlock()
		select {
		case g.arrive <- st:
		case <-g.dead:
			return
		}
		select {
		case <-g.release:
		case <-g.dead:
		}
	})
}

// ---------------------------------------------------------------------------

type runner struct {
	sc      *Scenario
	srv     *fakeredis.Server
	tr      *hx.Trace
	emitted int // raw entries already projected
	stats   *Stats
}

type Stats struct {
	Scenarios     int            `json:"scenarios"`
	Runs          int            `json:"runs"`
	CrashRuns     int            `json:"crash_runs"`
	Events        int            `json:"events"`
	Requests      int            `json:"requests"`
	NotReproduced int            `json:"not_reproduced"`
	Kinds         map[string]int `json:"kinds"`
	Samples       []interface{}  `json:"samples"`
	Distinct      int            `json:"distinct_scenarios"`
	Shapes        int            `json:"shapes"`
}

func (rn *runner) redisCfg() config.RedisConfig {
	return config.RedisConfig{Addresses: []string{rn.srv.Addr()}, Type: config.RedisTypeStandalone, Otype: config.RedisTypeStandalone, Version: "7.0.0"}
}

func (rn *runner) newOutput() *syncer.RedisOutput {
	sc := rn.sc
	cfg := syncer.RedisOutputConfig{
		InputName: "verif", CheckpointName: cpName, RunId: runID, CanTransaction: sc.Txn,
		Redis: rn.redisCfg(), EnableResumeFromBreakPoint: true,
		TargetDb: sc.TargetDb, TargetDbMap: sc.DbMap,
		BatchCmdCount: uint(sc.Batch), BatchTicker: time.Hour, BatchBufferSize: bufSize(sc),
		KeepaliveTicker: time.Hour, UpdateCheckpointTicker: time.Hour,
		ReplayPipeline: sc.Pipe, ReplayRdbParallel: 1,
		Stats:  config.OutputStats{DisableLog: true},
		Filter: config.FilterConfig{DbBlacklist: sc.Black, CmdBlacklist: []string{"spop"}},
	}
	return syncer.NewRedisOutput(cfg)
}

// project turns a raw request into a trace event (nil = not recorded).
func (rn *runner) project(e fakeredis.Entry) map[string]interface{} {
	ev := map[string]interface{}{"ev": "Req", "c": e.Conn}
	switch e.Name {
	case "multi", "exec":
		ev["t"] = e.Name
		return ev
	case "select":
		ev["t"] = "sel"
		n, err := strconv.Atoi(string(e.Args[0]))
		if err != nil {
			n = -1
		}
		ev["v"] = n
		return ev
	case "ping", "info", "exists", "hgetall", "hget", "type", "pttl", "config", "cluster", "command", "echo", "dbsize", "keys", "scan":
		return nil
	}
	if len(e.Args) > 0 && string(e.Args[0]) == cpName {
		switch e.Name {
		case "hset":
			off, run, mt := -2, false, false
			for i := 1; i+1 < len(e.Args); i += 2 {
				f := string(e.Args[i])
				if !strings.HasPrefix(f, runID) {
					off = -3
					continue
				}
				switch {
				case strings.HasSuffix(f, "_offset"):
					n, err := strconv.ParseInt(string(e.Args[i+1]), 10, 32)
					if err != nil {
						off = -3
					} else {
						off = int(n)
					}
				case strings.HasSuffix(f, "_runid"):
					run = string(e.Args[i+1]) == runID
				case strings.HasSuffix(f, "_mtime"):
					mt = true
				}
			}
			ev["t"], ev["off"], ev["run"], ev["mt"] = "cp", off, run, mt
			return ev
		default:
			ev["t"] = "del"
			return ev
		}
	}
	// data command: identify the stream item it is byte-identical to
	ev["t"] = "cmd"
	ev["v"] = 0
	for i, it := range rn.sc.Items {
		if it.K == "sel" || it.K == "multi" || it.K == "exec" || it.K == "ping" {
			continue
		}
		if it.Name != e.Name || len(it.Args) != len(e.Args) {
			continue
		}
		same := true
		for j := range it.Args {
			if string(it.Args[j]) != string(e.Args[j]) {
				same = false
				break
			}
		}
		if same {
			ev["v"] = i + 1
			break
		}
	}
	return ev
}

func (rn *runner) flushRaw() {
	raw := rn.srv.RawCopy()
	for _, e := range raw[rn.emitted:] {
		if ev := rn.project(e); ev != nil {
			rn.tr.Emit(ev)
			rn.stats.Events++
		}
		rn.stats.Requests++
	}
	rn.emitted = len(raw)
}

// waitServerIdle waits until no client connection is open at the fake.
func (rn *runner) waitNoConns() {
	deadline := time.Now().Add(5 * time.Second)
	for time.Now().Before(deadline) {
		if rn.srv.ConnCount() == 0 {
			return
		}
		time.Sleep(200 * time.Microsecond)
	}
	hx.Fatal("fake target still has open connections after the run ended")
}

func (rn *runner) dataApplied() int {
	n := 0
	seen := map[int]bool{}
	for _, e := range rn.srv.LogCopy() {
		ev := rn.project(e)
		if ev != nil && ev["t"] == "cmd" {
			if v := ev["v"].(int); v > 0 && !seen[v] {
				seen[v] = true
				n++
			}
		}
	}
	return n
}

// one run: StartPoint, Send from the resume offset in lockstep.  Returns false
// when the scenario cannot continue (resume point unusable).
func (rn *runner) run(runNo int, crashAfter int, last bool) (cont bool, died bool) {
	sc := rn.sc
	rn.stats.Runs++
	ro := rn.newOutput()
	ctx, cancel := context.WithCancel(context.Background())
	defer cancel()
	sp, err := ro.StartPoint(ctx, []string{runID})
	if err != nil {
		hx.Fatal("StartPoint: %v", err)
	}
	rn.flushRaw()
	rid := sp.RunId
	if rid == runID {
		rid = "A"
	}
	rn.tr.Emit(map[string]interface{}{"ev": "Resume", "off": int(sp.Offset), "db": sp.DbId, "rid": rid})
	// locate the resume position
	first := -1
	if sp.Offset == sc.Start {
		first = 0
	}
	for i, it := range sc.Items {
		if it.E == sp.Offset {
			first = i + 1
		}
	}
	if first < 0 || rid != "A" {
		return false, false
	}

	g := &gate{arrive: make(chan gateState), release: make(chan struct{}), dead: make(chan struct{}), ticks: map[string]chan time.Time{}}
	curGate.Lock()
	curGate.g = g
	curGate.Unlock()
	defer func() {
		close(g.dead)
		curGate.Lock()
		curGate.g = nil
		curGate.Unlock()
	}()

	feed := hx.NewFeedReader()
	reader := hx.NewChanReader(feed, true, runID, sp.Offset, -1)
	base := rn.srv.RecvCount()
	if crashAfter >= 0 {
		rn.srv.SetCrashAfter(base + crashAfter)
		rn.stats.CrashRuns++
	}
	done := make(chan error, 1)
	go func() { done <- ro.Send(ctx, reader) }()

	ended := false
	var sendErr error
	waitArrive := func() bool {
		if ended {
			return false
		}
		select {
		case st := <-g.arrive:
			g.st = st
			return true
		case sendErr = <-done:
			ended = true
			return false
		case <-time.After(20 * time.Second):
			hx.Fatal("scenario %d: sender neither arrived at the gate nor returned", sc.ID)
		}
		return false
	}
	release := func() {
		select {
		case g.release <- struct{}{}:
		case <-time.After(20 * time.Second):
			hx.Fatal("scenario %d: sender is not waiting at the gate", sc.ID)
		}
	}
	crashed := func() bool { return rn.srv.IsCrashed() }
	drained := func() bool {
		if feed.WaitDrained(crashed, 20*time.Second) {
			return true
		}
		if !crashed() {
			hx.Fatal("scenario %d: parser did not consume the fed bytes", sc.ID)
		}
		return false
	}
	bufLen := func() int {
		g.mu.Lock()
		defer g.mu.Unlock()
		if !g.sendBuf.IsValid() {
			return 0
		}
		return g.sendBuf.Len()
	}
	drain := func() bool {
		for bufLen() > 0 {
			release()
			if !waitArrive() {
				return false
			}
		}
		return true
	}
	tick := func(kind string) bool {
		g.mu.Lock()
		ch := g.ticks[kind]
		g.mu.Unlock()
		if ch == nil {
			hx.Fatal("ticker %q was not registered by the hook", kind)
		}
		ch <- time.Now()
		release()
		return waitArrive()
	}
	ok := waitArrive() // first arrival: loop entered
	if ok {
		ok = drained() && drain()
	}
	fireGap := func(gap int) bool {
		for _, k := range sc.Ticks[gap+1000*runNo] {
			if !tick(k) {
				return false
			}
		}
		return true
	}
	if ok {
		ok = fireGap(first)
	}
	for i := first; ok && i < len(sc.Items); i++ {
		feed.Feed(sc.Items[i].Enc)
		if ok = drained() && drain(); !ok {
			break
		}
		ok = fireGap(i + 1)
	}
	if ok && g.st.qlen > 0 && !g.st.inTxn {
		ok = tick("batch")
	}
	if ok {
		// everything fed and flushed: wait until the target has executed it
		want := 0
		for i := range sc.Items {
			if sc.isData(i) {
				want++
			}
		}
		// (1 s without a further applied command, not 1 s in all)
		deadline := time.Now().Add(1 * time.Second)
		lastN := -1
		for rn.dataApplied() < want && time.Now().Before(deadline) {
			if n := rn.dataApplied(); n != lastN {
				lastN = n
				deadline = time.Now().Add(1 * time.Second)
			}
			time.Sleep(300 * time.Microsecond)
		}
	}
	// stop the run
	cancel()
	if !ended {
		spinStart := time.Now()
		for spins := 0; ; spins++ {
			if spins == 2000 {
				// the stopped run keeps looping: end the byte source as a closed channel reader would
				feed.CloseWith(io.EOF)
			}
			// (time based: on a loaded machine the goroutine that turns the cancelled context into a closed
			// replay wait may be scheduled late while this hand-shake loop runs at full speed)
			if spins > 200000 && time.Since(spinStart) > 10*time.Second {
				hx.Fatal("scenario %d: sender loop keeps spinning after cancel", sc.ID)
			}
			if spins > 2000 && spins%64 == 0 {
				time.Sleep(50 * time.Microsecond)
			}
			select {
			case g.release <- struct{}{}:
				continue
			case <-g.arrive:
				continue
			case sendErr = <-done:
				ended = true
			case <-time.After(20 * time.Second):
				hx.Fatal("scenario %d: Send did not return after cancel", sc.ID)
			}
			break
		}
	}
	_ = sendErr
	// the fake has consumed everything the client wrote once no connection is left
	rn.waitNoConns()
	died = rn.srv.IsCrashed()
	if died {
		rn.flushRaw()
		rn.tr.Emit(map[string]interface{}{"ev": "Crash"})
		rn.srv.Revive()
		return true, true
	}
	rn.srv.SetCrashAfter(-1)
	rn.flushRaw()
	if ok {
		rn.tr.Emit(map[string]interface{}{"ev": "Quiesce"})
	} else {
		rn.stats.NotReproduced++
	}
	return true, false
}

func (sc *Scenario) isData(i int) bool {
	if sc.Items[i].K != "cmd" {
		return false
	}
	d := 0
	for j := 0; j <= i; j++ {
		if sc.Items[j].K == "sel" {
			d = sc.Items[j].D
		}
	}
	for _, b := range sc.Black {
		if b == d {
			return false
		}
	}
	return true
}

func runScenario(sc *Scenario, tr *hx.Trace, stats *Stats) (recv int) {
	srv := fakeredis.New()
	srv.KeepRaw = true
	if _, err := srv.Start(); err != nil {
		hx.Fatal("fake target: %v", err)
	}
	defer srv.Close()
	rn := &runner{sc: sc, srv: srv, tr: tr, stats: stats}
	stats.Scenarios++
	if os.Getenv("VERIF_TIMING") != "" {
		t0 := time.Now()
		defer func() {
			fmt.Fprintf(os.Stderr, "scenario %d %s pipe=%v txn=%v crash=%v: %v\n", sc.ID, sc.Desc, sc.Pipe, sc.Txn, sc.Crash, time.Since(t0))
		}()
	}

	light := make([]lightItem, len(sc.Items))
	for i, it := range sc.Items {
		light[i] = lightItem{it.K, it.D, it.E}
	}
	items, _ := json.Marshal(light)
	if scenOut != nil {
		b, _ := json.Marshal(sc)
		scenOut.Write(append(b, '\n'))
	}
	mp := make([]int, 16)
	bl := make([]bool, 16)
	for d := 0; d < 16; d++ {
		mp[d] = sc.mapDb(d)
	}
	for _, b := range sc.Black {
		bl[b] = true
	}
	tr.Emit(map[string]interface{}{"ev": "Reset", "id": sc.ID, "txn": sc.Txn, "start": int(sc.Start),
		"items": json.RawMessage(items), "map": mp, "bl": bl})
	// completed full sync at sc.Start, written through the real SetCheckpoint
	cli, err := client.NewRedis(rn.redisCfg())
	if err != nil {
		hx.Fatal("connect: %v", err)
	}
	// the source's database at the start offset is 0; the position lives in the database it maps to
	if _, err := cli.Do("select", sc.mapDb(0)); err != nil {
		hx.Fatal("seed select: %v", err)
	}
	if err := checkpoint.SetCheckpoint(cli, &checkpoint.CheckpointInfo{Key: cpName, RunId: runID, Offset: sc.Start, Version: config.Version}); err != nil {
		hx.Fatal("seed checkpoint: %v", err)
	}
	cli.Close()
	rn.waitNoConns()
	rn.flushRaw()
	tr.Emit(map[string]interface{}{"ev": "Seeded"})

	for r := 0; ; r++ {
		crash := -1
		if r < len(sc.Crash) {
			crash = sc.Crash[r]
		}
		cont, died := rn.run(r, crash, !(r < len(sc.Crash)))
		if r == 0 {
			recv = srv.RecvCount()
		}
		if !cont {
			break
		}
		if !died && r >= len(sc.Crash)-1 {
			break
		}
		if r > 6 {
			break
		}
	}
	if sc.IdleRun {
		rn.run(9, -1, true)
	}
	return recv
}

var scenOut *os.File

func clone(sc *Scenario) *Scenario {
	c := *sc
	c.Ticks = map[int][]string{}
	for k, v := range sc.Ticks {
		c.Ticks[k] = append([]string{}, v...)
	}
	c.Crash = append([]int{}, sc.Crash...)
	return &c
}

func describe(sc *Scenario) map[string]interface{} {
	var ks []string
	for _, it := range sc.Items {
		k := it.K
		if k == "sel" {
			k += strconv.Itoa(it.D)
		}
		ks = append(ks, k)
	}
	return map[string]interface{}{"id": sc.ID, "txn": sc.Txn, "pipeline": sc.Pipe, "batch": sc.Batch, "items": strings.Join(ks, " "),
		"ticks": fmt.Sprint(sc.Ticks), "crash": sc.Crash, "dbmap": fmt.Sprint(sc.DbMap), "targetDb": sc.TargetDb, "blacklist": sc.Black}
}

func main() {
	seed := flag.Uint64("seed", 1, "seed")
	n := flag.Int("n", 50, "base scenarios")
	maxItems := flag.Int("max-items", 7, "max stream items")
	crashStride := flag.Int("crash-stride", 1, "enumerate every k-th crash point")
	maxCrash := flag.Int("max-crash-runs", 40, "crash runs per base scenario")
	out := flag.String("out", "trace.ndjson", "trace file")
	statsPath := flag.String("stats", "stats.json", "stats file")
	shard := flag.Int("shard", 0, "shard index")
	shards := flag.Int("shards", 1, "number of shards")
	replay := flag.String("replay", "", "replay one scenario description (json)")
	scenPath := flag.String("scen", "", "write full scenario descriptions (ndjson)")
	shapesPath := flag.String("shapes", "", "TLC-enumerated stream shapes (ndjson) replayed exhaustively")
	shapeCrashStride := flag.Int("shape-crash-stride", 0, "crash every k-th request of each shape run (0 = none)")
	flag.Parse()
	hx.QuietLogs()
	installHooks()
	tr, err := hx.NewTrace(*out)
	if err != nil {
		hx.Fatal("%v", err)
	}
	stats := &Stats{Kinds: map[string]int{}}
	if *scenPath != "" {
		scenOut, err = os.Create(*scenPath)
		if err != nil {
			hx.Fatal("%v", err)
		}
		defer scenOut.Close()
	}
	if *replay != "" {
		b, err := os.ReadFile(*replay)
		if err != nil {
			hx.Fatal("%v", err)
		}
		var wrap struct {
			Scenario *Scenario `json:"scenario"`
		}
		if err := json.Unmarshal(b, &wrap); err != nil || wrap.Scenario == nil {
			hx.Fatal("replay file %s has no scenario: %v", *replay, err)
		}
		runScenario(wrap.Scenario, tr, stats)
		if err := tr.Close(); err != nil {
			hx.Fatal("%v", err)
		}
		hx.WriteJSON(*statsPath, stats)
		return
	}

	id := 0
	nextID := func() int { id++; return id*(*shards) + *shard }
	if *shapesPath != "" {
		f, err := os.Open(*shapesPath)
		if err != nil {
			hx.Fatal("%v", err)
		}
		scn := bufio.NewScanner(f)
		scn.Buffer(make([]byte, 1<<20), 1<<24)
		ln := 0
		for scn.Scan() {
			ln++
			if ln%*shards != *shard {
				continue
			}
			var sh struct {
				S []string `json:"s"`
			}
			if err := json.Unmarshal(scn.Bytes(), &sh); err != nil {
				hx.Fatal("shapes: %v", err)
			}
			r := hx.NewRng(*seed*7_000_003 + uint64(ln))
			for _, txn := range []bool{true, false} {
				base := &Scenario{TargetDb: -1, Start: int64(100 + r.Intn(1000)), Ticks: map[int][]string{}, Txn: txn, Batch: 2, Desc: "shape"}
				// every third shape under a db map whose source and target numbers overlap
				switch ln % 6 {
				case 1:
					base.DbMap = map[int]int{0: 1, 1: 0}
				case 4:
					base.DbMap = map[int]int{0: 1, 1: 2, 2: 0}
				case 2:
					// a configured-out database: the stream enters and leaves it, also inside a transaction
					base.Black = []int{1}
				}
				itemsFromShape(r, sh.S, base)
				s0 := clone(base)
				s0.ID = nextID()
				total := runScenario(s0, tr, stats)
				stats.Shapes++
				if ln%6 == 2 {
					// the TLC schedules that matter around a configured-out database: one tick in one gap of the stream
					kinds := base.tickKinds()
					for gp := 1; gp < len(base.Items); gp++ {
						s := clone(base)
						s.ID = nextID()
						s.Ticks[gp] = []string{kinds[(ln+gp)%len(kinds)]}
						s.Desc = "shape-tick"
						runScenario(s, tr, stats)
					}
				}
				if *shapeCrashStride > 0 {
					for k := 1 + r.Intn(*shapeCrashStride); k <= total; k += *shapeCrashStride {
						s := clone(base)
						s.ID = nextID()
						s.Crash = []int{k}
						s.Desc = "shape-crash"
						runScenario(s, tr, stats)
					}
				}
			}
		}
		f.Close()
	}
	for b := 0; b < *n; b++ {
		if b%*shards != *shard {
			continue
		}
		r := hx.NewRng(*seed*1_000_003 + uint64(b))
		base := genScenario(r, 0, *maxItems)
		stats.Distinct++
		// (1) no ticks, no crash
		s0 := clone(base)
		s0.ID = nextID()
		s0.Desc = "plain"
		total := runScenario(s0, tr, stats)
		if len(stats.Samples) < 3 {
			stats.Samples = append(stats.Samples, describe(s0))
		}
		// (2) idle ticks before the first item and random ticks in gaps
		kinds := base.tickKinds()
		for v := 0; v < 3; v++ {
			s := clone(base)
			s.ID = nextID()
			if v == 0 {
				s.Ticks[0] = []string{kinds[r.Intn(len(kinds))]}
				s.Desc = "idle-tick-first"
			} else {
				for gp := 0; gp <= len(s.Items); gp++ {
					if r.Chance(40) {
						s.Ticks[gp] = append(s.Ticks[gp], kinds[r.Intn(len(kinds))])
					}
				}
				s.Desc = "random-ticks"
			}
			s.IdleRun = v == 2
			if s.IdleRun {
				s.Ticks[9000+len(s.Items)] = []string{kinds[r.Intn(len(kinds))]}
			}
			runScenario(s, tr, stats)
			stats.Kinds[s.Desc]++
		}
		// (3) crash after every k-th request of the first run, with and without ticks
		count := 0
		for k := 1; k <= total && count < *maxCrash; k += *crashStride {
			s := clone(base)
			s.ID = nextID()
			s.Crash = []int{k}
			s.Desc = "crash"
			if r.Chance(50) {
				for gp := 0; gp <= len(s.Items); gp++ {
					if r.Chance(30) {
						s.Ticks[gp] = append(s.Ticks[gp], kinds[r.Intn(len(kinds))])
					}
					if r.Chance(30) {
						s.Ticks[1000+gp] = append(s.Ticks[1000+gp], kinds[r.Intn(len(kinds))])
					}
				}
			}
			if r.Chance(20) {
				s.Crash = append(s.Crash, 1+r.Intn(total))
			}
			runScenario(s, tr, stats)
			stats.Kinds[s.Desc]++
			count++
			if len(stats.Samples) < 6 && k == total/2 {
				stats.Samples = append(stats.Samples, describe(s))
			}
		}
	}
	if err := tr.Close(); err != nil {
		hx.Fatal("%v", err)
	}
	hx.WriteJSON(*statsPath, stats)
	fmt.Fprintf(os.Stderr, "replaydrv: %d scenarios, %d runs (%d crash), %d events\n", stats.Scenarios, stats.Runs, stats.CrashRuns, stats.Events)
}
