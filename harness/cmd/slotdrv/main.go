// slotdrv evaluates every slot computation site of the real code on the keys
// enumerated by TLC (spec/SlotScan.tla -> cases.ndjson) and on seeded random
// byte strings, and records the observations for spec/trace/TraceSlot.tla.
package main

import (
	"bufio"
	"bytes"
	"context"
	"encoding/json"
	"flag"
	"fmt"
	"io"
	"os"
	"runtime"
	"sync"
	"time"

	"github.com/mgtv-tech/redis-GunYu/config"
	"github.com/mgtv-tech/redis-GunYu/syncer"
	"verifh/fakeredis"
	"verifh/rdbgen"

	"github.com/mgtv-tech/redis-GunYu/pkg/filter"
	"github.com/mgtv-tech/redis-GunYu/pkg/redis"
	"github.com/mgtv-tech/redis-GunYu/pkg/redis/checkpoint"
	cluster "github.com/mgtv-tech/redis-GunYu/pkg/redis/client/cluster"

	"verifh/hx"
)

type caseLine struct {
	K    []int `json:"k"`
	Slot int   `json:"slot"`
}

func ints(b []byte) []int {
	out := make([]int, len(b))
	for i, x := range b {
		out[i] = int(x)
	}
	return out
}

func main() {
	cases := flag.String("cases", "cases.ndjson", "TLC generated cases")
	out := flag.String("out", "observed.ndjson", "observations")
	statsPath := flag.String("stats", "stats.json", "stats")
	seed := flag.Uint64("seed", 1, "seed")
	nrand := flag.Int("nrand", 2000, "random keys")
	maxLen := flag.Int("max-rand-len", 48, "max random key length")
	ntags := flag.Int("ntags", 512, "slot tags to check (16384 = all)")
	maxUnitKeys := flag.Int("max-unit-keys", 400, "TLC keys replayed as bidirectional replay units")
	flag.Parse()
	hx.QuietLogs()
	tr, err := hx.NewTrace(*out)
	if err != nil {
		hx.Fatal("%v", err)
	}
	id := 0
	emit := func(m map[string]interface{}) {
		id++
		m["id"] = id
		tr.Emit(m)
	}
	ranges := [][2]uint16{{0, 4095}, {4096, 8191}, {8192, 12287}, {12288, 16383}}
	filters := make([]*filter.RedisKeyFilter, len(ranges))
	for i, r := range ranges {
		filters[i] = &filter.RedisKeyFilter{}
		filters[i].InsertSlotWhiteList([][]uint16{{r[0], r[1]}})
	}
	nkeys := 0
	var samples []interface{}
	observe := func(key []byte, hint int) {
		nkeys++
		k := ints(key)
		s1 := redis.KeyToSlot(string(key))
		emit(map[string]interface{}{"site": "KeyToSlot", "k": k, "slot": int(s1)})
		s2, err := cluster.GetSlot(string(key))
		if err != nil {
			hx.Fatal("GetSlot: %v", err)
		}
		emit(map[string]interface{}{"site": "GetSlot", "k": k, "slot": int(s2)})
		s3, _ := cluster.GetSlot(key)
		if s3 != s2 {
			emit(map[string]interface{}{"site": "GetSlot", "k": k, "slot": int(s3)})
		}
		// slot filter decisions on a fixed partition and on the single-slot range of the hint
		fi := nkeys % len(ranges)
		emit(map[string]interface{}{"site": "FilterSlotWhite", "k": k, "lo": int(ranges[fi][0]), "hi": int(ranges[fi][1]),
			"accept": !filters[fi].FilterSlot(string(key))})
		if hint >= 0 {
			f := &filter.RedisKeyFilter{}
			f.InsertSlotWhiteList([][]uint16{{uint16(hint)}})
			emit(map[string]interface{}{"site": "FilterSlotWhite", "k": k, "lo": hint, "hi": hint, "accept": !f.FilterSlot(string(key))})
		}
		if len(samples) < 5 && len(key) > 3 {
			samples = append(samples, map[string]interface{}{"key": fmt.Sprintf("%q", key), "KeyToSlot": s1, "GetSlot": s2})
		}
	}
	ncases := 0
	var unitKeys [][]byte
	if f, err := os.Open(*cases); err == nil {
		sc := bufio.NewScanner(f)
		sc.Buffer(make([]byte, 1<<20), 1<<24)
		for sc.Scan() {
			var c caseLine
			if err := json.Unmarshal(sc.Bytes(), &c); err != nil {
				hx.Fatal("cases: %v", err)
			}
			key := make([]byte, len(c.K))
			for i, x := range c.K {
				key[i] = byte(x)
			}
			observe(key, c.Slot)
			ncases++
			if len(key) > 0 && ncases%7 == int(*seed%7) {
				unitKeys = append(unitKeys, key)
			}
		}
		f.Close()
	} else {
		hx.Fatal("cases file: %v", err)
	}
	r := hx.NewRng(*seed)
	for i := 0; i < *nrand; i++ {
		n := r.Intn(*maxLen + 1)
		key := r.Bytes(n)
		// sprinkle braces
		for j := 0; j < r.Intn(5) && n > 0; j++ {
			if r.Bool() {
				key[r.Intn(n)] = '{'
			} else {
				key[r.Intn(n)] = '}'
			}
		}
		observe(key, -1)
	}
	// slot tags: "{tag}" must hash to the slot it was chosen for
	step := 16384 / *ntags
	if step < 1 {
		step = 1
	}
	ntag := 0
	for s := int(r.Intn(step)); s < 16384; s += step {
		tag := checkpoint.BisyncSlotTag(uint16(s))
		emit(map[string]interface{}{"site": "SlotTag", "k": ints([]byte(tag)), "slot": s})
		ntag++
	}
	// the checkpoint key of a transactional link to one shard of a cluster: picked inside the shard's slot ranges - wide
	// ranges (found at once), a handful of slots (found after some thousand candidates), single slots, and lists whose
	// first range is the narrow one
	nchosen := 0
	chose := func(ranges [][2]int) {
		key := syncer.VerifChoseKeyInSlots(config.CheckpointKey, ranges)
		lo, hi := []int{}, []int{}
		for _, rg := range ranges {
			lo, hi = append(lo, rg[0]), append(hi, rg[1])
		}
		emit(map[string]interface{}{"site": "ChosenKey", "k": ints([]byte(key)), "lo": lo, "hi": hi})
		nchosen++
	}
	for i := 0; i < 24; i++ {
		a := r.Intn(16384)
		switch i % 6 {
		case 0:
			chose([][2]int{{a, a}})
		case 1:
			w := 1 + r.Intn(12)
			if a+w > 16383 {
				a = 16383 - w
			}
			chose([][2]int{{a, a + w}})
		case 2:
			w := 1 + r.Intn(9)
			if a+w > 16383 {
				a = 16383 - w
			}
			b := r.Intn(10000)
			chose([][2]int{{a, a + w}, {b, b + 5461}})
		case 3:
			b := r.Intn(16384)
			chose([][2]int{{a, a}, {b, b}})
		case 4:
			b := r.Intn(10000)
			chose([][2]int{{b, b + 1 + r.Intn(5461)}})
		default:
			w := 20 + r.Intn(60)
			if a+w > 16383 {
				a = 16383 - w
			}
			chose([][2]int{{a, a + w}})
		}
	}
	// the same filter object is shared by the parallel snapshot workers and the command path: its answers must not depend on who
	// else is asking.  Eight goroutines ask one filter about a small set of keys (each repeats its keys); every answer that
	// differs from the one the filter gave when asked alone is recorded (TLC then says which of the two is wrong)
	{
		var ckeys [][]byte
		for i := 0; i < 64; i++ {
			ckeys = append(ckeys, []byte(fmt.Sprintf("order:{u%04d}:items", r.Intn(5000))))
		}
		for fi, f := range filters {
			alone := make([]bool, len(ckeys))
			for i, k := range ckeys {
				alone[i] = !f.FilterSlot(string(k))
			}
			type diff struct {
				k      []byte
				accept bool
			}
			var mu sync.Mutex
			var diffs []diff
			var wg sync.WaitGroup
			for g := 0; g < 8; g++ {
				wg.Add(1)
				go func(g int) {
					defer wg.Done()
					for it := 0; it < 40000; it++ {
						i := (it/3*7 + g*11) % len(ckeys) // every key is asked three times in a row
						if acc := !f.FilterSlot(string(ckeys[i])); acc != alone[i] {
							mu.Lock()
							if len(diffs) < 20 {
								diffs = append(diffs, diff{ckeys[i], acc})
							}
							mu.Unlock()
						}
					}
				}(g)
			}
			wg.Wait()
			for i, k := range ckeys[:8] {
				emit(map[string]interface{}{"site": "FilterSlotWhite", "k": ints(k), "lo": int(ranges[fi][0]), "hi": int(ranges[fi][1]), "accept": alone[i], "concurrent": false})
			}
			for _, d := range diffs {
				emit(map[string]interface{}{"site": "FilterSlotWhite", "k": ints(d.k), "lo": int(ranges[fi][0]), "hi": int(ranges[fi][1]), "accept": d.accept, "concurrent": true})
			}
		}
	}
	// replay units of the bidirectional replay (incremental and snapshot path, with and without hash-tag stripping): the slot a
	// unit is bound to - read off the slot tag of the marker key that leads its transaction - against the key the unit writes
	nunits := 0
	if len(unitKeys) > *maxUnitKeys {
		unitKeys = unitKeys[:*maxUnitKeys]
	}
	for i := 0; i < *nrand/20; i++ {
		n := 1 + r.Intn(24)
		key := r.Bytes(n)
		for j := 0; j < 1+r.Intn(3); j++ {
			key[r.Intn(n)] = "{}"[r.Intn(2)]
		}
		unitKeys = append(unitKeys, key)
	}
	tagSlot := map[string]int{}
	for sl := 0; sl < 16384; sl++ {
		tagSlot[checkpoint.BisyncSlotTag(uint16(sl))] = sl
	}
	for _, path := range []string{"aof", "rdb", "rdb-striptag"} {
		for _, u := range unitSlots(unitKeys, path, tagSlot) {
			emit(map[string]interface{}{"site": "UnitSlot", "k": ints(u.key), "slot": u.slot, "path": path})
			nunits++
		}
	}
	if nunits < len(unitKeys) {
		hx.Fatal("only %d replay units observed for %d keys x 3 paths", nunits, len(unitKeys))
	}
	if err := tr.Close(); err != nil {
		hx.Fatal("%v", err)
	}
	hx.WriteJSON(*statsPath, map[string]interface{}{"unit_slots": nunits, "keys": nkeys, "tlc_cases": ncases, "random": *nrand, "tags": ntag, "observations": id, "samples": samples})
	fmt.Fprintf(os.Stderr, "slotdrv: %d keys, %d observations\n", nkeys, id)
}

type unitObs struct {
	key  []byte
	slot int
}

// unitSlots replays one single-key unit per key through the real bidirectional replay into a one-node cluster fake
// (it owns every slot and answers CROSSSLOT by its own HASH_SLOT) and returns, for every transaction the fake received,
// the business key and the slot the leading marker key's tag stands for.
func unitSlots(keys [][]byte, path string, tagSlot map[string]int) []unitObs {
	const runID = "cccccccccccccccccccccccccccccccccccccccc"
	const cpName = "redis-gunyu-checkpoint-bisync:verifslot"
	var out []unitObs
	// a refused transaction ends the run: go on behind it
	for start := 0; start < len(keys); {
		cs, err := fakeredis.NewCluster(1)
		if err != nil {
			hx.Fatal("%v", err)
		}
		for _, nd := range cs.Nodes {
			nd.KeepRaw = true
			nd.RestoreDecoder = func(key []byte, payload []byte) (*fakeredis.Value, string) {
				return &fakeredis.Value{Type: "string", Str: []byte("x")}, ""
			}
		}
		rcfg := config.RedisConfig{Addresses: cs.Addrs(), Type: config.RedisTypeCluster, Otype: config.RedisTypeCluster, Version: "7.0.0"}
		// what the command layer learns from CLUSTER NODES before it builds the output: one shard that owns every slot
		rcfg.SetClusterShards([]*config.RedisClusterShard{{Slots: config.RedisSlots{Ranges: []config.RedisSlotRange{{Left: 0, Right: 16383}}},
			Master: config.RedisNode{Address: cs.Addrs()[0]}}})
		ro := syncer.NewRedisOutput(syncer.RedisOutputConfig{
			InputName: "verif", CheckpointName: cpName, RunId: runID, BisyncEnabled: true, CanTransaction: true,
			Redis:                      rcfg,
			EnableResumeFromBreakPoint: true, TargetDb: -1, ReplaceHashTag: path == "rdb-striptag",
			BatchCmdCount: 4, BatchTicker: time.Hour, BatchBufferSize: 1 << 30, KeepaliveTicker: time.Hour, UpdateCheckpointTicker: time.Hour,
			ReplayMode: config.ReplayModeSync, Parallelism: 1, ReplayRdbParallel: 1, ReplayRdbEnableRestore: start%2 == 0, MaxProtoBulkLen: 512 << 20, KeyExists: "replace",
			Stats: config.OutputStats{DisableLog: true},
		})
		part := keys[start:]
		if path == "rdb-striptag" {
			var p2 [][]byte
			for _, k := range part {
				if len(k) > 2 || (len(k) > 0 && k[0] != '{' && k[0] != '}') {
					p2 = append(p2, k) // (a key that is nothing but one brace pair strips to the empty key)
				}
			}
			part = p2
		}
		ctx, cancel := context.WithCancel(context.Background())
		done := make(chan error, 1)
		if path == "aof" {
			var stream []byte
			for i, k := range part {
				stream = append(stream, hx.EncodeCmd([]byte("set"), k, []byte(fmt.Sprintf("v%d", start+i)))...)
			}
			feed := hx.NewFeedReader()
			feed.Feed(stream)
			go func() { done <- ro.Send(ctx, hx.NewChanReader(feed, true, runID, 1000, -1)) }()
			// the source goes quiet only after every unit has arrived (or the replay has given up)
			go func() {
				dl := time.Now().Add(20 * time.Second)
				for time.Now().Before(dl) {
					n := 0
					for _, e := range cs.RawMerged() {
						if e.Name == "set" && e.InMulti && len(e.Args) > 0 && !checkpoint.IsBisyncMarkerKey(string(e.Args[0])) {
							n++
						}
					}
					if n >= len(part) || ctx.Err() != nil {
						break
					}
					time.Sleep(2 * time.Millisecond)
				}
				time.Sleep(5 * time.Millisecond)
				feed.CloseWith(io.EOF)
			}()
		} else {
			var es []*rdbgen.Entry
			seen := map[string]bool{}
			for i, k := range part {
				if seen[string(k)] {
					continue
				}
				seen[string(k)] = true
				es = append(es, &rdbgen.Entry{Key: k, Val: rdbgen.Val{Type: "string", Str: []byte(fmt.Sprintf("v%d", start+i))}, Enc: "raw"})
			}
			data, err := rdbgen.Build(es, 10, false)
			if err != nil {
				hx.Fatal("rdbgen: %v", err)
			}
			go func() {
				done <- ro.Send(ctx, hx.NewChanReader(bytes.NewReader(data), false, runID, 1000, int64(len(data))))
			}()
		}
		var sendErr error
		select {
		case sendErr = <-done:
		case <-time.After(60 * time.Second):
			hx.Fatal("unit slot replay (%s) did not return", path)
		}
		cancel()
		// what the fake received, per connection: marker key, then the business key of the same transaction
		marker := map[int]int{}
		got := 0
		for _, e := range cs.RawMerged() {
			if len(e.Args) == 0 {
				continue
			}
			k := string(e.Args[0])
			switch {
			case e.Name == "set" && checkpoint.IsBisyncMarkerKey(k):
				i, j := bytes.LastIndexByte(e.Args[0], '{'), bytes.LastIndexByte(e.Args[0], '}')
				sl, ok := tagSlot[k[i+1:j]]
				if !ok {
					hx.Fatal("marker key %q carries no slot tag of the tool", k)
				}
				marker[e.Conn] = sl
			case (e.Name == "set" || e.Name == "restore") && !checkpoint.IsBisyncMarkerKey(k) && e.InMulti:
				if sl, ok := marker[e.Conn]; ok {
					out = append(out, unitObs{key: append([]byte{}, e.Args[0]...), slot: sl})
					delete(marker, e.Conn)
					got++
				}
			}
		}
		cs.Close()
		runtime.GC()
		if os.Getenv("VERIF_DEBUG") != "" {
			fmt.Fprintf(os.Stderr, "unitSlots %s start=%d part=%d got=%d err=%v\n", path, start, len(part), got, sendErr)
		}
		if path != "aof" {
			// a snapshot is replayed by several workers: everything of this part was sent, or a key is missing
			sent := map[string]bool{}
			for _, o := range out {
				sent[string(o.key)] = true
			}
			for _, k := range part {
				want := k
				if path == "rdb-striptag" {
					want = bytes.Replace(bytes.Replace(k, []byte("{"), nil, 1), []byte("}"), nil, 1)
				}
				if !sent[string(want)] {
					// a unit of one key is always routable: the tool bound it to a slot its key does not hash to, or lost it
					out = append(out, unitObs{key: want, slot: -1})
				}
			}
			break
		}
		if got < len(part) {
			// the run ended at a unit the replay refused: a unit of one key is always routable
			out = append(out, unitObs{key: part[got], slot: -1})
			got++
		}
		start += got
	}
	return out
}
