// slotdrv evaluates every slot computation site of the real code on the keys
// enumerated by TLC (spec/SlotScan.tla -> cases.ndjson) and on seeded random
// byte strings, and records the observations for spec/trace/TraceSlot.tla.
package main

import (
	"bufio"
	"encoding/json"
	"flag"
	"fmt"
	"os"

	"github.com/mgtv-tech/redis-GunYu/pkg/filter"
	"github.com/mgtv-tech/redis-GunYu/pkg/redis"
	"github.com/mgtv-tech/redis-GunYu/pkg/redis/checkpoint"
	cluster "github.com/mgtv-tech/redis-GunYu/pkg/redis/client/cluster"

	"verifh/hx"
)

type caseLine struct {
	K    []int `json:"k"`
	Slot int   `json:"slot"`
}

func ints(b []byte) []int {
	out := make([]int, len(b))
	for i, x := range b {
		out[i] = int(x)
	}
	return out
}

func main() {
	cases := flag.String("cases", "cases.ndjson", "TLC generated cases")
	out := flag.String("out", "observed.ndjson", "observations")
	statsPath := flag.String("stats", "stats.json", "stats")
	seed := flag.Uint64("seed", 1, "seed")
	nrand := flag.Int("nrand", 2000, "random keys")
	maxLen := flag.Int("max-rand-len", 48, "max random key length")
	ntags := flag.Int("ntags", 512, "slot tags to check (16384 = all)")
	flag.Parse()
	hx.QuietLogs()
	tr, err := hx.NewTrace(*out)
	if err != nil {
		hx.Fatal("%v", err)
	}
	id := 0
	emit := func(m map[string]interface{}) {
		id++
		m["id"] = id
		tr.Emit(m)
	}
	ranges := [][2]uint16{{0, 4095}, {4096, 8191}, {8192, 12287}, {12288, 16383}}
	filters := make([]*filter.RedisKeyFilter, len(ranges))
	for i, r := range ranges {
		filters[i] = &filter.RedisKeyFilter{}
		filters[i].InsertSlotWhiteList([][]uint16{{r[0], r[1]}})
	}
	nkeys := 0
	var samples []interface{}
	observe := func(key []byte, hint int) {
		nkeys++
		k := ints(key)
		s1 := redis.KeyToSlot(string(key))
		emit(map[string]interface{}{"site": "KeyToSlot", "k": k, "slot": int(s1)})
		s2, err := cluster.GetSlot(string(key))
		if err != nil {
			hx.Fatal("GetSlot: %v", err)
		}
		emit(map[string]interface{}{"site": "GetSlot", "k": k, "slot": int(s2)})
		s3, _ := cluster.GetSlot(key)
		if s3 != s2 {
			emit(map[string]interface{}{"site": "GetSlot", "k": k, "slot": int(s3)})
		}
		// slot filter decisions on a fixed partition and on the single-slot range of the hint
		fi := nkeys % len(ranges)
		emit(map[string]interface{}{"site": "FilterSlotWhite", "k": k, "lo": int(ranges[fi][0]), "hi": int(ranges[fi][1]),
			"accept": !filters[fi].FilterSlot(string(key))})
		if hint >= 0 {
			f := &filter.RedisKeyFilter{}
			f.InsertSlotWhiteList([][]uint16{{uint16(hint)}})
			emit(map[string]interface{}{"site": "FilterSlotWhite", "k": k, "lo": hint, "hi": hint, "accept": !f.FilterSlot(string(key))})
		}
		if len(samples) < 5 && len(key) > 3 {
			samples = append(samples, map[string]interface{}{"key": fmt.Sprintf("%q", key), "KeyToSlot": s1, "GetSlot": s2})
		}
	}
	ncases := 0
	if f, err := os.Open(*cases); err == nil {
		sc := bufio.NewScanner(f)
		sc.Buffer(make([]byte, 1<<20), 1<<24)
		for sc.Scan() {
			var c caseLine
			if err := json.Unmarshal(sc.Bytes(), &c); err != nil {
				hx.Fatal("cases: %v", err)
			}
			key := make([]byte, len(c.K))
			for i, x := range c.K {
				key[i] = byte(x)
			}
			observe(key, c.Slot)
			ncases++
		}
		f.Close()
	} else {
		hx.Fatal("cases file: %v", err)
	}
	r := hx.NewRng(*seed)
	for i := 0; i < *nrand; i++ {
		n := r.Intn(*maxLen + 1)
		key := r.Bytes(n)
		// sprinkle braces
		for j := 0; j < r.Intn(5) && n > 0; j++ {
			if r.Bool() {
				key[r.Intn(n)] = '{'
			} else {
				key[r.Intn(n)] = '}'
			}
		}
		observe(key, -1)
	}
	// slot tags: "{tag}" must hash to the slot it was chosen for
	step := 16384 / *ntags
	if step < 1 {
		step = 1
	}
	ntag := 0
	for s := int(r.Intn(step)); s < 16384; s += step {
		tag := checkpoint.BisyncSlotTag(uint16(s))
		emit(map[string]interface{}{"site": "SlotTag", "k": ints([]byte(tag)), "slot": s})
		ntag++
	}
	if err := tr.Close(); err != nil {
		hx.Fatal("%v", err)
	}
	hx.WriteJSON(*statsPath, map[string]interface{}{"keys": nkeys, "tlc_cases": ncases, "random": *nrand, "tags": ntag, "observations": id, "samples": samples})
	fmt.Fprintf(os.Stderr, "slotdrv: %d keys, %d observations\n", nkeys, id)
}
