// hadrv runs two real syncer instances of one source shard: instance A as leader
// (RunLeader: PSYNC client, cache, output replay to the target), instance B as
// follower copying A's cache over loopback gRPC (RunFollower -> ServiceReplica).
// While the fake master's stream grows (with the source-side faults of e2edrv) A
// is stopped and B is promoted: B starts RunLeader on the cache it built as a
// follower and the resume position stored on the target.  The target's final
// lists are judged by spec/trace/TraceE2E.tla (hand-over part of C16 / C06).
package main

import (
	"flag"
	"fmt"
	"os"
	"path/filepath"
	"strconv"
	"strings"
	"sync"
	"time"

	"google.golang.org/grpc"

	"github.com/mgtv-tech/redis-GunYu/config"
	pb "github.com/mgtv-tech/redis-GunYu/pkg/api/golang"
	"github.com/mgtv-tech/redis-GunYu/pkg/cluster"
	"github.com/mgtv-tech/redis-GunYu/pkg/redis/checkpoint"
	"github.com/mgtv-tech/redis-GunYu/pkg/redis/client"
	"github.com/mgtv-tech/redis-GunYu/syncer"

	"verifh/fakeredis"
	"verifh/fakesrc"
	"verifh/hx"
)

type replicaAPI struct {
	pb.UnimplementedApiServiceServer
	mu sync.Mutex
	sy syncer.Syncer
}

func (a *replicaAPI) Sync(req *pb.SyncRequest, stream pb.ApiService_SyncServer) error {
	a.mu.Lock()
	sy := a.sy
	a.mu.Unlock()
	if sy == nil {
		return fmt.Errorf("no leader")
	}
	return sy.ServiceReplica(req, stream)
}

// instance keeps a syncer running in a role; a run that ends with an error is restarted (as cmd/syncer.go does)
type instance struct {
	cfg      syncer.SyncerConfig
	mu       sync.Mutex
	sy       syncer.Syncer
	stopped  bool
	done     chan struct{}
	restarts int
	api      *replicaAPI
}

func (in *instance) run(leaderOf *cluster.RoleInfo) {
	in.mu.Lock()
	in.stopped = false
	in.done = make(chan struct{})
	in.mu.Unlock()
	go func() {
		defer close(in.done)
		for {
			sy := syncer.NewSyncer(in.cfg)
			in.mu.Lock()
			if in.stopped {
				in.mu.Unlock()
				return
			}
			in.sy = sy
			in.mu.Unlock()
			if in.api != nil {
				in.api.mu.Lock()
				in.api.sy = sy
				in.api.mu.Unlock()
			}
			var err error
			if leaderOf == nil {
				err = sy.RunLeader()
			} else {
				err = sy.RunFollower(leaderOf)
			}
			in.mu.Lock()
			stop := in.stopped || in.restarts >= 12
			in.restarts++
			in.mu.Unlock()
			_ = err
			if stop {
				return
			}
			time.Sleep(50 * time.Millisecond)
		}
	}()
}

func (in *instance) stop() {
	in.mu.Lock()
	in.stopped = true
	sy := in.sy
	done := in.done
	in.mu.Unlock()
	if sy != nil {
		sy.Stop()
	}
	if done != nil {
		select {
		case <-done:
		case <-time.After(40 * time.Second):
			hx.Fatal("a syncer instance did not stop")
		}
	}
}

type scenario struct {
	id     int
	txn    bool
	nkeys  int
	ncmds  int
	faults []string
	// when the leader changes: after this many commands; promote = the follower takes over, else A restarts itself
	switchAt  int
	memLeader bool // instance A uses the memory cache
}

func runScenario(sc *scenario, tr *hx.Trace, work string, r *hx.Rng) {
	var keys [][]byte
	var initial [][][]byte
	for k := 0; k < sc.nkeys; k++ {
		keys = append(keys, []byte(fmt.Sprintf("k%d", k)))
		var init [][]byte
		for j := 0; j < r.Intn(3); j++ {
			init = append(init, []byte(fmt.Sprintf("s%d.%d", k, j+1)))
		}
		initial = append(initial, init)
	}
	src := fakesrc.New(int64(1000+r.Intn(9000)), keys, initial)
	defer src.Close()
	tgt := fakeredis.New()
	tgt.RealClock = true
	if _, err := tgt.Start(); err != nil {
		hx.Fatal("%v", err)
	}
	defer tgt.Close()
	tgt.RestoreDecoder = func(key []byte, payload []byte) (*fakeredis.Value, string) {
		src.Mu.Lock()
		defer src.Mu.Unlock()
		m := int64(-1)
		for _, o := range src.Obs {
			if o.Reply == "full" {
				m = o.M
			}
		}
		for ki, k := range src.Keys {
			if string(k) == string(key) {
				return &fakeredis.Value{Type: "list", List: src.ListAt(ki, m)}, ""
			}
		}
		return nil, "Bad data format"
	}
	mk := func(name string) syncer.SyncerConfig {
		dir := filepath.Join(work, fmt.Sprintf("h%d%s", sc.id, name))
		if name == "A" && sc.memLeader {
			// the first leader caches in memory (the follower that takes over keeps its copy on disk)
			return syncer.SyncerConfig{
				Input:          config.RedisConfig{Addresses: []string{src.Ln.Addr().String()}, Type: config.RedisTypeStandalone, Otype: config.RedisTypeStandalone},
				Output:         config.RedisConfig{Addresses: []string{tgt.Addr()}, Type: config.RedisTypeStandalone, Otype: config.RedisTypeStandalone, Version: "7.0.0"},
				Channel:        config.ChannelConfig{Type: config.ChannelTypeMemory, Memory: &config.MemoryConfig{MaxSize: 1 << 30, LogSize: 4096}},
				CanTransaction: sc.txn,
			}
		}
		return syncer.SyncerConfig{
			Input:  config.RedisConfig{Addresses: []string{src.Ln.Addr().String()}, Type: config.RedisTypeStandalone, Otype: config.RedisTypeStandalone},
			Output: config.RedisConfig{Addresses: []string{tgt.Addr()}, Type: config.RedisTypeStandalone, Otype: config.RedisTypeStandalone, Version: "7.0.0"},
			Channel: config.ChannelConfig{Type: config.ChannelTypeStorer, VerifyCrc: true,
				Storer: &config.StorerConfig{DirPath: dir, MaxSize: 1 << 30, LogSize: 4096 + 16}},
			CanTransaction: sc.txn,
		}
	}
	defer os.RemoveAll(filepath.Join(work, fmt.Sprintf("h%dA", sc.id)))
	defer os.RemoveAll(filepath.Join(work, fmt.Sprintf("h%dB", sc.id)))

	api := &replicaAPI{}
	ln, err := hx.Listen()
	if err != nil {
		hx.Fatal("%v", err)
	}
	gs := grpc.NewServer()
	pb.RegisterApiServiceServer(gs, api)
	go gs.Serve(ln)
	defer gs.Stop()

	a := &instance{cfg: mk("A"), api: api}
	b := &instance{cfg: mk("B")}
	a.run(nil)
	b.run(&cluster.RoleInfo{Address: ln.Addr().String()})

	sent := 0
	emit := func(n int) {
		for i := 0; i < n && sent < sc.ncmds; i++ {
			src.AppendCmd(r.Intn(sc.nkeys))
			sent++
			time.Sleep(time.Duration(r.Intn(1500)) * time.Microsecond)
		}
	}
	emit(sc.switchAt)
	// source-side faults before the hand-over
	for _, f := range sc.faults {
		switch f {
		case "drop":
			src.DropNow()
		case "failover":
			src.Mu.Lock()
			src.Id2, src.Second, src.Id1 = src.Id1, src.M()+1, "B"
			src.Mu.Unlock()
			src.DropNow()
		case "pause":
			// the operator pauses the leader (http api), the master goes on writing, the leader is resumed: a stop and a new
			// start of input and output inside the same syncer object, on the cache it has kept
			a.mu.Lock()
			sy := a.sy
			a.mu.Unlock()
			if sy != nil && sy.State() == syncer.SyncerStateRun {
				paused := make(chan struct{})
				go func() { sy.Pause(); close(paused) }()
				select {
				case <-paused:
				case <-time.After(40 * time.Second):
					hx.Fatal("scenario %d: Pause did not return", sc.id)
				}
				emit(1 + r.Intn(4))
				time.Sleep(time.Duration(r.Intn(30)) * time.Millisecond)
				sy.Resume()
			}
		case "fullsync":
			// the operator forces a full resynchronisation (http api /syncer/fullsync without flushdb): pause, drop the cache of
			// the current replication id, delete the stored positions of the source's ids, resume
			a.mu.Lock()
			sy := a.sy
			a.mu.Unlock()
			if sy != nil && sy.State() == syncer.SyncerStateRun {
				paused := make(chan struct{})
				go func() { sy.Pause(); close(paused) }()
				select {
				case <-paused:
				case <-time.After(40 * time.Second):
					hx.Fatal("scenario %d: Pause did not return", sc.id)
				}
				sy.DelRunId()
				ids := map[string]bool{}
				for _, id := range sy.RunIds() {
					ids[id] = true
				}
				cli, err := client.NewRedis(a.cfg.Output)
				if err != nil {
					hx.Fatal("scenario %d: %v", sc.id, err)
				}
				data, err := checkpoint.GetAllCheckpointHash(cli)
				if err != nil {
					hx.Fatal("scenario %d: GetAllCheckpointHash: %v", sc.id, err)
				}
				for i := 0; i+1 < len(data); i += 2 {
					if ids[data[i]] {
						if err := checkpoint.DelCheckpoint(cli, data[i+1], data[i]); err != nil {
							hx.Fatal("scenario %d: DelCheckpoint: %v", sc.id, err)
						}
					}
				}
				cli.Close()
				emit(r.Intn(3))
				sy.Resume()
			}
		case "losebacklog":
			src.Mu.Lock()
			src.Bl = src.M() + 2
			src.Mu.Unlock()
			emit(1)
			src.DropNow()
		}
		emit(1 + r.Intn(3))
	}
	// usually the hand-over happens in steady state: the first full sync is done (a position is stored on the
	// target) and the follower has had a moment to copy; sometimes it comes earlier
	targetCp := func() int64 {
		cp := int64(-1)
		tgt.Lock()
		for _, db := range tgt.DBs {
			for k, v := range db {
				if strings.HasPrefix(k, "redis-gunyu-checkpoint") && v.Type == "hash" {
					for f, x := range v.Hash {
						if strings.HasSuffix(f, "_offset") {
							if n, err := strconv.ParseInt(string(x), 10, 64); err == nil && n > cp {
								cp = n
							}
						}
					}
				}
			}
		}
		tgt.Unlock()
		return cp
	}
	if r.Chance(85) {
		dl := time.Now().Add(8 * time.Second)
		for targetCp() < 0 && time.Now().Before(dl) {
			time.Sleep(2 * time.Millisecond)
		}
		emit(1 + r.Intn(3))
	}
	time.Sleep(time.Duration(r.Intn(60)) * time.Millisecond)
	var fl, fr int64 = -1, -1
	// the leader goes away (crash or resignation), the follower is promoted
	a.stop()
	api.mu.Lock()
	api.sy = nil
	api.mu.Unlock()
	b.stop()
	emit(r.Intn(4)) // the master keeps writing while nobody replicates
	// what the promoted follower finds: the position stored on the target and how many PSYNCs the master saw so far
	src.Mu.Lock()
	obsBefore := len(src.Obs)
	src.Mu.Unlock()
	cpAt := targetCp()
	b2 := &instance{cfg: b.cfg}
	b2.run(nil)
	emit(sc.ncmds)

	finalLists := func() [][]string {
		outl := make([][]string, sc.nkeys)
		tgt.Lock()
		for ki, k := range src.Keys {
			outl[ki] = []string{}
			if v := tgt.DBs[0][string(k)]; v != nil && v.Type == "list" {
				for _, e := range v.List {
					outl[ki] = append(outl[ki], string(e))
				}
			}
		}
		tgt.Unlock()
		return outl
	}
	complete := func() bool {
		ls := finalLists()
		src.Mu.Lock()
		defer src.Mu.Unlock()
		for ki := range src.Keys {
			seen := map[string]bool{}
			for _, e := range ls[ki] {
				seen[e] = true
			}
			if len(seen) < len(src.ListAt(ki, -1)) {
				return false
			}
		}
		return true
	}
	deadline := time.Now().Add(45 * time.Second)
	for time.Now().Before(deadline) && !complete() {
		time.Sleep(3 * time.Millisecond)
	}
	ok := complete()
	time.Sleep(60 * time.Millisecond)
	b2.stop()
	lists := finalLists()

	src.Mu.Lock()
	ord := map[int]int{}
	perKey := map[int]int{}
	for ci, k := range src.KeyOf {
		perKey[k]++
		ord[ci+1] = perKey[k]
	}
	proj := make([][]int, sc.nkeys)
	for ki := range lists {
		proj[ki] = []int{}
		for _, e := range lists[ki] {
			switch {
			case strings.HasPrefix(e, "s"):
				j, _ := strconv.Atoi(e[strings.IndexByte(e, '.')+1:])
				proj[ki] = append(proj[ki], -j)
			case strings.HasPrefix(e, "v"):
				i, _ := strconv.Atoi(e[1:])
				if i >= 1 && i <= len(src.KeyOf) && src.KeyOf[i-1] == ki {
					proj[ki] = append(proj[ki], ord[i])
				} else {
					proj[ki] = append(proj[ki], 1000000+i)
				}
			default:
				proj[ki] = append(proj[ki], 2000000)
			}
		}
	}
	ninit := make([]int, sc.nkeys)
	total := make([]int, sc.nkeys)
	for ki := range src.Keys {
		ninit[ki] = len(src.Initial[ki])
		total[ki] = perKey[ki]
	}
	obs := append([]fakesrc.PsyncObs{}, src.Obs...)
	ncmds := len(src.KeyOf)
	base := src.Base
	src.Mu.Unlock()
	if obs == nil {
		obs = []fakesrc.PsyncObs{}
	}
	tr.Emit(map[string]interface{}{"ev": "E2E", "id": sc.id, "txn": sc.txn, "disk": !sc.memLeader, "faults": append([]string{"handover"}, sc.faults...), "ncmds": ncmds,
		"initial": ninit, "total": total, "lists": proj, "complete": ok, "ended": false, "restarts": a.restarts + b2.restarts, "err": "", "psync": obs, "base": base,
		"followerRange": []int64{fl, fr}, "psyncBeforeHandover": obsBefore, "cpAtHandover": cpAt})
}

func main() {
	outp := flag.String("out", "trace.ndjson", "")
	statsPath := flag.String("stats", "stats.json", "")
	seed := flag.Uint64("seed", 1, "")
	n := flag.Int("n", 16, "scenarios")
	shard := flag.Int("shard", 0, "")
	shards := flag.Int("shards", 1, "")
	work := flag.String("work", os.TempDir(), "")
	flag.Parse()
	hx.QuietLogs()
	tr, err := hx.NewTrace(*outp)
	if err != nil {
		hx.Fatal("%v", err)
	}
	base, err := os.MkdirTemp(*work, "ha")
	if err != nil {
		hx.Fatal("%v", err)
	}
	defer os.RemoveAll(base)
	yaml := fmt.Sprintf("server:\n  listen: 127.0.0.1:18001\n  listenPeer: 127.0.0.1:18001\ninput:\n  redis:\n    addresses: [127.0.0.1:1]\n    type: standalone\n"+
		"channel:\n  storer:\n    dirPath: %s\n    maxSize: 1073741800\n    logSize: 10971520\noutput:\n  replay:\n    resumeFromBreakPoint: true\n    keyExists: replace\n    targetDb: -1\n"+
		"    batchCmdCount: 3\n    batchTicker: 5ms\n    keepaliveTicker: 50ms\n    updateCheckpointTicker: 20ms\n"+
		"  redis:\n    addresses: [127.0.0.1:2]\n    type: standalone\nlog:\n  level: error\n  handler:\n    stdout: false\ncluster:\n  groupName: verif\n  leaseTimeout: 9s\n", filepath.Join(base, "cfgdir"))
	cfgPath := filepath.Join(base, "cfg.yaml")
	if err := os.WriteFile(cfgPath, []byte(yaml), 0o644); err != nil {
		hx.Fatal("%v", err)
	}
	if err := config.InitSyncerConfig(cfgPath); err != nil {
		hx.Fatal("config: %v", err)
	}
	config.GetSyncerConfig().Channel.VerifyCrc = true
	config.GetSyncerConfig().Output.Replay.Stats.DisableLog = true
	hx.QuietLogs()
	wd := hx.NewWatchdog(240 * time.Second)
	nScen := 0
	kinds := map[string]int{}
	pool := []string{"drop", "failover", "losebacklog", "pause", "pause", "fullsync"}
	for s := 0; s < *n; s++ {
		if s%*shards != *shard {
			continue
		}
		r := hx.NewRng(*seed*49979687 + uint64(s))
		sc := &scenario{id: 7000000 + s + 1, txn: r.Bool(), nkeys: 1 + r.Intn(3), ncmds: 8 + r.Intn(16)}
		sc.switchAt = 2 + r.Intn(sc.ncmds-4)
		sc.memLeader = r.Chance(30)
		for f := 0; f < r.Intn(3); f++ {
			sc.faults = append(sc.faults, pool[r.Intn(len(pool))])
		}
		wd.Kick(fmt.Sprintf("ha scenario %d %v", sc.id, sc.faults))
		runScenario(sc, tr, base, r)
		nScen++
		kinds["handover"]++
		for _, f := range sc.faults {
			kinds[f]++
		}
	}
	if err := tr.Close(); err != nil {
		hx.Fatal("%v", err)
	}
	hx.WriteJSON(*statsPath, map[string]interface{}{"scenarios": nScen, "faults": kinds})
	fmt.Fprintf(os.Stderr, "hadrv: %d scenarios %v\n", nScen, kinds)
}
