// fullsyncdrv replays generated snapshots through the real RedisOutput.Send
// (snapshot path) into the fake target and records, per scenario, the abstract
// dataset that was encoded, the configuration, prior target contents, injected
// faults, the returned error, whether the completion checkpoint was written
// and the final keyspace.  spec/trace/TraceFullSync.tla judges C03, C04, C20.
package main

import (
	"bytes"
	"context"
	"encoding/binary"
	"encoding/hex"
	"flag"
	"fmt"
	"io"
	"math"
	"os"
	"runtime/debug"
	"runtime/pprof"
	"sort"
	"strconv"
	"strings"
	"sync"
	"sync/atomic"
	"time"

	"github.com/mgtv-tech/redis-GunYu/config"
	"github.com/mgtv-tech/redis-GunYu/pkg/rdb"
	"github.com/mgtv-tech/redis-GunYu/syncer"

	"verifh/fakeredis"
	"verifh/hx"
	"verifh/rdbgen"
)

const (
	cpName = "redis-gunyu-checkpoint-verif"
	runID  = "bbbbbbbbbbbbbbbbbbbbbbbbbbbbbbbbbbbbbbbb"
)

// what a real target answers when it cannot execute a write right now (server.c / script.c / cluster.c)
var targetErrors = []string{
	"ERR injected target failure",
	"BUSY Redis is busy running a script. You can only call SCRIPT KILL or SHUTDOWN NOSAVE.",
	"LOADING Redis is loading the dataset in memory",
	"OOM command not allowed when used memory > 'maxmemory'.",
	"READONLY You can't write against a read only replica.",
	"MISCONF Redis is configured to save RDB snapshots, but it's currently unable to persist to disk. Commands that may modify the data set are disabled, because this instance is configured to report errors during writes if RDB snapshotting fails (stop-writes-on-bgsave-error option). Please check the Redis logs for details about the RDB error.",
	"NOREPLICAS Not enough good replicas to write.",
	"MASTERDOWN Link with MASTER is down and replica-serve-stale-data is set to 'no'.",
	"BUSY Redis is busy running a function. You can only call FUNCTION KILL or SHUTDOWN NOSAVE.",
	"CLUSTERDOWN The cluster is down",
}

type scenario struct {
	id       int
	kind     string // sync | policy | fault
	entries  []*rdbgen.Entry
	version  int
	restore  bool
	bulk     int
	parallel int
	pipe     int
	chunk    int // value chunking threshold (bytes), 0 = default
	targetDb int
	dbMap    map[int]int
	black    []int
	policy   string
	prior    map[string]rdbgen.Val // "db/key" -> prior value
	priorExp map[string]int64
	fault    string // "", trunc, flip, targeterr, cancel
	faultAt  int
	flipXor  byte
	left     int64
	baseMs   int64
	oldTgt   bool // the target cannot load the encodings introduced with Redis 7 (RESTORE of such a payload: "Bad data format")
	bisync   bool // replay through the bidirectional snapshot path (marker + business in one MULTI/EXEC per entry)
}

func hexs(b []byte) string { return hex.EncodeToString(b) }

// canonical form of a value: type + sorted / ordered list of hex strings
func canon(v rdbgen.Val) (string, []string) {
	switch v.Type {
	case "string":
		return "string", []string{hexs(v.Str)}
	case "list":
		out := []string{}
		for _, e := range v.List {
			out = append(out, hexs(e))
		}
		return "list", out
	case "set":
		out := []string{}
		for _, e := range v.Set {
			out = append(out, hexs(e))
		}
		sort.Strings(out)
		return "set", out
	case "hash":
		out := []string{}
		for _, p := range v.Hash {
			out = append(out, hexs(p[0])+"="+hexs(p[1]))
		}
		sort.Strings(out)
		return "hash", out
	case "zset":
		out := []string{}
		for _, m := range v.ZSet {
			out = append(out, hexs(m.M)+"="+strconv.FormatFloat(m.S, 'g', 17, 64))
		}
		sort.Strings(out)
		return "zset", out
	case "stream":
		if v.Stream == nil { // already canonical (observed at the target)
			out := []string{}
			for _, e := range v.List {
				out = append(out, string(e))
			}
			return "stream", out
		}
		return "stream", streamCanon(nil, v.Stream)
	}
	return v.Type, []string{}
}

func fromFake(v *fakeredis.Value) rdbgen.Val {
	switch v.Type {
	case "string":
		return rdbgen.Val{Type: "string", Str: v.Str}
	case "list":
		return rdbgen.Val{Type: "list", List: v.List}
	case "set":
		o := rdbgen.Val{Type: "set"}
		for k := range v.Set {
			o.Set = append(o.Set, []byte(k))
		}
		return o
	case "hash":
		o := rdbgen.Val{Type: "hash"}
		for k, x := range v.Hash {
			o.Hash = append(o.Hash, [2][]byte{[]byte(k), x})
		}
		return o
	case "zset":
		o := rdbgen.Val{Type: "zset"}
		for k, x := range v.ZSet {
			o.ZSet = append(o.ZSet, rdbgen.ZM{M: []byte(k), S: x})
		}
		return o
	case "stream":
		o := rdbgen.Val{Type: "stream"}
		if v.Stream != nil {
			for _, e := range v.Stream.Entries {
				s := "e " + e.ID
				for i := 0; i+1 < len(e.Fields); i += 2 {
					s += " " + hexs(e.Fields[i]) + "=" + hexs(e.Fields[i+1])
				}
				o.List = append(o.List, []byte(s))
			}
			for _, x := range v.Stream.Extra {
				o.List = append(o.List, []byte(x))
			}
		}
		return o
	case "opaque":
		if ov, ok := v.Opaque.(rdbgen.Val); ok {
			return ov
		}
	}
	return rdbgen.Val{Type: v.Type}
}

func toFake(v rdbgen.Val) *fakeredis.Value {
	switch v.Type {
	case "string":
		return &fakeredis.Value{Type: "string", Str: v.Str}
	case "list":
		return &fakeredis.Value{Type: "list", List: v.List}
	case "set":
		o := &fakeredis.Value{Type: "set", Set: map[string]struct{}{}}
		for _, e := range v.Set {
			o.Set[string(e)] = struct{}{}
		}
		return o
	case "hash":
		o := &fakeredis.Value{Type: "hash", Hash: map[string][]byte{}}
		for _, p := range v.Hash {
			o.Hash[string(p[0])] = p[1]
		}
		return o
	case "zset":
		o := &fakeredis.Value{Type: "zset", ZSet: map[string]float64{}}
		for _, m := range v.ZSet {
			o.ZSet[string(m.M)] = m.S
		}
		return o
	case "stream":
		st := &fakeredis.Stream{Groups: map[string]*fakeredis.StreamGroup{}, LastID: v.Stream.LastID.String()}
		for _, n := range v.Stream.Nodes {
			for _, e := range n {
				if e.Deleted {
					continue
				}
				fe := fakeredis.StreamEntry{ID: e.ID.String()}
				for _, f := range e.Fields {
					fe.Fields = append(fe.Fields, f[0], f[1])
				}
				st.Entries = append(st.Entries, fe)
			}
		}
		st.Extra = streamExtra(streamKeyOf[v.Stream], v.Stream, streamVerOf[v.Stream])
		return &fakeredis.Value{Type: "stream", Stream: st}
	}
	return nil
}

// ---------------------------------------------------------------------------
// dataset generation

var intTable = []string{"0", "1", "12", "13", "-1", "127", "-128", "128", "-129", "32767", "-32768", "32768", "-32769", "8388607", "-8388608",
	"8388608", "-8388609", "-5000000", "2147483647", "-2147483648", "2147483648", "-2147483649", "9223372036854775807", "-9223372036854775808",
	"4095", "-4096", "4096", "-4097", "63", "64"}

func elem(r *hx.Rng, ints bool) []byte {
	if ints {
		return []byte(intTable[r.Intn(len(intTable))])
	}
	switch r.Intn(10) {
	case 0:
		return []byte{}
	case 1:
		return []byte(intTable[r.Intn(len(intTable))])
	case 2:
		return r.Bytes(1 + r.Intn(6))
	case 3:
		return bytes.Repeat([]byte("ab"), 35+r.Intn(10)) // > 63 bytes: 14-bit / 12-bit length forms
	case 4:
		return []byte(" 12") // looks numeric but is not canonical
	case 5:
		return []byte("007")
	case 6:
		return append(bytes.Repeat([]byte{'x'}, 250+r.Intn(10)), r.Bytes(3)...) // forces 5-byte prevlen in the next ziplist entry
	}
	return []byte(fmt.Sprintf("e%d", r.Intn(1000)))
}

func uniq(r *hx.Rng, n int, ints bool) [][]byte {
	seen := map[string]bool{}
	var out [][]byte
	for len(out) < n {
		e := elem(r, ints)
		if !seen[string(e)] {
			seen[string(e)] = true
			out = append(out, e)
		}
	}
	return out
}

// streamExtra: the administrative commands Redis itself emits when it rewrites a stream (aof.c rewriteStreamObject),
// for a target of version 7: XSETID with ENTRIESADDED / MAXDELETEDID, XGROUP CREATE with ENTRIESREAD, one XCLAIM per
// pending entry of every consumer
func streamExtra(key []byte, sv *rdbgen.StreamVal, ver int) []string {
	length := uint64(0)
	for _, n := range sv.Nodes {
		for _, e := range n {
			if !e.Deleted {
				length++
			}
		}
	}
	added, maxDel := sv.EntriesAdded, sv.MaxDeletedID
	if ver == 1 {
		added, maxDel = length, rdbgen.StreamID{}
	}
	out := []string{fmt.Sprintf("xsetid %s %s ENTRIESADDED %d MAXDELETEDID %s", key, sv.LastID, added, maxDel)}
	for _, g := range sv.Groups {
		read := int64(g.EntriesRead)
		if ver == 1 {
			// a stream saved before Redis 7 has no counter: rdb.c estimates it when it loads the group
			read = streamEstimate(sv, g.LastID, length, added)
		}
		out = append(out, fmt.Sprintf("xgroup CREATE %s %s %s ENTRIESREAD %d", key, g.Name, g.LastID, read))
		for _, c := range g.Consumers {
			for _, id := range c.Pending {
				var nk rdbgen.StreamNack
				for _, x := range g.PEL {
					if x.ID == id {
						nk = x
					}
				}
				out = append(out, fmt.Sprintf("xclaim %s %s %s 0 %s TIME %d RETRYCOUNT %d JUSTID FORCE", key, g.Name, c.Name, id, nk.DeliveryTime, nk.DeliveryCount))
			}
		}
	}
	return out
}

func cmpID(a, b rdbgen.StreamID) int {
	switch {
	case a.Ms != b.Ms && a.Ms < b.Ms, a.Ms == b.Ms && a.Seq < b.Seq:
		return -1
	case a == b:
		return 0
	}
	return 1
}

// streamEstimate is t_stream.c streamEstimateDistanceFromFirstEverEntry for a stream loaded from the pre-7 encoding
// (entries_added = length, max_deleted_entry_id = 0-0, first_id = id of the first entry): -1 is "unknown"
func streamEstimate(sv *rdbgen.StreamVal, id rdbgen.StreamID, length, added uint64) int64 {
	if added == 0 {
		return 0
	}
	if length == 0 && cmpID(id, sv.LastID) < 1 {
		return int64(added)
	}
	if cmpID(id, sv.LastID) == 0 {
		return int64(added)
	}
	if cmpID(id, sv.LastID) > 0 {
		return -1
	}
	var first rdbgen.StreamID
	for _, n := range sv.Nodes {
		for _, e := range n {
			if !e.Deleted && first == (rdbgen.StreamID{}) {
				first = e.ID
			}
		}
	}
	switch c := cmpID(id, first); {
	case c < 0:
		return int64(added - length)
	case c == 0:
		return int64(added-length) + 1
	}
	return -1
}

var streamKeyOf = map[*rdbgen.StreamVal][]byte{}
var streamVerOf = map[*rdbgen.StreamVal]int{}

func streamCanon(key []byte, sv *rdbgen.StreamVal) []string {
	if key == nil {
		key = streamKeyOf[sv]
	}
	out := []string{}
	for _, n := range sv.Nodes {
		for _, e := range n {
			if e.Deleted {
				continue
			}
			s := "e " + e.ID.String()
			for _, f := range e.Fields {
				s += " " + hexs(f[0]) + "=" + hexs(f[1])
			}
			out = append(out, s)
		}
	}
	return append(out, streamExtra(key, sv, streamVerOf[sv])...)
}

func genStream(r *hx.Rng, key []byte, enc string) rdbgen.Val {
	ver := map[string]int{"listpacks": 1, "listpacks2": 2, "listpacks3": 3}[enc]
	sv := &rdbgen.StreamVal{}
	ms := uint64(1700000000000 + r.Intn(1000))
	var ids []rdbgen.StreamID
	total := 0
	for n := 0; n < r.Intn(4); n++ {
		var node []rdbgen.StreamEntry
		base := [][]byte{[]byte("temp"), []byte("hum")}
		for j := 0; j < 1+r.Intn(4); j++ {
			if r.Chance(40) {
				ms += uint64(1 + r.Intn(50))
			}
			id := rdbgen.StreamID{Ms: ms, Seq: uint64(total)}
			total++
			e := rdbgen.StreamEntry{ID: id}
			if j == 0 || r.Chance(60) {
				for _, f := range base { // same fields as the node's master entry
					e.Fields = append(e.Fields, [2][]byte{f, elem(r, false)})
				}
			} else {
				for k := 0; k < 1+r.Intn(3); k++ {
					e.Fields = append(e.Fields, [2][]byte{[]byte(fmt.Sprintf("f%d", k)), elem(r, r.Bool())})
				}
			}
			if j > 0 && ver >= 2 && r.Chance(20) {
				e.Deleted = true
				sv.MaxDeletedID = id
			} else {
				ids = append(ids, id)
			}
			node = append(node, e)
		}
		sv.Nodes = append(sv.Nodes, node)
	}
	sv.LastID = rdbgen.StreamID{Ms: ms, Seq: uint64(total)}
	if len(ids) > 0 && r.Chance(50) {
		sv.LastID = ids[len(ids)-1]
		if sv.MaxDeletedID.Ms > sv.LastID.Ms || (sv.MaxDeletedID.Ms == sv.LastID.Ms && sv.MaxDeletedID.Seq > sv.LastID.Seq) {
			sv.LastID = sv.MaxDeletedID
		}
	}
	sv.EntriesAdded = uint64(total + r.Intn(5))
	for g := 0; g < r.Intn(3); g++ {
		grp := rdbgen.StreamGroup{Name: []byte(fmt.Sprintf("grp%d", g)), LastID: sv.LastID, EntriesRead: uint64(r.Intn(total + 1))}
		if r.Bool() {
			grp.LastID = rdbgen.StreamID{}
			grp.EntriesRead = 0
		} else if len(ids) > 0 && r.Bool() {
			// delivered up to the first / some entry: the usual state of a group that is being consumed
			k := 0
			if r.Bool() {
				k = r.Intn(len(ids))
			}
			grp.LastID = ids[k]
			grp.EntriesRead = uint64(k + 1)
		}
		nc := r.Intn(3)
		for c := 0; c < nc; c++ {
			grp.Consumers = append(grp.Consumers, rdbgen.StreamConsumer{Name: []byte(fmt.Sprintf("cons%d", c)), SeenTime: uint64(1700000000000 + r.Intn(100000)), ActiveTime: uint64(1700000000000 + r.Intn(100000))})
		}
		if nc > 0 {
			for _, id := range ids {
				if r.Chance(40) {
					grp.PEL = append(grp.PEL, rdbgen.StreamNack{ID: id, DeliveryTime: uint64(1700000000000 + r.Intn(1000000)), DeliveryCount: uint64(1 + r.Intn(5))})
					c := r.Intn(nc)
					grp.Consumers[c].Pending = append(grp.Consumers[c].Pending, id)
				}
			}
		}
		sv.Groups = append(sv.Groups, grp)
	}
	streamKeyOf[sv] = key
	streamVerOf[sv] = ver
	return rdbgen.Val{Type: "stream", Stream: sv}
}

func genEntry(r *hx.Rng, i int, typ, enc string) *rdbgen.Entry {
	e := &rdbgen.Entry{Key: []byte(fmt.Sprintf("k%d:%s:%s", i, typ, enc)), Enc: enc}
	if r.Chance(15) {
		e.Key = append(e.Key, r.Bytes(2)...)
	}
	n := 1 + r.Intn(7)
	switch typ {
	case "string":
		switch enc {
		case "int":
			ok := []string{"0", "-1", "127", "-128", "128", "32767", "-32768", "32768", "2147483647", "-2147483648"}
			e.Val = rdbgen.Val{Type: "string", Str: []byte(ok[r.Intn(len(ok))])}
		case "lzf":
			e.Val = rdbgen.Val{Type: "string", Str: append(bytes.Repeat([]byte("abcabc"), 10+r.Intn(40)), r.Bytes(r.Intn(5))...)}
		default:
			e.Val = rdbgen.Val{Type: "string", Str: elem(r, false)}
		}
	case "list":
		v := rdbgen.Val{Type: "list"}
		for j := 0; j < n; j++ {
			v.List = append(v.List, elem(r, false))
		}
		e.Val = v
	case "set":
		e.Val = rdbgen.Val{Type: "set", Set: uniq(r, n, enc == "intset")}
	case "hash":
		v := rdbgen.Val{Type: "hash"}
		for _, f := range uniq(r, n, false) {
			v.Hash = append(v.Hash, [2][]byte{f, elem(r, false)})
		}
		e.Val = v
	case "stream":
		e.Val = genStream(r, e.Key, enc)
	case "zset":
		v := rdbgen.Val{Type: "zset"}
		scores := []float64{0, 1, -1, 1.5, 3, 1e10, -2.25, 12, 13, 4096, math.Inf(1), math.Inf(-1), 0.1}
		for _, m := range uniq(r, n, false) {
			s := scores[r.Intn(len(scores))]
			if (enc == "ziplist" || enc == "listpack") && math.IsInf(s, 0) {
				s = 7
			}
			v.ZSet = append(v.ZSet, rdbgen.ZM{M: m, S: s})
		}
		e.Val = v
	}
	return e
}

var types = []string{"string", "list", "set", "zset", "hash", "stream"}

func genDataset(r *hx.Rng, nkeys int, base int64) []*rdbgen.Entry {
	var out []*rdbgen.Entry
	for i := 0; i < nkeys; i++ {
		t := types[r.Intn(len(types))]
		encs := rdbgen.Encodings[t]
		e := genEntry(r, i, t, encs[r.Intn(len(encs))])
		switch x := r.Intn(10); {
		case x < 2:
			e.ExpireAtMs = base + 100000 + int64(r.Intn(100000))
		case x == 2:
			e.ExpireAtMs = base + 100000 + int64(r.Intn(1000))*1000
			e.ExpireSecs = true
		case x == 3:
			e.ExpireAtMs = base - 5000 // already past
		}
		out = append(out, e)
	}
	// group by DB
	ndb := 1 + r.Intn(3)
	for _, e := range out {
		e.DB = r.Intn(ndb)
	}
	sort.SliceStable(out, func(i, j int) bool { return out[i].DB < out[j].DB })
	return out
}

// ---------------------------------------------------------------------------

type countReader struct {
	r io.Reader
	n atomic.Int64
}

func (c *countReader) Read(p []byte) (int, error) {
	n, err := c.r.Read(p)
	c.n.Add(int64(n))
	return n, err
}

type result struct {
	errText    string
	ret        string
	cp         int64
	final      []map[string]interface{}
	badPayload int
	refused    int
	dataReqs   int
	notRepro   bool
}

func isData(name string) bool {
	switch name {
	case "set", "rpush", "sadd", "zadd", "hset", "restore", "pexpire", "del", "xadd":
		return true
	}
	return false
}

// the tool's own bookkeeping keys: the checkpoint and the hash that maps run ids to checkpoint names
func isBook(k string) bool { return k == cpName || k == config.CheckpointKeyHashKey }

func runScenario(sc *scenario, data []byte) result {
	srv := fakeredis.New()
	// the clock follows the wall clock (the tool converts absolute expiry times with its own clock) and advances at
	// least 1 ms per request, so that a 1 ms ttl has always run out before the next request (deterministic expiry races)
	srv.ClockStepMs = 1
	srv.RealClock = true
	srv.NowMs = time.Now().UnixMilli()
	if _, err := srv.Start(); err != nil {
		hx.Fatal("%v", err)
	}
	defer srv.Close()
	res := result{cp: -1}
	byKey := map[string]*rdbgen.Entry{}
	for _, e := range sc.entries {
		byKey[string(e.Key)] = e
	}
	var mu sync.Mutex
	srv.RestoreDecoder = func(key []byte, payload []byte) (*fakeredis.Value, string) {
		mu.Lock()
		defer mu.Unlock()
		e := byKey[string(key)]
		if e == nil || len(payload) < 10 {
			res.badPayload++
			return nil, "Bad data format"
		}
		if sc.oldTgt && payload[0] >= 16 {
			// an older server: the footer is acceptable, the value type is unknown to it (cluster.c restoreCommand)
			res.refused++
			return nil, "Bad data format"
		}
		body, foot := payload[:len(payload)-10], payload[len(payload)-10:]
		ver := binary.LittleEndian.Uint16(foot[:2])
		crc := binary.LittleEndian.Uint64(foot[2:])
		if !bytes.Equal(body, e.Payload) || ver == 0 || ver > 12 || crc != hx.Crc64(0, payload[:len(payload)-8]) {
			res.badPayload++
			return nil, "Bad data format"
		}
		v := toFake(e.Val)
		return v, ""
	}
	// prior contents
	srv.Lock()
	for k, v := range sc.prior {
		i := strings.IndexByte(k, '/')
		db, _ := strconv.Atoi(k[:i])
		if srv.DBs[db] == nil {
			srv.DBs[db] = fakeredis.DB{}
		}
		fv := toFake(v)
		if x := sc.priorExp[k]; x != 0 {
			fv.ExpireAt = x
		}
		srv.DBs[db][k[i+1:]] = fv
	}
	srv.Unlock()

	cfg := syncer.RedisOutputConfig{
		InputName: "verif", CheckpointName: cpName, RunId: runID, BisyncEnabled: sc.bisync, CanTransaction: sc.bisync,
		Redis:                      config.RedisConfig{Addresses: []string{srv.Addr()}, Type: config.RedisTypeStandalone, Otype: config.RedisTypeStandalone, Version: "7.0.0"},
		EnableResumeFromBreakPoint: true, TargetDb: sc.targetDb, TargetDbMap: sc.dbMap,
		BatchCmdCount: 10, BatchTicker: time.Hour, BatchBufferSize: 1 << 30, KeepaliveTicker: time.Hour, UpdateCheckpointTicker: time.Hour,
		ReplayRdbParallel: sc.parallel, ReplayRdbEnableRestore: sc.restore, MaxProtoBulkLen: sc.bulk, KeyExists: sc.policy,
		Stats:  config.OutputStats{DisableLog: true},
		Filter: config.FilterConfig{DbBlacklist: sc.black},
	}
	config.RdbPipeSize = sc.pipe
	if sc.chunk > 0 {
		defer rdb.VerifSetMaxBinEntryBuffer(rdb.VerifSetMaxBinEntryBuffer(sc.chunk))
	}
	ro := syncer.NewRedisOutput(cfg)
	ctx, cancel := context.WithCancel(context.Background())
	defer cancel()

	cr := &countReader{r: bytes.NewReader(data)}
	var nData atomic.Int64
	var held atomic.Bool
	gate := make(chan struct{})
	switch sc.fault {
	case "targeterr":
		srv.PreExec = func(connID int, db int, name string, args [][]byte, inMulti bool) (interface{}, fakeredis.Action) {
			if isData(name) && len(args) > 0 && !isBook(string(args[0])) {
				if int(nData.Add(1)) == sc.faultAt {
					return fakeredis.ErrRep(targetErrors[sc.faultAt%len(targetErrors)]), fakeredis.Proceed
				}
			}
			return nil, fakeredis.Proceed
		}
	case "cancel":
		// withhold the reply of the faultAt-th data request until the whole snapshot has been parsed
		// and the replay context has been cancelled
		srv.Hold = func(connID int, name string, args [][]byte) <-chan struct{} {
			if isData(name) && len(args) > 0 && !isBook(string(args[0])) {
				if int(nData.Add(1)) == sc.faultAt {
					held.Store(true)
					return gate
				}
			}
			return nil
		}
	}
	done := make(chan error, 1)
	go func() {
		done <- ro.Send(ctx, hx.NewChanReader(cr, false, runID, sc.left, int64(len(data))))
	}()
	var err error
	if sc.fault == "cancel" {
		deadline := time.Now().Add(3 * time.Second)
		for !(held.Load() && cr.n.Load() >= int64(len(data))) && time.Now().Before(deadline) {
			select {
			case err = <-done:
				res.notRepro = true
				goto finished
			default:
			}
			time.Sleep(200 * time.Microsecond)
		}
		if !held.Load() || cr.n.Load() < int64(len(data)) {
			res.notRepro = true // the window did not open (e.g. fewer data requests than faultAt)
		}
		time.Sleep(2 * time.Millisecond) // let the distributor hand out what fits into the pipes
		cancel()
		time.Sleep(time.Millisecond)
		close(gate)
	}
	// a replay that is slow on a loaded machine keeps sending requests; one that is stuck does not
	for idle, last := 0, int64(-1); ; {
		select {
		case err = <-done:
			goto finished
		case <-time.After(10 * time.Second):
		}
		srv.Lock()
		now := int64(srv.Recv)
		srv.Unlock()
		if now != last {
			idle, last = 0, now
			continue
		}
		if idle++; idle >= 4 {
			pprof.Lookup("goroutine").WriteTo(os.Stderr, 1)
			hx.Fatal("scenario %d (%s@%d): SendRdb did not return and the target saw no request for 40 s (hang)", sc.id, sc.fault, sc.faultAt)
		}
	}
finished:
	if err == nil {
		res.ret = "ok"
	} else {
		res.ret = "err"
		res.errText = err.Error()
		if len(res.errText) > 300 {
			res.errText = res.errText[:300]
		}
	}
	// wait until the fake has digested everything the client wrote
	for i := 0; i < 2000 && srv.ConnCount() > 0; i++ {
		time.Sleep(200 * time.Microsecond)
	}
	time.Sleep(3 * time.Millisecond) // keys replayed with the minimal ttl (already expired at the source) are gone by now
	srv.Lock()
	for _, e := range srv.Log {
		if isData(e.Name) && len(e.Args) > 0 && !isBook(string(e.Args[0])) {
			res.dataReqs++
		}
	}
	srv.NowMs += 5
	now := srv.NowMs
	var dbs []int
	for d := range srv.DBs {
		dbs = append(dbs, d)
	}
	sort.Ints(dbs)
	for _, d := range dbs {
		var keys []string
		for k := range srv.DBs[d] {
			keys = append(keys, k)
		}
		sort.Strings(keys)
		for _, k := range keys {
			v := srv.DBs[d][k]
			if v.ExpireAt != 0 && v.ExpireAt <= now {
				continue
			}
			if strings.HasPrefix(k, "redis-gunyu-bisync:") || strings.HasPrefix(k, cpName+":") {
				continue // markers / records of the bidirectional path
			}
			if k == config.CheckpointKeyHashKey {
				continue // run id -> checkpoint name, written with the checkpoint
			}
			if k == cpName {
				if v.Type == "hash" {
					if o, ok := v.Hash[runID+"_offset"]; ok {
						n, _ := strconv.ParseInt(string(o), 10, 64)
						res.cp = n
					}
				}
				continue
			}
			t, cv := canon(fromFake(v))
			exp := int64(-1)
			if v.ExpireAt != 0 {
				exp = v.ExpireAt - sc.baseMs
			}
			res.final = append(res.final, map[string]interface{}{"db": d, "key": hexs([]byte(k)), "t": t, "v": cv, "exp": exp})
		}
	}
	srv.Unlock()
	if res.final == nil {
		res.final = []map[string]interface{}{}
	}
	return res
}

func emitScenario(tr *hx.Trace, sc *scenario, res result) {
	expect := []map[string]interface{}{}
	for _, e := range sc.entries {
		t, cv := canon(e.Val)
		exp := int64(-1)
		if e.ExpireAtMs != 0 {
			exp = e.ExpireAtMs - sc.baseMs
			if e.ExpireSecs {
				exp = (e.ExpireAtMs/1000)*1000 - sc.baseMs
			}
		}
		filtered := false
		for _, b := range sc.black {
			if b == e.DB {
				filtered = true
			}
		}
		tdb := e.DB
		if sc.targetDb != -1 {
			tdb = sc.targetDb
		} else if m, ok := sc.dbMap[e.DB]; ok {
			tdb = m
		}
		expect = append(expect, map[string]interface{}{"db": tdb, "key": hexs(e.Key), "t": t, "v": cv, "exp": exp, "filtered": filtered, "enc": e.Enc})
	}
	prior := []map[string]interface{}{}
	var pk []string
	for k := range sc.prior {
		pk = append(pk, k)
	}
	sort.Strings(pk)
	for _, k := range pk {
		i := strings.IndexByte(k, '/')
		db, _ := strconv.Atoi(k[:i])
		t, cv := canon(sc.prior[k])
		exp := int64(-1)
		if x := sc.priorExp[k]; x != 0 {
			exp = x - sc.baseMs
		}
		prior = append(prior, map[string]interface{}{"db": db, "key": hexs([]byte(k[i+1:])), "t": t, "v": cv, "exp": exp})
	}
	tr.Emit(map[string]interface{}{"ev": "FullSync", "id": sc.id, "kind": sc.kind, "restore": sc.restore, "bulk": sc.bulk, "parallel": sc.parallel,
		"pipe": sc.pipe, "chunk": sc.chunk, "oldtarget": sc.oldTgt, "policy": sc.policy, "version": sc.version, "fault": sc.fault, "faultAt": sc.faultAt,
		"left": sc.left, "expect": expect, "prior": prior, "final": res.final, "ret": res.ret, "cp": res.cp, "badpayload": res.badPayload,
		"notrepro": res.notRepro, "errtext": res.errText, "bisync": sc.bisync})
}

func main() {
	out := flag.String("out", "trace.ndjson", "")
	statsPath := flag.String("stats", "stats.json", "")
	seed := flag.Uint64("seed", 1, "")
	bisyncPct := flag.Int("bisync-pct", 30, "percentage of scenarios replayed through the bidirectional snapshot path")
	mode := flag.String("mode", "sync", "sync | policy | fault | loader")
	n := flag.Int("n", 40, "scenarios")
	shard := flag.Int("shard", 0, "")
	shards := flag.Int("shards", 1, "")
	flipStride := flag.Int("flip-stride", 8, "loader mode: try every k-th alteration value")
	only := flag.Int("only", -1, "run only the scenario with this index (reproduction of a crash in isolation)")
	input := flag.String("input", "", "loader-one mode: the damaged snapshot to parse")
	variant := flag.Int("variant", -1, "with -only in fault mode: run only this fault variant, on the snapshot bytes given with -input")
	baseFlag := flag.Int64("base", 0, "with -only: the time base (ms) of the scenario to reproduce (expiry times are part of the snapshot bytes)")
	flag.Parse()
	hx.QuietLogs()
	curPath = *out + ".cur"
	if *mode == "loader-one" {
		// one damaged snapshot parsed in a process of its own: the caller wants to know whether the process survives
		d, err := os.ReadFile(*input)
		if err != nil {
			hx.Fatal("%v", err)
		}
		var rb atomic.Int64
		n, sawErr := 0, false
		for e := range rdb.ParseRdb(bytes.NewReader(d), &rb, 64) {
			if e.Err != nil {
				sawErr = true
			} else if !e.Done {
				n++
			}
		}
		fmt.Printf("loader-one: entries=%d error=%v\n", n, sawErr)
		return
	}
	tr, err := hx.NewTrace(*out)
	if err != nil {
		hx.Fatal("%v", err)
	}
	wd := hx.NewWatchdog(90 * time.Second)
	stats := map[string]interface{}{}
	nScen, nKeys := 0, 0
	encSeen := map[string]int{}
	var samples []interface{}
	id := *shard
	for i := 0; i < *n; i++ {
		if i%*shards != *shard {
			continue
		}
		id += *shards
		if *only >= 0 && i != *only {
			continue
		}
		r := hx.NewRng(*seed*7919 + uint64(i)*3 + uint64(len(*mode)))
		base := time.Now().UnixMilli()
		if *only >= 0 && *baseFlag != 0 {
			base = *baseFlag
		}
		curIndex, curBase, curVariant = i, base, -1
		noteCurrent(nil)
		sc := &scenario{id: id, kind: *mode, version: []int{6, 7, 8, 9, 10, 11, 12}[r.Intn(7)], restore: r.Bool(), bulk: 512 << 20,
			parallel: 1 + r.Intn(3), pipe: []int{1, 2, 8, 1024}[r.Intn(4)], targetDb: -1, policy: "replace", left: int64(1000 + r.Intn(100000)), baseMs: base}
		sc.entries = genDataset(r, 1+r.Intn(10), base)
		if r.Chance(25) {
			sc.bulk = 40 // most values exceed it: expansion path although restore is on
		}
		if r.Chance(30) {
			sc.chunk = 30 + r.Intn(60)
			// a value that is certainly split (only table-encoded hashes are), with an expiry that has passed, none,
			// or a distant one: the chunks of one key must behave like the key
			f := genEntry(r, 90, "hash", "table")
			for len(f.Val.Hash) < 4 {
				f.Val.Hash = append(f.Val.Hash, [2][]byte{[]byte(fmt.Sprintf("pad%d", len(f.Val.Hash))), []byte(strings.Repeat("p", 40))})
			}
			switch r.Intn(3) {
			case 0:
				f.ExpireAtMs = base - 5000
			case 1:
				f.ExpireAtMs = base + 200000
			}
			f.DB = sc.entries[0].DB
			sc.entries = append([]*rdbgen.Entry{f}, sc.entries...)
		}
		switch r.Intn(6) {
		case 0:
			sc.dbMap = map[int]int{0: 2, 1: 0}
		case 1:
			sc.targetDb = 4
		case 2:
			sc.black = []int{1}
		}
		sc.bisync = *bisyncPct > 0 && r.Intn(100) < *bisyncPct
		sc.oldTgt = sc.restore && !sc.bisync && r.Chance(20)
		wd.Kick(fmt.Sprintf("%s scenario %d", *mode, id))
		data, err := rdbgen.Build(sc.entries, sc.version, r.Bool())
		if p := os.Getenv("VERIF_DUMP_RDB"); p != "" && err == nil {
			os.WriteFile(p, data, 0o644)
		}
		if err != nil {
			hx.Fatal("rdbgen: %v", err)
		}
		for _, e := range sc.entries {
			encSeen[e.Val.Type+"/"+e.Enc]++
		}
		nKeys += len(sc.entries)
		switch *mode {
		case "sync":
			res := runScenario(sc, data)
			emitScenario(tr, sc, res)
			nScen++
		case "policy":
			sc.policy = []string{"replace", "ignore", "error"}[r.Intn(3)]
			sc.prior = map[string]rdbgen.Val{}
			sc.priorExp = map[string]int64{}
			for _, e := range sc.entries {
				if !r.Chance(50) {
					continue
				}
				tdb := e.DB
				if sc.targetDb != -1 {
					tdb = sc.targetDb
				} else if m, ok := sc.dbMap[e.DB]; ok {
					tdb = m
				}
				k := fmt.Sprintf("%d/%s", tdb, e.Key)
				var pv rdbgen.Val
				if r.Chance(60) { // same type, other content
					pv = genEntry(r, 900+len(sc.prior), e.Val.Type, "table").Val
					if e.Val.Type == "string" {
						pv = rdbgen.Val{Type: "string", Str: []byte("prior")}
					}
					if e.Val.Type == "list" {
						pv = rdbgen.Val{Type: "list", List: [][]byte{[]byte("p1"), []byte("p2")}}
					}
					if e.Val.Type == "zset" {
						pv = rdbgen.Val{Type: "zset", ZSet: []rdbgen.ZM{{M: []byte("pm"), S: 9}}}
					}
				} else {
					pv = rdbgen.Val{Type: "string", Str: []byte("other-type")}
					if e.Val.Type == "string" {
						pv = rdbgen.Val{Type: "list", List: [][]byte{[]byte("p")}}
					}
				}
				sc.prior[k] = pv
				if r.Chance(30) {
					sc.priorExp[k] = base + 500000
				}
			}
			res := runScenario(sc, data)
			emitScenario(tr, sc, res)
			nScen++
		case "fault":
			// uncorrupted reference first (counts the data requests)
			ref := runScenario(sc, data)
			kinds := []string{"trunc", "flip", "targeterr", "cancel", "cancel"}
			for v := 0; v < 6; v++ {
				f := *sc
				f.id = id*100 + v
				f.fault = kinds[r.Intn(len(kinds))]
				d := data
				switch f.fault {
				case "trunc":
					f.faultAt = r.Intn(len(data))
					d = data[:f.faultAt]
				case "flip":
					f.faultAt = r.Intn(len(data))
					f.flipXor = byte(1 + r.Intn(255))
					d = append([]byte{}, data...)
					d[f.faultAt] ^= f.flipXor
				default:
					if ref.dataReqs == 0 {
						continue
					}
					f.faultAt = 1 + r.Intn(ref.dataReqs)
					if f.fault == "targeterr" {
						// nothing pre-exists on the target: no policy may take the refusal for "the key exists"
						f.policy = []string{"replace", "ignore", "error"}[r.Intn(3)]
					}
					if f.fault == "cancel" {
						f.pipe = []int{1, 2, 1024}[r.Intn(3)]
					}
				}
				wd.Kick(fmt.Sprintf("fault scenario %d %s@%d", f.id, f.fault, f.faultAt))
				if *variant >= 0 {
					// reproduction: the snapshot bytes of the run that died (generated bytes depend on map order and time)
					if v != *variant {
						continue
					}
					if d, err = os.ReadFile(*input); err != nil {
						hx.Fatal("%v", err)
					}
				}
				curVariant = v
				noteCurrent(d)
				res := runScenario(&f, d)
				emitScenario(tr, &f, res)
				nScen++
			}
		case "loader":
			// loader level: every truncation and every k-th single byte alteration must surface as an error entry
			// a damaged snapshot that the parser alone lets through is replayed through the whole path (SendRdb): what
			// the property speaks about is the result of the replay
			nfull := 0
			full := func(kind string, at int, xor int, d []byte) bool {
				f := *sc
				nfull++
				f.id, f.kind, f.fault, f.faultAt, f.flipXor = id*100+50+nfull%50, "fault", kind, at, byte(xor)
				wd.Kick(fmt.Sprintf("loader candidate %s@%d", kind, at))
				res := runScenario(&f, d)
				emitScenario(tr, &f, res)
				return res.ret == "ok"
			}
			nScen += loaderEnum(tr, sc, data, *flipStride, r, wd, full)
		}
		if len(samples) < 2 {
			var ks []string
			for _, e := range sc.entries {
				ks = append(ks, fmt.Sprintf("db%d %s/%s", e.DB, e.Val.Type, e.Enc))
			}
			samples = append(samples, map[string]interface{}{"rdb_version": sc.version, "restore": sc.restore, "bulk": sc.bulk, "parallel": sc.parallel,
				"chunk": sc.chunk, "policy": sc.policy, "keys": strings.Join(ks, ", "), "rdb_bytes": len(data)})
		}
	}
	os.Remove(curPath)
	os.Remove(curPath + ".bin")
	if err := tr.Close(); err != nil {
		hx.Fatal("%v", err)
	}
	stats["scenarios"], stats["keys"], stats["encodings"], stats["samples"] = nScen, nKeys, encSeen, samples
	hx.WriteJSON(*statsPath, stats)
	fmt.Fprintf(os.Stderr, "fullsyncdrv(%s): %d scenarios, %d keys\n", *mode, nScen, nKeys)
}

// what the driver is working on, for the caller to reproduce in isolation should this process die (a Go runtime fatal
// error such as an allocation the machine cannot satisfy cannot be recovered from inside)
var curPath string
var curIndex int
var curBase int64
var curVariant = -1

func noteCurrent(damaged []byte) {
	os.WriteFile(curPath, []byte(fmt.Sprintf("{\"i\":%d,\"base\":%d,\"variant\":%d,\"damaged\":%v}", curIndex, curBase, curVariant, damaged != nil)), 0o644)
	if damaged != nil {
		os.WriteFile(curPath+".bin", damaged, 0o644)
	}
}

// loaderEnum feeds damaged copies of data to the real parser (rdb.ParseRdb) and records one summary event.
func loaderEnum(tr *hx.Trace, sc *scenario, data []byte, stride int, r *hx.Rng, wd *hx.Watchdog, full func(kind string, at int, xor int, d []byte) bool) int {
	config.RdbPipeSize = 1024
	// parseOnce: limit is the time without any progress (bytes consumed, entries delivered) after which the
	// parse counts as stuck; a parse that is merely slow on a loaded machine keeps making progress
	parseOnce := func(d []byte, limit time.Duration) (entries int, sawErr bool, sawDone bool, timedOut bool) {
		var rb atomic.Int64
		ch := rdb.ParseRdb(bytes.NewReader(d), &rb, 64)
		tick := time.NewTicker(limit / 4)
		defer tick.Stop()
		lastRb, lastEntries, idle := int64(-1), -1, 0
		for {
			select {
			case e, ok := <-ch:
				if !ok {
					return
				}
				if e.Err != nil {
					sawErr = true
				} else if e.Done {
					sawDone = true
				} else {
					entries++
				}
			case <-tick.C:
				wd.Kick("loader enumeration (slow parse)")
				if rb.Load() == lastRb && entries == lastEntries {
					idle++
				} else {
					idle = 0
				}
				lastRb, lastEntries = rb.Load(), entries
				if idle >= 4 {
					timedOut = true
					return
				}
			}
		}
	}
	hangs := []map[string]interface{}{}
	nparse := 0
	what := map[string]interface{}{"kind": "intact"}
	parse := func(d []byte) (entries int, sawErr bool, sawDone bool) {
		nparse++
		if nparse%500 == 0 {
			debug.FreeOSMemory()
		}
		var to bool
		noteCurrent(d)
		entries, sawErr, sawDone, to = parseOnce(d, 10*time.Second)
		if to {
			// a slow parse under memory pressure is not a hang: try again alone after a collection
			debug.FreeOSMemory()
			entries, sawErr, sawDone, to = parseOnce(d, 90*time.Second)
			if to {
				hangs = append(hangs, map[string]interface{}{"bytes": len(d), "what": what, "data": hexs(d)})
				sawErr = true
			}
		}
		return
	}
	n0, e0, d0 := parse(data)
	silent := []map[string]interface{}{}
	tried, parserAccepted := 0, 0
	for cut := 0; cut < len(data); cut++ {
		tried++
		what = map[string]interface{}{"kind": "trunc", "at": cut}
		_, se, sd := parse(data[:cut])
		if !se {
			parserAccepted++
			if parserAccepted > 40 || full("trunc", cut, 0, data[:cut]) {
				silent = append(silent, map[string]interface{}{"kind": "trunc", "at": cut, "done": sd})
			}
		}
	}
	off := r.Intn(stride)
	for pos := 0; pos < len(data); pos++ {
		wd.Kick("loader enumeration")
		for x := 1 + off; x < 256; x += stride {
			tried++
			d := append([]byte{}, data...)
			d[pos] ^= byte(x)
			what = map[string]interface{}{"kind": "flip", "at": pos, "xor": x}
			_, se, sd := parse(d)
			if !se {
				parserAccepted++
				if parserAccepted > 40 || full("flip", pos, x, d) {
					silent = append(silent, map[string]interface{}{"kind": "flip", "at": pos, "xor": x, "done": sd})
				}
			}
		}
	}
	if len(silent) > 20 {
		silent = silent[:20]
	}
	tr.Emit(map[string]interface{}{"ev": "Loader", "id": sc.id, "bytes": len(data), "version": sc.version, "intactEntries": n0, "intactErr": e0, "intactDone": d0,
		"tried": tried, "silent": silent, "parserAccepted": parserAccepted, "hangs": hangs, "keys": len(sc.entries)})
	return tried
}
