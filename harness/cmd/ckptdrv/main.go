// ckptdrv exercises the resume-bookkeeping maintenance operations of
// pkg/redis/checkpoint (re-keying / renaming through UpdateCheckpoint, stale
// checkpoint collection through DelStaleCheckpoint) against the fake target,
// stopping the target after every prefix of the requests an operation issues,
// and then performs the next start (UpdateCheckpoint to completion, then
// GetCheckpoint) as the tool does.  spec/trace/TraceCkpt.tla judges that the
// resume position is never lost, never goes back and stays in its database.
package main

import (
	"bufio"
	"context"
	"io"
	"net"
	"path/filepath"
	"strings"

	"flag"
	"fmt"
	"os"
	"strconv"
	"time"

	"github.com/mgtv-tech/redis-GunYu/cmd"
	"github.com/mgtv-tech/redis-GunYu/config"
	"github.com/mgtv-tech/redis-GunYu/pkg/redis"
	"github.com/mgtv-tech/redis-GunYu/pkg/redis/checkpoint"
	"github.com/mgtv-tech/redis-GunYu/pkg/redis/client"
	"github.com/mgtv-tech/redis-GunYu/pkg/redis/client/common"
	"github.com/mgtv-tech/redis-GunYu/syncer"

	"verifh/fakeredis"
	"verifh/hx"
)

const (
	idOld = "aaaaaaaaaaaaaaaaaaaaaaaaaaaaaaaaaaaaaaaa"
	idNew = "cccccccccccccccccccccccccccccccccccccccc"
	cpA   = "redis-gunyu-checkpoint-A"
	cpB   = "redis-gunyu-checkpoint-B"
)

type cpEntry struct {
	db    int
	off   int64
	ageMs int64 // age of the mtime field
	runid bool
}

type scenario struct {
	op      string // rename | failover | both | gc
	entries []cpEntry
	dataDbs []int
	staleMs int64
	// another input (run id idOther) keeps its position under the same key - the key every input of a non-transactional
	// link, and every input of one target shard, shares: database and offset of its entry (off 0 = none)
	otherDb  int
	otherOff int64
}

func seedState(srv *fakeredis.Server, sc *scenario) {
	srv.Lock()
	defer srv.Unlock()
	srv.DBs = map[int]fakeredis.DB{}
	db := func(n int) fakeredis.DB {
		if srv.DBs[n] == nil {
			srv.DBs[n] = fakeredis.DB{}
		}
		return srv.DBs[n]
	}
	for _, d := range sc.dataDbs {
		db(d)["data"] = &fakeredis.Value{Type: "string", Str: []byte("x")}
	}
	now := time.Now().UnixNano()
	for i, e := range sc.entries {
		h := map[string][]byte{
			idOld + "_offset":  []byte(strconv.FormatInt(e.off, 10)),
			idOld + "_version": []byte("1"),
			// modification times are nanosecond stamps: never equal in two databases
			idOld + "_mtime": []byte(strconv.FormatInt(now-e.ageMs*1e6-int64(i)*1000, 10)),
		}
		if e.runid {
			h[idOld+"_runid"] = []byte(idOld)
		}
		db(e.db)[cpA] = &fakeredis.Value{Type: "hash", Hash: h}
	}
	idx := map[string][]byte{idOld: []byte(cpA)}
	if sc.otherOff > 0 {
		v := db(sc.otherDb)[cpA]
		if v == nil {
			v = &fakeredis.Value{Type: "hash", Hash: map[string][]byte{}}
			db(sc.otherDb)[cpA] = v
		}
		v.Hash[idOther+"_offset"] = []byte(strconv.FormatInt(sc.otherOff, 10))
		v.Hash[idOther+"_version"] = []byte("1")
		v.Hash[idOther+"_runid"] = []byte(idOther)
		v.Hash[idOther+"_mtime"] = []byte(strconv.FormatInt(now, 10))
		idx[idOther] = []byte(cpA)
	}
	db(0)[config.CheckpointKeyHashKey] = &fakeredis.Value{Type: "hash", Hash: idx}
}

type resume struct {
	Off int64  `json:"off"`
	Db  int    `json:"db"`
	Rid string `json:"rid"`
}

func connect(srv *fakeredis.Server) client.Redis {
	cli, err := client.NewRedis(config.RedisConfig{Addresses: []string{srv.Addr()}, Type: config.RedisTypeStandalone, Otype: config.RedisTypeStandalone})
	if err != nil {
		hx.Fatal("connect: %v", err)
	}
	return cli
}

func readResume(srv *fakeredis.Server, ids []string) resume {
	cli := connect(srv)
	defer cli.Close()
	name, _, err := checkpoint.GetCheckpointHash(cli, ids)
	if err != nil && err != common.ErrNil {
		hx.Fatal("GetCheckpointHash: %v", err)
	}
	if name == "" {
		return resume{Off: -1, Db: -1, Rid: "?"}
	}
	cp, db, err := checkpoint.GetCheckpoint(cli, name, ids)
	if err != nil {
		hx.Fatal("GetCheckpoint: %v", err)
	}
	rid := cp.RunId
	switch rid {
	case idOld:
		rid = "old"
	case idNew:
		rid = "new"
	}
	return resume{Off: cp.Offset, Db: db, Rid: rid}
}

func opArgs(op string) (local string, ids []string) {
	switch op {
	case "rename":
		return cpB, []string{idOld}
	case "failover":
		return cpA, []string{idNew, idOld}
	case "both":
		return cpB, []string{idNew, idOld}
	}
	return cpA, []string{idOld}
}

func runOp(cli client.Redis, sc *scenario) error {
	local, ids := opArgs(sc.op)
	if sc.op == "gc" {
		_, _, err := checkpoint.DelStaleCheckpoint(cli, cpA, idOld, time.Duration(sc.staleMs)*time.Millisecond, true)
		return err
	}
	return checkpoint.UpdateCheckpoint(cli, local, ids)
}

// ---------------------------------------------------------------------------
// the collector as the tool runs it: cmd.gcStaleCheckpoint asks every source which replication ids it still
// reports and spares the newest checkpoint of those

type fakeInfoSource struct {
	ln       net.Listener
	id1, id2 string
}

func startInfoSource() *fakeInfoSource {
	ln, err := hx.Listen()
	if err != nil {
		hx.Fatal("%v", err)
	}
	fs := &fakeInfoSource{ln: ln}
	go func() {
		for {
			c, err := ln.Accept()
			if err != nil {
				return
			}
			go func(c net.Conn) {
				defer c.Close()
				r := bufio.NewReader(c)
				for {
					line, err := r.ReadString('\n')
					if err != nil {
						return
					}
					if !strings.HasPrefix(line, "*") {
						continue
					}
					n, _ := strconv.Atoi(strings.TrimSpace(line[1:]))
					var args []string
					for i := 0; i < n; i++ {
						l, err := r.ReadString('\n')
						if err != nil {
							return
						}
						sz, _ := strconv.Atoi(strings.TrimSpace(l[1:]))
						buf := make([]byte, sz+2)
						if _, err := io.ReadFull(r, buf); err != nil {
							return
						}
						args = append(args, string(buf[:sz]))
					}
					if len(args) > 0 && strings.EqualFold(args[0], "info") {
						body := fmt.Sprintf("# Replication\r\nrole:master\r\nmaster_replid:%s\r\nmaster_replid2:%s\r\nmaster_repl_offset:5000\r\nsecond_repl_offset:4000\r\n", fs.id1, fs.id2)
						fmt.Fprintf(c, "$%d\r\n%s\r\n", len(body), body)
					} else if len(args) > 0 && strings.EqualFold(args[0], "ping") {
						fmt.Fprintf(c, "+PONG\r\n")
					} else {
						fmt.Fprintf(c, "+OK\r\n")
					}
				}
			}(c)
		}
	}()
	return fs
}

const idOther = "eeeeeeeeeeeeeeeeeeeeeeeeeeeeeeeeeeeeeeee"

// runGcLive: initial states x what the source reports x staleness; one event each
func runGcLive(tr *hx.Trace, srv *fakeredis.Server, seed uint64, n, shard, shards int, work string, wd *hx.Watchdog) (int, []interface{}) {
	fs := startInfoSource()
	defer fs.ln.Close()
	yaml := fmt.Sprintf("server:\n  listen: 127.0.0.1:18001\n  listenPeer: 127.0.0.1:18001\ninput:\n  redis:\n    addresses: [%s]\n    type: standalone\n"+
		"channel:\n  storer:\n    dirPath: %s\n    maxSize: 1073741800\n    logSize: 10971520\noutput:\n  replay:\n    resumeFromBreakPoint: true\n    keyExists: replace\n    targetDb: -1\n"+
		"  redis:\n    addresses: [%s]\n    type: standalone\nlog:\n  level: error\n  handler:\n    stdout: false\ncluster:\n  groupName: verif\n  leaseTimeout: 9s\n",
		fs.ln.Addr().String(), filepath.Join(work, "gcdir"), srv.Addr())
	cfgPath := filepath.Join(work, "gc.yaml")
	if err := os.WriteFile(cfgPath, []byte(yaml), 0o644); err != nil {
		hx.Fatal("%v", err)
	}
	if err := config.InitSyncerConfig(cfgPath); err != nil {
		hx.Fatal("config: %v", err)
	}
	if os.Getenv("VERIF_LOGS") == "" {
		hx.QuietLogs()
	}
	gc := config.GetSyncerConfig()
	gc.Channel.Type = config.ChannelTypeMemory // no cache directory to collect
	gc.Input.Redis.SetClusterShards([]*config.RedisClusterShard{{Master: config.RedisNode{Address: fs.ln.Addr().String()}}})
	gc.Output.Redis.SetClusterShards([]*config.RedisClusterShard{{Master: config.RedisNode{Address: srv.Addr()}}})
	sc := cmd.NewSyncerCmd()
	// a second source shard (always reachable, with an id of its own) and the address of a node that is down
	fsOther := startInfoSource()
	defer fsOther.ln.Close()
	fsOther.id1, fsOther.id2 = idOther, strings.Repeat("0", 40)
	deadLn, err := hx.Listen()
	if err != nil {
		hx.Fatal("%v", err)
	}
	deadAddr := deadLn.Addr().String()
	// the node that is down keeps its port (another process of this check could be given it otherwise): whoever connects is
	// hung up on at once
	defer deadLn.Close()
	go func() {
		for {
			c, err := deadLn.Accept()
			if err != nil {
				return
			}
			c.Close()
		}
	}()
	oneShard := []*config.RedisClusterShard{{Master: config.RedisNode{Address: fs.ln.Addr().String()}}}
	runs := 0
	var samples []interface{}
	id := 5000000 + shard
	for i := 0; i < n; i++ {
		if i%shards != shard {
			continue
		}
		r := hx.NewRng(seed*7717 + uint64(i))
		if i%6 == 5 {
			wd.Kick(fmt.Sprintf("gclive state %d running link", i))
			id += shards
			gc.Input.Redis.SetClusterShards(oneShard)
			gc.Input.Redis.Addresses = []string{fs.ln.Addr().String()}
			runGcRunning(tr, srv, sc, fs, r, id, 3600_000)
			runs++
			continue
		}
		st := &scenario{op: "gclive", staleMs: 3600_000}
		ndb := 1 + r.Intn(3)
		used := map[int]bool{}
		for len(st.entries) < ndb {
			d := r.Intn(4)
			if used[d] {
				continue
			}
			used[d] = true
			st.entries = append(st.entries, cpEntry{db: d, off: int64(100 + r.Intn(900)), runid: true, ageMs: int64(r.Intn(2)) * 7200_000})
			st.dataDbs = append(st.dataDbs, d)
		}
		// what the source reports: the checkpoint's id as current id, as previous id (fail-over not yet re-keyed), or not at all
		// ... or ("raced") as current id to the collector, although the source has just failed over and a start of the link has
		// moved the position to the new id: the collector's list of live ids is older than what it then reads on the target
		// ... or ("shard-down") the source is a cluster of two shards and every node of the checkpoint's shard is unreachable
		// while the collector runs (the other shard answers); afterwards the shard is back and reports the id as before
		report := []string{"current", "previous", "gone", "raced", "shard-down"}[r.Intn(5)]
		gc.Input.Redis.SetClusterShards(oneShard)
		gc.Input.Redis.Addresses = []string{fs.ln.Addr().String()}
		switch report {
		case "shard-down":
			fs.id1, fs.id2 = idOld, strings.Repeat("0", 40)
			down := []*config.RedisClusterShard{{Master: config.RedisNode{Address: fsOther.ln.Addr().String()}}, {Master: config.RedisNode{Address: deadAddr}}}
			if r.Bool() {
				down[0], down[1] = down[1], down[0]
			}
			gc.Input.Redis.SetClusterShards(down)
			gc.Input.Redis.Addresses = []string{down[0].Master.Address, down[1].Master.Address}
		case "raced":
			fs.id1, fs.id2 = idOld, strings.Repeat("0", 40)
		case "current":
			fs.id1, fs.id2 = idOld, strings.Repeat("0", 40)
		case "previous":
			fs.id1, fs.id2 = idNew, idOld
		default:
			fs.id1, fs.id2 = idOther, strings.Repeat("0", 40)
		}
		wd.Kick(fmt.Sprintf("gclive state %d %s", i, report))
		gc.Channel.StaleCheckpointDuration = time.Duration(st.staleMs) * time.Millisecond
		seedState(srv, st)
		before := readResume(srv, []string{idOld})
		if report == "raced" {
			cliM := connect(srv)
			if err := checkpoint.UpdateCheckpoint(cliM, cpA, []string{idNew, idOld}); err != nil {
				hx.Fatal("raced move: %v", err)
			}
			cliM.Close()
		}
		reqBase := srv.RecvCount()
		sc.VerifGcStaleCheckpoint(context.Background())
		gcReqs := srv.RecvCount() - reqBase
		if gcReqs == 0 && report != "shard-down" {
			hx.Fatal("the collector never reached the target (state %d)", i)
		}
		gc.Input.Redis.SetClusterShards(oneShard)
		gc.Input.Redis.Addresses = []string{fs.ln.Addr().String()}
		for j := 0; j < 2000 && srv.ConnCount() > 0; j++ {
			time.Sleep(100 * time.Microsecond)
		}
		// next start of the syncer of that source
		ids := []string{fs.id1}
		if fs.id2 != strings.Repeat("0", 40) {
			ids = append(ids, fs.id2)
		}
		if report == "raced" {
			ids = []string{idNew, idOld}
		}
		nextStartErr := ""
		if report != "gone" {
			cli2 := connect(srv)
			// (an error here is what a start finds when the collector has removed the bookkeeping: the position read below decides)
			if err := checkpoint.UpdateCheckpoint(cli2, cpA, ids); err != nil {
				nextStartErr = err.Error()
			}
			cli2.Close()
		}
		after := readResume(srv, ids)
		id += shards
		tr.Emit(map[string]interface{}{"ev": "Maint", "id": id, "op": "gclive", "k": 0, "total": 0, "crashed": false, "operr": false, "reported": report, "gcRequests": gcReqs, "nextStartErr": nextStartErr,
			"before": before, "after": after, "later": after, "wrote": -1, "state": fmt.Sprint(st.entries), "datadbs": fmt.Sprint(st.dataDbs)})
		runs++
		if len(samples) < 1 {
			samples = append(samples, map[string]interface{}{"op": "gclive", "source_reports": report, "checkpoints(db,off,ageMs,runid)": fmt.Sprint(st.entries)})
		}
	}
	return runs, samples
}

// runGcRunning: the collector passes while the link of the source is RUNNING.  A real RedisOutput (transactional batches of one
// command) replays a stream that writes into database d1, then d2; the collector runs (the source reports the link's id as its
// current one); the stream goes back to d1; the link stops; the next start looks the position up.
func runGcRunning(tr *hx.Trace, srv *fakeredis.Server, sc *cmd.SyncerCmd, fs *fakeInfoSource, r *hx.Rng, id int, staleMs int64) {
	srv.Lock()
	srv.DBs = map[int]fakeredis.DB{}
	srv.Unlock()
	gc := config.GetSyncerConfig()
	gc.Channel.StaleCheckpointDuration = time.Duration(staleMs) * time.Millisecond
	fs.id1, fs.id2 = idOld, strings.Repeat("0", 40)
	// what a start does before it replays: the position is registered under the key (none yet: a first start)
	cli := connect(srv)
	if err := checkpoint.UpdateCheckpoint(cli, cpA, []string{idOld, strings.Repeat("0", 40)}); err != nil {
		hx.Fatal("running: UpdateCheckpoint: %v", err)
	}
	cli.Close()
	d1, d2 := r.Intn(4), r.Intn(4)
	for d2 == d1 {
		d2 = r.Intn(4)
	}
	start := int64(1000 + r.Intn(9000))
	var stream []byte
	var ends []int64
	var dbs []int
	add := func(db int, n int) {
		stream = append(stream, hx.EncodeCmd([]byte("select"), []byte(strconv.Itoa(db)))...)
		for i := 0; i < n; i++ {
			stream = append(stream, hx.EncodeCmd([]byte("set"), []byte(fmt.Sprintf("k%d:%d", db, len(ends))), []byte("v"))...)
			ends = append(ends, start+int64(len(stream)))
			dbs = append(dbs, db)
		}
	}
	add(d1, 1+r.Intn(2))
	add(d2, 1+r.Intn(2))
	cut := len(stream)
	ncut := len(ends)
	add(d1, 1+r.Intn(2))
	ro := syncer.NewRedisOutput(syncer.RedisOutputConfig{
		InputName: "verif", CheckpointName: cpA, RunId: idOld, CanTransaction: true,
		Redis:                      config.RedisConfig{Addresses: []string{srv.Addr()}, Type: config.RedisTypeStandalone, Otype: config.RedisTypeStandalone, Version: "7.0.0"},
		EnableResumeFromBreakPoint: true, TargetDb: -1,
		BatchCmdCount: 1, BatchTicker: time.Hour, BatchBufferSize: 1 << 30, KeepaliveTicker: time.Hour, UpdateCheckpointTicker: time.Hour,
		ReplayMode: config.ReplayModeSync, Parallelism: 1, ReplayRdbParallel: 1, KeyExists: "replace",
		Stats: config.OutputStats{DisableLog: true},
	})
	feed := hx.NewFeedReader()
	ctx, cancel := context.WithCancel(context.Background())
	defer cancel()
	done := make(chan error, 1)
	go func() { done <- ro.Send(ctx, hx.NewChanReader(feed, true, idOld, start, -1)) }()
	stored := func() int64 {
		res := readResume(srv, []string{idOld})
		return res.Off
	}
	waitStored := func(off int64, what string) {
		dl := time.Now().Add(60 * time.Second)
		for stored() < off {
			if time.Now().After(dl) {
				hx.Fatal("running %d: the link did not store position %d (%s)", id, off, what)
			}
			time.Sleep(300 * time.Microsecond)
		}
	}
	feed.Feed(stream[:cut])
	waitStored(ends[ncut-1], "first part")
	before := readResume(srv, []string{idOld})
	reqBase := srv.RecvCount()
	sc.VerifGcStaleCheckpoint(context.Background())
	gcReqs := srv.RecvCount() - reqBase
	feed.Feed(stream[cut:])
	// the last command is stored in d1 again: the link's own view of the position
	dl := time.Now().Add(60 * time.Second)
	for {
		srv.Lock()
		var got int64 = -1
		if v := srv.DBs[d1][cpA]; v != nil && v.Type == "hash" {
			got, _ = strconv.ParseInt(string(v.Hash[idOld+"_offset"]), 10, 64)
		}
		srv.Unlock()
		if got >= ends[len(ends)-1] {
			break
		}
		if time.Now().After(dl) {
			hx.Fatal("running %d: the link did not write its last position into database %d", id, d1)
		}
		time.Sleep(300 * time.Microsecond)
	}
	feed.CloseWith(io.EOF)
	select {
	case <-done:
	case <-time.After(30 * time.Second):
		hx.Fatal("running %d: Send did not return", id)
	}
	for j := 0; j < 20000 && srv.ConnCount() > 0; j++ {
		time.Sleep(100 * time.Microsecond)
	}
	after := readResume(srv, []string{idOld})
	// the position the link itself had reached is what must not be lost
	want := resume{Off: ends[len(ends)-1], Db: d1, Rid: "old"}
	_ = before
	tr.Emit(map[string]interface{}{"ev": "Maint", "id": id, "op": "gclive", "k": 0, "total": 0, "crashed": false, "operr": false, "reported": "running", "gcRequests": gcReqs,
		"nextStartErr": "", "before": want, "after": after, "later": after, "wrote": -1,
		"state": fmt.Sprintf("link writes db %d, db %d, collector pass, db %d", d1, d2, d1), "datadbs": fmt.Sprint([]int{d1, d2})})
}

func main() {
	out := flag.String("out", "trace.ndjson", "")
	statsPath := flag.String("stats", "stats.json", "")
	seed := flag.Uint64("seed", 1, "")
	n := flag.Int("n", 40, "initial states")
	reps := flag.Int("reps", 4, "repetitions per crash point (map iteration order)")
	shard := flag.Int("shard", 0, "")
	shards := flag.Int("shards", 1, "")
	work := flag.String("work", "", "scratch directory (enables the runs of the collector as the tool drives it)")
	flag.Parse()
	hx.QuietLogs()
	tr, err := hx.NewTrace(*out)
	if err != nil {
		hx.Fatal("%v", err)
	}
	wd := hx.NewWatchdog(60 * time.Second)
	srv := fakeredis.New()
	srv.RealClock = true
	if _, err := srv.Start(); err != nil {
		hx.Fatal("%v", err)
	}
	defer srv.Close()
	id := *shard
	nRuns, nStates := 0, 0
	var samples []interface{}
	ops := []string{"rename", "failover", "both", "gc"}
	for i := 0; i < *n; i++ {
		if i%*shards != *shard {
			continue
		}
		r := hx.NewRng(*seed*613 + uint64(i))
		sc := &scenario{op: ops[i%len(ops)], staleMs: 3600_000}
		// 1-3 databases hold a checkpoint of the old id; offsets distinct unless a tie is drawn
		ndb := 1 + r.Intn(3)
		used := map[int]bool{}
		for len(sc.entries) < ndb {
			d := r.Intn(4)
			if used[d] {
				continue
			}
			used[d] = true
			e := cpEntry{db: d, off: int64(100 + r.Intn(900)), runid: true, ageMs: int64(r.Intn(2)) * 7200_000}
			if len(sc.entries) > 0 && r.Chance(15) {
				e.off = sc.entries[0].off // tie
			}
			sc.entries = append(sc.entries, e)
			sc.dataDbs = append(sc.dataDbs, d)
		}
		for d := 0; d < 4; d++ {
			if !used[d] && r.Chance(40) {
				sc.dataDbs = append(sc.dataDbs, d) // databases with data but no checkpoint
			}
		}
		if sc.op != "gc" && r.Chance(50) {
			sc.otherDb = sc.dataDbs[r.Intn(len(sc.dataDbs))]
			sc.otherOff = int64(5000 + r.Intn(900))
		}
		nStates++
		_, ids := opArgs(sc.op)
		// how many requests does the uncrashed operation issue?
		seedState(srv, sc)
		cli := connect(srv)
		base := srv.RecvCount()
		if err := runOp(cli, sc); err != nil {
			hx.Fatal("%s: %v", sc.op, err)
		}
		total := srv.RecvCount() - base
		cli.Close()
		for k := 0; k <= total; k++ {
			for rep := 0; rep < *reps; rep++ {
				wd.Kick(fmt.Sprintf("state %d op %s k %d", i, sc.op, k))
				id += *shards
				seedState(srv, sc)
				before := readResume(srv, []string{idOld})
				otherBefore := resume{Off: -1, Db: -1, Rid: "?"}
				if sc.otherOff > 0 {
					otherBefore = readResume(srv, []string{idOther, strings.Repeat("0", 40)})
				}
				cli := connect(srv)
				srv.SetCrashAfter(srv.RecvCount() + k)
				opErr := runOp(cli, sc)
				cli.Close()
				for j := 0; j < 2000 && srv.ConnCount() > 0; j++ {
					time.Sleep(100 * time.Microsecond)
				}
				crashed := srv.IsCrashed()
				srv.Revive()
				// next start: the same maintenance to completion, then the resume point
				if sc.op != "gc" {
					cli2 := connect(srv)
					local, _ := opArgs(sc.op)
					if err := checkpoint.UpdateCheckpoint(cli2, local, ids); err != nil {
						hx.Fatal("next start UpdateCheckpoint: %v", err)
					}
					cli2.Close()
				}
				after := readResume(srv, ids)
				// the replay goes on under the current id and stores a later position where the start found it; then it is
				// started once more: whatever the interrupted operation left behind must not outvote that position
				later, wrote := after, int64(-1)
				if sc.op != "gc" && after.Rid != "?" && after.Off >= 0 && after.Db >= 0 {
					cli3 := connect(srv)
					local, _ := opArgs(sc.op)
					if err := redis.SelectDB(cli3, uint32(after.Db)); err != nil {
						hx.Fatal("select: %v", err)
					}
					wrote = after.Off + 57
					if err := checkpoint.SetCheckpoint(cli3, &checkpoint.CheckpointInfo{Key: local, RunId: ids[0], Offset: wrote, Version: config.Version}); err != nil {
						hx.Fatal("progress: %v", err)
					}
					cli3.Close()
					later = readResume(srv, ids)
				}
				otherAfter := otherBefore
				if sc.otherOff > 0 {
					// what the next start of the other input finds (it has not run any maintenance of its own yet)
					otherAfter = readResume(srv, []string{idOther, strings.Repeat("0", 40)})
				}
				tr.Emit(map[string]interface{}{"ev": "Maint", "id": id, "op": sc.op, "k": k, "total": total, "crashed": crashed, "operr": opErr != nil, "reported": "",
					"before": before, "after": after, "later": later, "wrote": wrote, "state": fmt.Sprint(sc.entries), "datadbs": fmt.Sprint(sc.dataDbs),
					"otherBefore": otherBefore, "otherAfter": otherAfter})
				nRuns++
			}
		}
		if len(samples) < 3 {
			samples = append(samples, map[string]interface{}{"op": sc.op, "checkpoints(db,off,ageMs,runid)": fmt.Sprint(sc.entries), "data_dbs": sc.dataDbs, "requests": total})
		}
	}
	if *work != "" {
		gr, gs := runGcLive(tr, srv, *seed, *n*4, *shard, *shards, *work, wd)
		nRuns += gr
		samples = append(samples, gs...)
	}
	if err := tr.Close(); err != nil {
		hx.Fatal("%v", err)
	}
	hx.WriteJSON(*statsPath, map[string]interface{}{"states": nStates, "runs": nRuns, "samples": samples})
	fmt.Fprintf(os.Stderr, "ckptdrv: %d initial states, %d crash runs\n", nStates, nRuns)
}
