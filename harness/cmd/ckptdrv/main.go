// ckptdrv exercises the resume-bookkeeping maintenance operations of
// pkg/redis/checkpoint (re-keying / renaming through UpdateCheckpoint, stale
// checkpoint collection through DelStaleCheckpoint) against the fake target,
// stopping the target after every prefix of the requests an operation issues,
// and then performs the next start (UpdateCheckpoint to completion, then
// GetCheckpoint) as the tool does.  spec/trace/TraceCkpt.tla judges that the
// resume position is never lost, never goes back and stays in its database.
package main

import (
	"flag"
	"fmt"
	"os"
	"strconv"
	"time"

	"github.com/mgtv-tech/redis-GunYu/config"
	"github.com/mgtv-tech/redis-GunYu/pkg/redis/checkpoint"
	"github.com/mgtv-tech/redis-GunYu/pkg/redis/client"

	"verifh/fakeredis"
	"verifh/hx"
)

const (
	idOld = "aaaaaaaaaaaaaaaaaaaaaaaaaaaaaaaaaaaaaaaa"
	idNew = "cccccccccccccccccccccccccccccccccccccccc"
	cpA   = "redis-gunyu-checkpoint-A"
	cpB   = "redis-gunyu-checkpoint-B"
)

type cpEntry struct {
	db    int
	off   int64
	ageMs int64 // age of the mtime field
	runid bool
}

type scenario struct {
	op      string // rename | failover | both | gc
	entries []cpEntry
	dataDbs []int
	staleMs int64
}

func seedState(srv *fakeredis.Server, sc *scenario) {
	srv.Lock()
	defer srv.Unlock()
	srv.DBs = map[int]fakeredis.DB{}
	db := func(n int) fakeredis.DB {
		if srv.DBs[n] == nil {
			srv.DBs[n] = fakeredis.DB{}
		}
		return srv.DBs[n]
	}
	for _, d := range sc.dataDbs {
		db(d)["data"] = &fakeredis.Value{Type: "string", Str: []byte("x")}
	}
	now := time.Now().UnixNano()
	for i, e := range sc.entries {
		h := map[string][]byte{
			idOld + "_offset":  []byte(strconv.FormatInt(e.off, 10)),
			idOld + "_version": []byte("1"),
			// modification times are nanosecond stamps: never equal in two databases
			idOld + "_mtime": []byte(strconv.FormatInt(now-e.ageMs*1e6-int64(i)*1000, 10)),
		}
		if e.runid {
			h[idOld+"_runid"] = []byte(idOld)
		}
		db(e.db)[cpA] = &fakeredis.Value{Type: "hash", Hash: h}
	}
	db(0)[config.CheckpointKeyHashKey] = &fakeredis.Value{Type: "hash", Hash: map[string][]byte{idOld: []byte(cpA)}}
}

type resume struct {
	Off int64  `json:"off"`
	Db  int    `json:"db"`
	Rid string `json:"rid"`
}

func connect(srv *fakeredis.Server) client.Redis {
	cli, err := client.NewRedis(config.RedisConfig{Addresses: []string{srv.Addr()}, Type: config.RedisTypeStandalone, Otype: config.RedisTypeStandalone})
	if err != nil {
		hx.Fatal("connect: %v", err)
	}
	return cli
}

func readResume(srv *fakeredis.Server, ids []string) resume {
	cli := connect(srv)
	defer cli.Close()
	name, _, err := checkpoint.GetCheckpointHash(cli, ids)
	if err != nil {
		hx.Fatal("GetCheckpointHash: %v", err)
	}
	if name == "" {
		return resume{Off: -1, Db: -1, Rid: "?"}
	}
	cp, db, err := checkpoint.GetCheckpoint(cli, name, ids)
	if err != nil {
		hx.Fatal("GetCheckpoint: %v", err)
	}
	rid := cp.RunId
	switch rid {
	case idOld:
		rid = "old"
	case idNew:
		rid = "new"
	}
	return resume{Off: cp.Offset, Db: db, Rid: rid}
}

func opArgs(op string) (local string, ids []string) {
	switch op {
	case "rename":
		return cpB, []string{idOld}
	case "failover":
		return cpA, []string{idNew, idOld}
	case "both":
		return cpB, []string{idNew, idOld}
	}
	return cpA, []string{idOld}
}

func runOp(cli client.Redis, sc *scenario) error {
	local, ids := opArgs(sc.op)
	if sc.op == "gc" {
		_, _, err := checkpoint.DelStaleCheckpoint(cli, cpA, idOld, time.Duration(sc.staleMs)*time.Millisecond, true)
		return err
	}
	return checkpoint.UpdateCheckpoint(cli, local, ids)
}

func main() {
	out := flag.String("out", "trace.ndjson", "")
	statsPath := flag.String("stats", "stats.json", "")
	seed := flag.Uint64("seed", 1, "")
	n := flag.Int("n", 40, "initial states")
	reps := flag.Int("reps", 4, "repetitions per crash point (map iteration order)")
	shard := flag.Int("shard", 0, "")
	shards := flag.Int("shards", 1, "")
	flag.Parse()
	hx.QuietLogs()
	tr, err := hx.NewTrace(*out)
	if err != nil {
		hx.Fatal("%v", err)
	}
	wd := hx.NewWatchdog(60 * time.Second)
	srv := fakeredis.New()
	srv.RealClock = true
	if _, err := srv.Start(); err != nil {
		hx.Fatal("%v", err)
	}
	defer srv.Close()
	id := *shard
	nRuns, nStates := 0, 0
	var samples []interface{}
	ops := []string{"rename", "failover", "both", "gc"}
	for i := 0; i < *n; i++ {
		if i%*shards != *shard {
			continue
		}
		r := hx.NewRng(*seed*613 + uint64(i))
		sc := &scenario{op: ops[i%len(ops)], staleMs: 3600_000}
		// 1-3 databases hold a checkpoint of the old id; offsets distinct unless a tie is drawn
		ndb := 1 + r.Intn(3)
		used := map[int]bool{}
		for len(sc.entries) < ndb {
			d := r.Intn(4)
			if used[d] {
				continue
			}
			used[d] = true
			e := cpEntry{db: d, off: int64(100 + r.Intn(900)), runid: true, ageMs: int64(r.Intn(2)) * 7200_000}
			if len(sc.entries) > 0 && r.Chance(15) {
				e.off = sc.entries[0].off // tie
			}
			sc.entries = append(sc.entries, e)
			sc.dataDbs = append(sc.dataDbs, d)
		}
		for d := 0; d < 4; d++ {
			if !used[d] && r.Chance(40) {
				sc.dataDbs = append(sc.dataDbs, d) // databases with data but no checkpoint
			}
		}
		nStates++
		_, ids := opArgs(sc.op)
		// how many requests does the uncrashed operation issue?
		seedState(srv, sc)
		cli := connect(srv)
		base := srv.RecvCount()
		if err := runOp(cli, sc); err != nil {
			hx.Fatal("%s: %v", sc.op, err)
		}
		total := srv.RecvCount() - base
		cli.Close()
		for k := 0; k <= total; k++ {
			for rep := 0; rep < *reps; rep++ {
				wd.Kick(fmt.Sprintf("state %d op %s k %d", i, sc.op, k))
				id += *shards
				seedState(srv, sc)
				before := readResume(srv, []string{idOld})
				cli := connect(srv)
				srv.SetCrashAfter(srv.RecvCount() + k)
				opErr := runOp(cli, sc)
				cli.Close()
				for j := 0; j < 2000 && srv.ConnCount() > 0; j++ {
					time.Sleep(100 * time.Microsecond)
				}
				crashed := srv.IsCrashed()
				srv.Revive()
				// next start: the same maintenance to completion, then the resume point
				if sc.op != "gc" {
					cli2 := connect(srv)
					local, _ := opArgs(sc.op)
					if err := checkpoint.UpdateCheckpoint(cli2, local, ids); err != nil {
						hx.Fatal("next start UpdateCheckpoint: %v", err)
					}
					cli2.Close()
				}
				after := readResume(srv, ids)
				tr.Emit(map[string]interface{}{"ev": "Maint", "id": id, "op": sc.op, "k": k, "total": total, "crashed": crashed, "operr": opErr != nil,
					"before": before, "after": after, "state": fmt.Sprint(sc.entries), "datadbs": fmt.Sprint(sc.dataDbs)})
				nRuns++
			}
		}
		if len(samples) < 3 {
			samples = append(samples, map[string]interface{}{"op": sc.op, "checkpoints(db,off,ageMs,runid)": fmt.Sprint(sc.entries), "data_dbs": sc.dataDbs, "requests": total})
		}
	}
	if err := tr.Close(); err != nil {
		hx.Fatal("%v", err)
	}
	hx.WriteJSON(*statsPath, map[string]interface{}{"states": nStates, "runs": nRuns, "samples": samples})
	fmt.Fprintf(os.Stderr, "ckptdrv: %d initial states, %d crash runs\n", nStates, nRuns)
}
