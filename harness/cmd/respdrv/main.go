// respdrv feeds RESP command streams (TLC-enumerated argument-length vectors
// with heartbeats, plus seeded random large ones) through the real Decoder,
// the real replication-stream parser and the real protocol writer, under
// fragmented reads and several buffer sizes, and records what they reported
// for spec/trace/TraceResp.tla.
package main

import (
	"bufio"
	"bytes"
	"context"
	"encoding/json"
	"flag"
	"fmt"
	"io"
	"os"
	"strings"
	"time"

	"github.com/mgtv-tech/redis-GunYu/config"
	"github.com/mgtv-tech/redis-GunYu/pkg/redis/client"
	"github.com/mgtv-tech/redis-GunYu/pkg/redis/client/proto"
	"github.com/mgtv-tech/redis-GunYu/syncer"

	"verifh/fakeredis"
	"verifh/hx"
)

type caseLine struct {
	Cmds [][]int `json:"cmds"`
	Hb   []int   `json:"hb"`
	// Inline[i]: command i travels in the one-line form ("SET k v\r\n") the decoder accepts besides multi-bulk arrays
	Inline []bool `json:"inline,omitempty"`
}

type fragReader struct {
	b    []byte
	frag []int
	i    int
}

func (f *fragReader) Read(p []byte) (int, error) {
	if len(f.b) == 0 {
		return 0, io.EOF
	}
	n := f.frag[f.i%len(f.frag)]
	f.i++
	if n > len(p) {
		n = len(p)
	}
	if n > len(f.b) {
		n = len(f.b)
	}
	copy(p, f.b[:n])
	f.b = f.b[n:]
	return n, nil
}

var pattern = []byte("\r\n$3\r\n*1\r\n\xff\x00ab+OK\r\n:1\r\n")

func content(n int, salt int) []byte {
	o := make([]byte, n)
	for i := range o {
		o[i] = pattern[(i+salt)%len(pattern)]
	}
	return o
}

type obs struct {
	Lens []int `json:"lens"`
	Same bool  `json:"same"`
	Off  int64 `json:"off"`
}

func main() {
	cases := flag.String("cases", "", "case file (lines: CASE json as printed by TLC, or plain json)")
	out := flag.String("out", "observed.ndjson", "")
	statsPath := flag.String("stats", "stats.json", "")
	seed := flag.Uint64("seed", 1, "")
	nrand := flag.Int("nrand", 50, "random streams")
	maxArg := flag.Int("max-arg", 200000, "max random argument length")
	shard := flag.Int("shard", 0, "")
	shards := flag.Int("shards", 1, "")
	flag.Parse()
	hx.QuietLogs()
	tr, err := hx.NewTrace(*out)
	if err != nil {
		hx.Fatal("%v", err)
	}
	r := hx.NewRng(*seed*17 + uint64(*shard))
	id := *shard
	nStreams, nObs := 0, 0
	var samples []interface{}
	ro := syncer.NewRedisOutput(syncer.RedisOutputConfig{InputName: "verif", CheckpointName: "cp", RunId: "r", TargetDb: -1,
		BatchCmdCount: 10, BatchTicker: time.Hour, KeepaliveTicker: time.Hour, UpdateCheckpointTicker: time.Hour,
		Stats: config.OutputStats{DisableLog: true}})
	// a one-node cluster fake behind the real cluster client: the client's own request encoder
	var clusterCli client.Redis
	var clusterNode *fakeredis.Server
	if cs, err := fakeredis.NewCluster(1); err == nil {
		defer cs.Close()
		clusterNode = cs.Nodes[0]
		clusterNode.KeepRaw = true
		cc, err := client.NewRedis(config.RedisConfig{Addresses: cs.Addrs(), Type: config.RedisTypeCluster, Otype: config.RedisTypeCluster, Version: "7.0.0"})
		if err != nil {
			hx.Fatal("cluster client: %v", err)
		}
		clusterCli = cc
		defer cc.Close()
	} else {
		hx.Fatal("cluster fake: %v", err)
	}
	frags := [][]int{{1}, {2, 1}, {3}, {7, 1, 2}, {4096}, {1 << 20}}
	bufs := []int{16, 64, 4096}

	run := func(c caseLine) {
		nStreams++
		start := int64(r.Intn(100000))
		// source commands: name "rpush" + arguments of the given lengths
		var stream []byte
		var src [][][]byte
		lensAll := [][]int{}
		inl := []bool{}
		for i, lens := range c.Cmds {
			for h := 0; h < c.Hb[i]; h++ {
				stream = append(stream, '\n')
			}
			args := [][]byte{[]byte("rpush")}
			ls := []int{5}
			inline := i < len(c.Inline) && c.Inline[i]
			inl = append(inl, inline)
			for j, n := range lens {
				if inline {
					// one-line form: arguments are separated by blanks, so they hold none (and are not empty)
					if n < 1 {
						n = 1
					}
					a := make([]byte, n)
					for q := range a {
						a[q] = byte('a' + (q+j+i)%26)
					}
					args = append(args, a)
				} else {
					args = append(args, content(n, i*7+j))
				}
				ls = append(ls, n)
			}
			if inline {
				stream = append(stream, bytes.Join(args, []byte(" "))...)
				stream = append(stream, '\r', '\n')
			} else {
				stream = append(stream, hx.EncodeCmd(args...)...)
			}
			src = append(src, args)
			lensAll = append(lensAll, ls)
		}
		emit := func(site string, os_ []obs) {
			id += *shards
			tr.Emit(map[string]interface{}{"id": id, "site": site, "start": start, "hb": c.Hb, "cmds": lensAll, "inl": inl, "obs": os_})
			nObs++
		}
		compare := func(i int, argv [][]byte, name string) (o obs) {
			o.Lens = []int{len(name)}
			o.Same = i < len(src) && strings.EqualFold(name, string(src[i][0])) && len(argv) == len(src[i])-1
			for j, a := range argv {
				o.Lens = append(o.Lens, len(a))
				if o.Same && !bytes.Equal(a, src[i][j+1]) {
					o.Same = false
				}
			}
			return o
		}
		// (1) Decoder under fragmentation
		fr := frags[r.Intn(len(frags))]
		bs := bufs[r.Intn(len(bufs))]
		dec := client.NewDecoder(bufio.NewReaderSize(&fragReader{b: append([]byte{}, stream...), frag: fr}, bs))
		var os1 []obs
		type held struct {
			name string
			argv [][]byte
			off  int64
		}
		var helds []held
		for {
			resp, off, err := client.MustDecodeOpt(dec)
			if err != nil {
				break
			}
			name, argv, err := client.ParseArgs(resp)
			if err != nil {
				break
			}
			// keep what the decoder handed out: the tool queues commands, so earlier
			// arguments must stay intact while later ones are decoded
			helds = append(helds, held{name, argv, off})
		}
		for i, h := range helds {
			o := compare(i, h.argv, h.name)
			o.Off = start + h.off
			os1 = append(os1, o)
		}
		if os1 == nil {
			os1 = []obs{}
		}
		emit("Decoder", os1)
		// (2) the replication-stream parser (offsets attached to forwarded commands)
		fr = frags[r.Intn(len(frags))]
		outs, _ := ro.VerifParseAof(context.Background(), bufio.NewReaderSize(&fragReader{b: append([]byte{}, stream...), frag: fr}, bufs[r.Intn(len(bufs))]), start, 0)
		os2 := []obs{}
		for i, o := range outs {
			ob := compare(i, o.Args, o.Cmd)
			ob.Off = o.Offset
			os2 = append(os2, ob)
		}
		emit("Parser", os2)
		// (3) writer -> decoder round trip (and writer output == independent encoding)
		var wb bytes.Buffer
		w := proto.NewWriter(&wb, 64)
		wsrc := src
		if len(helds) == len(src) {
			// what the decoder handed out (and the harness has held since) is what gets encoded for the target
			wsrc = nil
			for _, h := range helds {
				wsrc = append(wsrc, append([][]byte{[]byte(h.name)}, h.argv...))
			}
		}
		for _, args := range wsrc {
			ia := make([]interface{}, len(args))
			for k := range args {
				ia[k] = args[k]
			}
			if err := w.WriteArgs(ia); err != nil {
				hx.Fatal("WriteArgs: %v", err)
			}
		}
		w.Flush()
		var plain []byte
		for _, args := range src {
			plain = append(plain, hx.EncodeCmd(args...)...)
		}
		identical := bytes.Equal(wb.Bytes(), plain)
		dec = client.NewDecoder(bufio.NewReaderSize(bytes.NewReader(wb.Bytes()), 32))
		os3 := []obs{}
		zero := make([]int, len(c.Hb))
		var acc int64
		for i := 0; ; i++ {
			resp, off, err := client.MustDecodeOpt(dec)
			if err != nil {
				break
			}
			name, argv, err := client.ParseArgs(resp)
			if err != nil {
				break
			}
			o := compare(i, argv, name)
			o.Same = o.Same && identical
			o.Off = start + off
			acc = off
			os3 = append(os3, o)
		}
		_ = acc
		// (4) the encoder of the cluster client (its own, not proto.Writer): what a cluster node receives, request by request
		if clusterCli != nil {
			base := len(clusterNode.RawCopy())
			var sent [][][]byte
			for _, args := range src {
				size := 0
				for _, a := range args {
					size += len(a)
				}
				if len(args) < 2 || size > 1<<16 {
					continue
				}
				ia := make([]interface{}, len(args)-1)
				for k := range ia {
					ia[k] = args[k+1]
				}
				clusterCli.Do(string(args[0]), ia...) // the node's answer does not matter here
				sent = append(sent, args)
			}
			var got [][][]byte
			for _, e := range clusterNode.RawCopy()[base:] {
				if e.Name == "rpush" {
					got = append(got, append([][]byte{[]byte(e.Name)}, e.Args...))
				}
			}
			lens := func(cs [][][]byte) [][]int {
				out := [][]int{}
				for _, c := range cs {
					l := []int{}
					for _, a := range c {
						l = append(l, len(a))
					}
					out = append(out, l)
				}
				return out
			}
			same := len(sent) == len(got)
			for i := 0; same && i < len(sent); i++ {
				same = len(sent[i]) == len(got[i])
				for j := 0; same && j < len(sent[i]); j++ {
					same = bytes.Equal(sent[i][j], got[i][j])
				}
			}
			if len(sent) > 0 {
				id += *shards
				tr.Emit(map[string]interface{}{"id": id, "site": "ClusterEncoder", "sent": lens(sent), "got": lens(got), "same": same})
				nObs++
			}
		}
		id += *shards
		noInl := make([]bool, len(lensAll))
		tr.Emit(map[string]interface{}{"id": id, "site": "RoundTrip", "start": start, "hb": zero, "cmds": lensAll, "inl": noInl, "obs": os3})
		nObs++
		if len(samples) < 3 {
			samples = append(samples, map[string]interface{}{"arg_lengths": lensAll, "heartbeats": c.Hb, "fragments": fr, "bufio": bs, "decoder": os1})
		}
	}

	if *cases != "" {
		f, err := os.Open(*cases)
		if err != nil {
			hx.Fatal("%v", err)
		}
		sc := bufio.NewScanner(f)
		sc.Buffer(make([]byte, 1<<20), 1<<24)
		ln := 0
		for sc.Scan() {
			line := sc.Text()
			if strings.HasPrefix(line, "\"CASE ") {
				line = strings.ReplaceAll(strings.TrimSuffix(strings.TrimPrefix(line, "\"CASE "), "\""), "\\\"", "\"")
			} else if !strings.HasPrefix(line, "{") {
				continue
			}
			ln++
			if ln%*shards != *shard {
				continue
			}
			var c caseLine
			if err := json.Unmarshal([]byte(line), &c); err != nil {
				hx.Fatal("case: %v (%s)", err, line)
			}
			run(c)
		}
		f.Close()
	}
	if *shard == 0 {
		// directed: several arguments above 1 MiB in one command and in consecutive commands
		run(caseLine{Cmds: [][]int{{3, 2 << 20, 2, 1 << 20}, {1, (1 << 20) + 7}, {0}}, Hb: []int{0, 1, 0}})
		run(caseLine{Cmds: [][]int{{1, 3 << 20}, {1, 1 << 20}, {1, 2 << 20}}, Hb: []int{0, 0, 2}})
	}
	// directed: commands in the one-line form between multi-bulk ones
	if *shard == 0 {
		run(caseLine{Cmds: [][]int{{3, 5}, {2, 2, 7}, {4}, {1, 1}}, Hb: []int{0, 0, 1, 0}, Inline: []bool{true, false, true, true}})
		run(caseLine{Cmds: [][]int{{8, 5, 3}, {6, 6}}, Hb: []int{0, 2}, Inline: []bool{true, true}})
		run(caseLine{Cmds: [][]int{{300, 1}, {1}}, Hb: []int{1, 0}, Inline: []bool{true, false}})
	}
	// directed: commands of many arguments (what a bulk loader's RPUSH / SADD / MSET / DEL looks like) - element counts on both
	// sides of every digit boundary of the array header and of the powers of two an implementation may size buffers by
	many := []int{9, 10, 99, 100, 255, 256, 999, 1000, 1023, 1024, 1025, 2048}
	for i, n := range many {
		if i%*shards != *shard {
			continue
		}
		lens := make([]int, n) // n arguments + the name = n + 1 elements
		for j := range lens {
			lens[j] = (j * 7) % 4
		}
		lens1 := make([]int, n-1) // n elements in all
		for j := range lens1 {
			lens1[j] = 1 + j%2
		}
		run(caseLine{Cmds: [][]int{lens, {2, 3}, lens1}, Hb: []int{0, 1, 0}})
	}
	for i := 0; i < *nrand; i++ {
		var c caseLine
		for k := 1 + r.Intn(4); k > 0; k-- {
			var lens []int
			for a := 1 + r.Intn(5); a > 0; a-- {
				switch r.Intn(4) {
				case 0:
					lens = append(lens, r.Intn(*maxArg))
				case 1:
					lens = append(lens, []int{9, 10, 99, 100, 999, 1000, 9999, 10000, 99999, 100000}[r.Intn(10)])
				default:
					lens = append(lens, r.Intn(40))
				}
			}
			c.Cmds = append(c.Cmds, lens)
			c.Hb = append(c.Hb, r.Intn(3))
		}
		run(c)
	}
	if err := tr.Close(); err != nil {
		hx.Fatal("%v", err)
	}
	hx.WriteJSON(*statsPath, map[string]interface{}{"streams": nStreams, "observations": nObs, "samples": samples})
	fmt.Fprintf(os.Stderr, "respdrv: %d streams, %d observations\n", nStreams, nObs)
}
