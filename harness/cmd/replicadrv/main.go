// replicadrv runs the real leader/follower cache replication (ReplicaLeader.Handle
// behind a loopback gRPC server, ReplicaFollower.Run as the client) between two
// real caches (disk or memory) pre-populated by real writers with bytes that are
// a function of (history, offset).  Leader and follower states, chunk-level
// interruption of the transfer and live appends at the leader are generated; the
// follower's cache is read back afterwards and described for
// spec/trace/TraceReplica.tla (C16).
package main

import (
	"context"
	"errors"
	"flag"
	"fmt"
	"io"
	"os"
	"path/filepath"
	"sync"
	"sync/atomic"
	"time"

	"google.golang.org/grpc"
	"google.golang.org/grpc/credentials/insecure"

	"github.com/mgtv-tech/redis-GunYu/config"
	pb "github.com/mgtv-tech/redis-GunYu/pkg/api/golang"
	"github.com/mgtv-tech/redis-GunYu/pkg/cluster"
	usync "github.com/mgtv-tech/redis-GunYu/pkg/sync"
	"github.com/mgtv-tech/redis-GunYu/syncer"

	"verifh/hx"
)

// Byte is the source byte of history h at replication offset o.
func Byte(h int, o int64) byte {
	x := uint64(o)*0x9E3779B97F4A7C15 ^ uint64(h+1)*0xC2B2AE3D27D4EB4F
	x ^= x >> 29
	return byte(x >> 17)
}

func SnapByte(h int, l int64, i int64) byte { return Byte(h+100, l*1000003+i) ^ 0x5a }

func snapData(h int, l, s int64) []byte {
	b := make([]byte, s)
	for i := range b {
		b[i] = SnapByte(h, l, int64(i))
	}
	if s > 8 {
		c := hx.Crc64(0, b[:s-8])
		for i := 0; i < 8; i++ {
			b[int(s)-8+i] = byte(c >> (8 * uint(i)))
		}
	}
	return b
}

func aofData(h int, l, r int64) []byte {
	b := make([]byte, r-l)
	for i := range b {
		b[i] = Byte(h, l+int64(i))
	}
	return b
}

var ids = map[int]string{1: "1111111111111111111111111111111111111111", 2: "2222222222222222222222222222222222222222"}

type cacheSpec struct {
	Hist    int   `json:"hist"` // 0 = empty cache
	Left    int64 `json:"left"` // log range [Left, Right); Left = Right: no log
	Right   int64 `json:"right"`
	RdbLeft int64 `json:"rdbLeft"` // snapshot at RdbLeft of RdbSize bytes (RdbSize = 0: none); the log then starts at RdbLeft
	RdbSize int64 `json:"rdbSize"`
}

type scenario struct {
	id        int
	disk      bool
	leader    cacheSpec
	follower  cacheSpec
	fkind     string
	memoryId  int   // history whose id the follower's channel object carries from an earlier role (0 = none)
	interrupt int   // the leader's stream fails at its k-th Send (0 = never)
	appendN   int64 // bytes appended at the leader while the follower is connected
	retry     bool  // the transport failure happens once; the scenario goes on until the follower's next round is over
	leader2   cacheSpec // "switch": what the leader caches after its full resynchronisation (history 2)
	stallAt   int64     // "switch": the follower's link stalls once it holds this many bytes
	append2   int64     // "switch": bytes of history 2 appended after the follower's link is back
}

type fakeInput struct {
	mu     sync.Mutex
	runIds []string
}

func (f *fakeInput) set(ids ...string) {
	f.mu.Lock()
	f.runIds = ids
	f.mu.Unlock()
}

func (f *fakeInput) Id() string                                        { return "verif" }
func (f *fakeInput) Run() error                                        { return nil }
func (f *fakeInput) Stop() error                                       { return nil }
func (f *fakeInput) SetOutput(syncer.Output)                           {}
func (f *fakeInput) SetChannel(syncer.Channel)                         {}
func (f *fakeInput) StateNotify(syncer.SyncState) usync.WaitChannel    { return nil }
func (f *fakeInput) RunIds() []string {
	f.mu.Lock()
	defer f.mu.Unlock()
	return append([]string{}, f.runIds...)
}

// gate is the follower's link: while it is shut the leader's data frames do not get through
type gate struct {
	mu sync.Mutex
	ch chan struct{}
}

func (g *gate) shut() {
	g.mu.Lock()
	g.ch = make(chan struct{})
	g.mu.Unlock()
}
func (g *gate) open() {
	g.mu.Lock()
	if g.ch != nil {
		close(g.ch)
		g.ch = nil
	}
	g.mu.Unlock()
}
func (g *gate) pass(ctx context.Context) {
	g.mu.Lock()
	ch := g.ch
	g.mu.Unlock()
	if ch != nil {
		select {
		case <-ch:
		case <-ctx.Done():
		}
	}
}

// failing stream: Send fails from the k-th message on
type cutStream struct {
	pb.ApiService_SyncServer
	n    *atomic.Int32
	cut  int
	once *atomic.Bool // non-nil: the failure happens one time only
	gate *gate
}

func (c *cutStream) Send(m *pb.SyncResponse) error {
	k := int(c.n.Add(1))
	if c.cut > 0 && k >= c.cut && (c.once == nil || c.once.CompareAndSwap(false, true)) {
		return errors.New("injected transport failure")
	}
	if c.gate != nil && m.GetCode() == pb.SyncResponse_CONTINUE {
		c.gate.pass(c.Context())
	}
	return c.ApiService_SyncServer.Send(m)
}

type apiServer struct {
	pb.UnimplementedApiServiceServer
	leader  *syncer.ReplicaLeader
	wait    usync.WaitCloser
	sent    atomic.Int32
	cut     int
	once    *atomic.Bool
	gate    *gate
	mu      sync.Mutex
	results []string
}

func (a *apiServer) Sync(req *pb.SyncRequest, stream pb.ApiService_SyncServer) error {
	err := a.leader.Handle(a.wait, req, &cutStream{ApiService_SyncServer: stream, n: &a.sent, cut: a.cut, once: a.once, gate: a.gate})
	a.mu.Lock()
	switch {
	case err == nil:
		a.results = append(a.results, "ok")
	case errors.Is(err, syncer.ErrLeaderHandover):
		a.results = append(a.results, "handover")
	default:
		a.results = append(a.results, "error")
	}
	a.mu.Unlock()
	return err
}

// segment size of the caches of the scenario being run (small, so that transfers cross many segments; large for the
// scenarios that need more than 10 MiB of log)
var logSize int64 = 3000

func newChannel(disk bool, dir string) syncer.Channel {
	if disk {
		return syncer.NewStoreChannel(syncer.StorerConf{InputId: "verif", Dir: dir, MaxSize: 1 << 30, LogSize: 16 + logSize})
	}
	return syncer.NewMemoryChannel(syncer.MemoryConf{InputId: "verif", MaxSize: 1 << 30, LogSize: logSize})
}

type writerH struct {
	feed *hx.FeedReader
	w    syncer.AofChannelWriter
}

// populate writes the described content through the real writers; returns the open log writer (if any)
func populate(ch syncer.Channel, cs cacheSpec) *writerH {
	if cs.Hist == 0 {
		return nil
	}
	if err := ch.SetRunId(ids[cs.Hist]); err != nil {
		hx.Fatal("SetRunId: %v", err)
	}
	if cs.RdbSize > 0 {
		f := hx.NewFeedReader()
		w, err := ch.NewRdbWriter(f, cs.RdbLeft, cs.RdbSize)
		if err != nil {
			hx.Fatal("NewRdbWriter: %v", err)
		}
		w.Start()
		f.Feed(snapData(cs.Hist, cs.RdbLeft, cs.RdbSize))
		if err := w.Wait(nilCtx()); err != nil {
			hx.Fatal("rdb writer: %v", err)
		}
		w.Close()
	}
	if cs.Right <= cs.Left && cs.RdbSize > 0 {
		return nil
	}
	f := hx.NewFeedReader()
	w, err := ch.NewAofWritter(f, cs.Left)
	if err != nil {
		hx.Fatal("NewAofWritter(%d): %v", cs.Left, err)
	}
	w.Start()
	f.Feed(aofData(cs.Hist, cs.Left, cs.Right))
	if !f.WaitDrained(func() bool { return false }, 90*time.Second) {
		hx.Fatal("log writer did not take the data")
	}
	waitRange(ch, ids[cs.Hist], cs.Right)
	return &writerH{feed: f, w: w}
}

func waitRange(ch syncer.Channel, id string, right int64) {
	dl := time.Now().Add(90 * time.Second)
	for time.Now().Before(dl) {
		if _, r := ch.GetOffsetRange(id); r >= right {
			return
		}
		time.Sleep(200 * time.Microsecond)
	}
	hx.Fatal("cache did not reach offset %d", right)
}

type held struct {
	Id        string `json:"id"`
	Hist      int    `json:"hist"`
	Left      int64  `json:"left"`
	Right     int64  `json:"right"`
	Readable  int64  `json:"readable"`
	Match     bool   `json:"match"`
	FirstBad  int64  `json:"firstBad"`
	RdbLeft   int64  `json:"rdbLeft"`
	RdbSize   int64  `json:"rdbSize"`
	RdbRead   int64  `json:"rdbRead"`
	RdbMatch  bool   `json:"rdbMatch"`
	ReaderErr string `json:"readerErr"`
}

// readBack describes what the channel serves for the id of history h; the content is compared with history `as`
func readBack(ch syncer.Channel, h int, as int) held {
	id := ids[h]
	out := held{Id: id, Hist: h, Match: true, RdbMatch: true, FirstBad: -1}
	out.Left, out.Right = ch.GetOffsetRange(id)
	out.RdbLeft, out.RdbSize = ch.GetRdb(id)
	read := func(off int64, n int64, aof bool) ([]byte, string) {
		rd, err := ch.NewReader(syncer.Offset{RunId: id, Offset: off})
		if err != nil {
			return nil, err.Error()
		}
		if rd.IsAof() != aof {
			rd.Close()
			return nil, fmt.Sprintf("reader kind: aof=%v", rd.IsAof())
		}
		w := usync.NewWaitCloser(nil)
		rd.Start(w)
		defer func() { rd.Close(); w.Close(nil) }()
		buf := make([]byte, 0, n)
		got := make(chan struct{})
		var mu sync.Mutex
		endedEarly := ""
		go func() {
			defer close(got)
			b := make([]byte, 4096)
			for int64(len(buf)) < n {
				k, err := rd.IoReader().Read(b)
				mu.Lock()
				buf = append(buf, b[:k]...)
				mu.Unlock()
				if err != nil {
					if int64(len(buf)) < n {
						mu.Lock()
						endedEarly = fmt.Sprintf("reader ended after %d of %d bytes: %v", len(buf), n, err)
						mu.Unlock()
					}
					return
				}
			}
		}()
		// as long as bytes keep coming the read goes on; it is given up after 1.5 s without a byte
		last, lastAt := -1, time.Now()
	wait:
		for {
			select {
			case <-got:
				break wait
			case <-time.After(2 * time.Millisecond):
			}
			mu.Lock()
			k := len(buf)
			mu.Unlock()
			if k != last {
				last, lastAt = k, time.Now()
			} else if time.Since(lastAt) > 1500*time.Millisecond {
				break
			}
		}
		mu.Lock()
		defer mu.Unlock()
		if int64(len(buf)) > n {
			buf = buf[:n]
		}
		if endedEarly == "" && int64(len(buf)) < n {
			endedEarly = fmt.Sprintf("reader still open, nothing for 1.5 s after %d of %d bytes", len(buf), n)
		}
		return append([]byte{}, buf...), endedEarly
	}
	if out.RdbSize > 0 && out.RdbLeft >= 0 {
		// the reader at the snapshot's own offset is the log that follows it; any offset before it yields the snapshot
		ro := out.RdbLeft - 1
		if ro < 0 {
			ro = 0
		}
		b, e := read(ro, out.RdbSize, false)
		out.ReaderErr = e
		out.RdbRead = int64(len(b))
		want := snapData(as, out.RdbLeft, out.RdbSize)
		for i := range b {
			if b[i] != want[i] {
				out.RdbMatch = false
			}
		}
	}
	if out.Right > out.Left && out.Left >= 0 {
		start := out.Left
		b, e := read(start, out.Right-start, true)
		if e != "" {
			out.ReaderErr = e
		}
		out.Readable = int64(len(b)) + (start - out.Left)
		if os.Getenv("VERIF_DEBUG") != "" && out.Readable < out.Right-out.Left {
			b2, e2 := read(start+int64(len(b)), out.Right-start-int64(len(b)), true)
			b3, e3 := read(start, out.Right-start, true)
			fmt.Fprintf(os.Stderr, "DEBUG short read: first %d of %d; second reader at %d gave %d (%q); third from start gave %d (%q)\n", len(b), out.Right-start, start+int64(len(b)), len(b2), e2, len(b3), e3)
		}
		for i := range b {
			if b[i] != Byte(as, start+int64(i)) {
				out.Match = false
				if out.FirstBad < 0 {
					out.FirstBad = start + int64(i)
				}
			}
		}
	}
	return out
}

func nilCtx() interface {
	Deadline() (time.Time, bool)
	Done() <-chan struct{}
	Err() error
	Value(interface{}) interface{}
} {
	return bg{}
}

type bg struct{}

func (bg) Deadline() (time.Time, bool)        { return time.Time{}, false }
func (bg) Done() <-chan struct{}               { return nil }
func (bg) Err() error                          { return nil }
func (bg) Value(interface{}) interface{}       { return nil }

func genScenario(r *hx.Rng, id int) *scenario {
	sc := &scenario{id: id, disk: r.Chance(50)}
	a := int64(1000 + r.Intn(5000))
	n := int64(1 + r.Intn(12000))
	sc.leader = cacheSpec{Hist: 1, Left: a, Right: a + n}
	switch r.Intn(4) {
	case 0: // snapshot only
		sc.leader.RdbLeft, sc.leader.RdbSize, sc.leader.Right = a, int64(20+r.Intn(9000)), a
	case 1: // snapshot and log
		sc.leader.RdbLeft, sc.leader.RdbSize = a, int64(20+r.Intn(9000))
	}
	b := sc.leader.Right
	n = b - a
	inLeader := func() int64 { // a start offset inside (or, for a snapshot-only leader, just below) the leader's log
		if n == 0 {
			return a - int64(1+r.Intn(100))
		}
		return a + int64(r.Intn(int(n)))
	}
	kinds := []string{"empty", "prefix", "equal", "ahead", "collected", "otherid", "otherid-ahead", "otherid-memory"}
	sc.fkind = kinds[r.Intn(len(kinds))]
	if r.Chance(6) && sc.leader.RdbSize == 0 {
		// the follower holds the beginning of the leader's history and is more than 10 MiB behind: it gives its copy up
		// and continues at the leader's newest offset
		sc.fkind = "farbehind"
		sc.leader.Right = a + 10*1024*1024 + int64(1+r.Intn(300000))
		b = sc.leader.Right
	}
	switch sc.fkind {
	case "farbehind":
		sc.follower = cacheSpec{Hist: 1, Left: a, Right: a + int64(1+r.Intn(4000))}
	case "prefix":
		l := inLeader()
		sc.follower = cacheSpec{Hist: 1, Left: l, Right: l + int64(r.Intn(int(b-l)+1))}
	case "equal":
		l := inLeader()
		sc.follower = cacheSpec{Hist: 1, Left: l, Right: b}
	case "ahead":
		l := inLeader()
		sc.follower = cacheSpec{Hist: 1, Left: l, Right: b + int64(1+r.Intn(5000))}
	case "collected": // the follower ends before the leader's cache begins
		l := a - int64(200+r.Intn(700))
		sc.follower = cacheSpec{Hist: 1, Left: l, Right: l + int64(1+r.Intn(150))}
	case "otherid", "otherid-memory":
		l := int64(500 + r.Intn(9000))
		sc.follower = cacheSpec{Hist: 2, Left: l, Right: l + int64(1+r.Intn(6000))}
		if sc.fkind == "otherid-memory" {
			sc.memoryId = 2
		}
	case "otherid-ahead":
		l := b + int64(r.Intn(3000))
		sc.follower = cacheSpec{Hist: 2, Left: l, Right: l + int64(1+r.Intn(6000))}
	}
	if sc.follower.Hist != 0 && sc.follower.Right == sc.follower.Left {
		sc.follower.Right++
	}
	if r.Chance(35) {
		sc.interrupt = 2 + r.Intn(6)
		sc.retry = r.Chance(25)
	}
	if r.Chance(7) {
		// the leader goes through a full resynchronisation while this follower lags some MB behind: history 1 of about
		// 3 MB, the follower's link stalls early, the leader's cache is reset and refilled under history 2 over a range
		// that covers offsets the stalled transfer has still to send
		sc.fkind = "switch"
		sc.interrupt, sc.retry, sc.memoryId = 0, false, 0
		ln := int64(2500000 + r.Intn(1200000))
		sc.leader = cacheSpec{Hist: 1, Left: a, Right: a + ln}
		sc.follower = cacheSpec{}
		if r.Chance(50) {
			sc.follower = cacheSpec{Hist: 1, Left: a, Right: a + int64(1+r.Intn(5000))}
		}
		sc.stallAt = sc.follower.Right - sc.follower.Left + int64(1+r.Intn(100000))
		sc.appendN = 0
		if r.Chance(50) {
			sc.appendN = int64(1 + r.Intn(200000))
		}
		end := sc.leader.Right + sc.appendN
		// the new history's snapshot offset: at, a little below, or well below the end of the old one
		var l2 int64
		switch r.Intn(3) {
		case 0:
			l2 = end
		case 1:
			l2 = end - int64(r.Intn(3000))
		default:
			l2 = a + 1000000 + int64(r.Intn(int(end-a-1000000)))
		}
		sc.leader2 = cacheSpec{Hist: 2, Left: l2, RdbLeft: l2, RdbSize: int64(20 + r.Intn(9000)), Right: l2 + int64(1+r.Intn(2600000))}
		sc.append2 = int64(1 + r.Intn(9000))
	}
	if r.Chance(50) && sc.leader.Right > sc.leader.Left {
		sc.appendN = int64(1 + r.Intn(9000))
	}
	return sc
}

// runDirect sends one raw sync request (as a follower whose view of the leader is stale would) and records the
// leader's first answers
func runDirect(sc *scenario, tr *hx.Trace, base string, r *hx.Rng) {
	ldir := filepath.Join(base, fmt.Sprintf("l%d", sc.id))
	defer os.RemoveAll(ldir)
	lch := newChannel(sc.disk, ldir)
	lw := populate(lch, sc.leader)
	leader := syncer.NewReplicaLeader(&fakeInput{runIds: []string{ids[1]}}, lch)
	leader.Start()
	srvWait := usync.NewWaitCloser(nil)
	api := &apiServer{leader: leader, wait: srvWait}
	ln, err := hx.Listen()
	if err != nil {
		hx.Fatal("%v", err)
	}
	gs := grpc.NewServer()
	pb.RegisterApiServiceServer(gs, api)
	go gs.Serve(ln)
	conn, err := grpc.Dial(ln.Addr().String(), grpc.WithTransportCredentials(insecure.NewCredentials()), grpc.WithBlock())
	if err != nil {
		hx.Fatal("dial: %v", err)
	}
	reqHist := 1 + r.Intn(2)
	var off int64
	switch r.Intn(4) {
	case 0:
		off = sc.leader.Right + int64(1+r.Intn(5000)) // beyond the leader's newest offset
	case 1:
		off = sc.leader.Right
	case 2:
		off = sc.leader.Left + int64(r.Intn(int(sc.leader.Right-sc.leader.Left)+1))
	default:
		off = sc.leader.Left - int64(1+r.Intn(500)) // already collected at the leader
	}
	ctx, cancel := context.WithTimeout(context.Background(), 2*time.Second)
	stream, err := pb.NewApiServiceClient(conn).Sync(ctx, &pb.SyncRequest{Node: &pb.Node{RunId: ids[reqHist], Address: "verif"}, Offset: off})
	codes := []string{}
	var metaOff, dataFrom int64 = -1, -1
	dataOk := true
	var got int64
	if err == nil {
		for i := 0; i < 4; i++ {
			resp, e := stream.Recv()
			if e != nil {
				break
			}
			codes = append(codes, resp.GetCode().String())
			if resp.GetCode() == pb.SyncResponse_META {
				metaOff = resp.GetOffset()
			}
			if resp.GetCode() == pb.SyncResponse_CONTINUE && resp.GetSize() > 0 && resp.GetMeta() == nil {
				// log bytes: compare with the leader's history at the announced position
				start := metaOff + got
				if dataFrom < 0 {
					dataFrom = start
				}
				for j, x := range resp.GetData()[:resp.GetSize()] {
					if x != Byte(1, start+int64(j)) {
						dataOk = false
					}
				}
				got += resp.GetSize()
			}
		}
	}
	cancel()
	conn.Close()
	srvWait.Close(nil)
	gs.Stop()
	if lw != nil {
		lw.feed.CloseWith(io.EOF)
		lw.w.Close()
	}
	lch.Close()
	tr.Emit(map[string]interface{}{"ev": "Direct", "id": sc.id, "disk": sc.disk, "leader": sc.leader, "reqHist": reqHist, "reqOff": off, "codes": codes,
		"metaOff": metaOff, "snapshotAnswer": sc.leader.RdbSize > 0 && metaOff == sc.leader.RdbLeft && off <= sc.leader.RdbLeft, "dataOk": dataOk, "got": got})
}

func runScenario(sc *scenario, tr *hx.Trace, base string) {
	logSize = 3000
	if sc.fkind == "farbehind" || sc.fkind == "switch" {
		logSize = 1 << 20
	}
	ldir := filepath.Join(base, fmt.Sprintf("l%d", sc.id))
	fdir := filepath.Join(base, fmt.Sprintf("f%d", sc.id))
	defer os.RemoveAll(ldir)
	defer os.RemoveAll(fdir)
	lch := newChannel(sc.disk, ldir)
	fch := newChannel(sc.disk, fdir)
	lw := populate(lch, sc.leader)
	fw := populate(fch, sc.follower)
	if fw != nil {
		// the follower's earlier role (leader or follower) has ended: its writer is closed
		fw.feed.CloseWith(io.EOF)
		fw.w.Close()
	}
	if sc.disk && sc.memoryId == 0 && sc.follower.Hist != 0 {
		// a fresh process: the channel object carries nothing over from an earlier role
		fch.Close()
		fch = newChannel(true, fdir)
	}
	input := &fakeInput{runIds: []string{ids[1]}}
	leader := syncer.NewReplicaLeader(input, lch)
	leader.Start()
	srvWait := usync.NewWaitCloser(nil)
	api := &apiServer{leader: leader, wait: srvWait, cut: sc.interrupt, gate: &gate{}}
	if sc.retry {
		api.once = &atomic.Bool{}
	}
	ln, err := hx.Listen()
	if err != nil {
		hx.Fatal("%v", err)
	}
	gs := grpc.NewServer()
	pb.RegisterApiServiceServer(gs, api)
	go gs.Serve(ln)
	fol := syncer.NewReplicaFollower(1, "verif", fch, &cluster.RoleInfo{Address: ln.Addr().String()})
	done := make(chan error, 1)
	go func() { done <- fol.Run() }()

	leaderRight := sc.leader.Right
	appended := false
	deadline := time.Now().Add(1500 * time.Millisecond)
	var runErr error
	ended := false
	caughtUp2 := false
	retried := false
	if sc.fkind == "switch" {
		deadline = time.Now() // the loop below is not for this kind
		// 1. the follower's link stalls once it holds stallAt bytes
		waitFollower := func(id string, right int64, quiet time.Duration) bool {
			last, lastAt := int64(-1), time.Now()
			for {
				_, fr := fch.GetOffsetRange(id)
				if fr >= right {
					return true
				}
				if fr != last {
					last, lastAt = fr, time.Now()
				}
				if time.Since(lastAt) > quiet {
					return false
				}
				select {
				case runErr = <-done:
					ended = true
					return false
				default:
				}
				time.Sleep(500 * time.Microsecond)
			}
		}
		if !waitFollower(ids[1], sc.leader.Left+sc.stallAt, 20*time.Second) && !ended {
			hx.Fatal("scenario %d: the follower did not reach offset %d of history 1", sc.id, sc.leader.Left+sc.stallAt)
		}
		api.gate.shut()
		time.Sleep(30 * time.Millisecond) // the leader's reader runs ahead until its pipe is full
		// 2. the source goes on writing, then the leader resynchronises in full under a new id
		if sc.appendN > 0 {
			lw.feed.Feed(aofData(1, leaderRight, leaderRight+sc.appendN))
			leaderRight += sc.appendN
			waitRange(lch, ids[1], leaderRight)
		}
		lw.feed.CloseWith(io.EOF)
		lw.w.Close()
		input.set(ids[2])
		if err := lch.DelRunId(lch.RunId()); err != nil {
			hx.Fatal("scenario %d: leader DelRunId: %v", sc.id, err)
		}
		lw = populate(lch, sc.leader2)
		// 3. the link is back; the source writes a little more
		api.gate.open()
		right2 := sc.leader2.Right
		if !ended {
			// the follower retries 3 s after a failed round
			caughtUp2 = waitFollower(ids[2], right2, 20*time.Second)
		}
		if lw != nil && caughtUp2 {
			lw.feed.Feed(aofData(2, right2, right2+sc.append2))
			right2 += sc.append2
			waitRange(lch, ids[2], right2)
			caughtUp2 = waitFollower(ids[2], right2, 20*time.Second)
		}
		sc.leader2.Right = right2
	}
	for time.Now().Before(deadline) && !ended {
		select {
		case runErr = <-done:
			ended = true
		default:
		}
		_, fr := fch.GetOffsetRange(ids[1])
		if !appended && sc.appendN > 0 && lw != nil && (fr >= sc.leader.Right || time.Until(deadline) < time.Second) {
			lw.feed.Feed(aofData(1, leaderRight, leaderRight+sc.appendN))
			leaderRight += sc.appendN
			waitRange(lch, ids[1], leaderRight)
			appended = true
		}
		api.mu.Lock()
		calls := len(api.results)
		handover := false
		for _, x := range api.results {
			handover = handover || x == "handover"
		}
		api.mu.Unlock()
		if handover {
			// the follower sleeps 2 s before it reports the take-over
			deadline = time.Now().Add(3 * time.Second)
			select {
			case runErr = <-done:
				ended = true
			case <-time.After(3 * time.Second):
			}
			break
		}
		needCalls := 1
		if sc.fkind == "ahead" || sc.fkind == "otherid-ahead" {
			needCalls = 2 // the answer to the sync request itself has to be seen
		}
		if fr >= leaderRight && (appended || sc.appendN == 0 || lw == nil) && sc.leader.Right > sc.leader.Left && calls >= needCalls && int(api.sent.Load()) >= 2 {
			break
		}
		if sc.retry && api.once.Load() && !retried {
			// the one transport failure has happened: the follower starts its next round 3 s later
			retried = true
			deadline = time.Now().Add(8 * time.Second)
		}
		time.Sleep(300 * time.Microsecond)
	}
	caughtUp := false
	if _, fr := fch.GetOffsetRange(ids[1]); fr >= leaderRight {
		caughtUp = true
	}
	if !ended {
		stopped := make(chan struct{})
		go func() { fol.Stop(); close(stopped) }()
		select {
		case <-stopped:
		case <-time.After(15 * time.Second):
			hx.Fatal("scenario %d: follower did not stop", sc.id)
		}
		select {
		case runErr = <-done:
		case <-time.After(15 * time.Second):
			hx.Fatal("scenario %d: follower Run did not return", sc.id)
		}
	}
	srvWait.Close(nil)
	gs.Stop()
	if lw != nil {
		lw.feed.CloseWith(io.EOF)
		lw.w.Close()
	}
	res := "stopped"
	switch {
	case runErr != nil && errors.Is(runErr, syncer.ErrLeaderTakeover):
		res = "takeover"
	case runErr != nil:
		res = "error"
	}
	var heldNow []held
	for h := 1; h <= 2; h++ {
		hd := readBack(fch, h, h)
		if hd.Right > hd.Left || hd.RdbSize > 0 {
			heldNow = append(heldNow, hd)
		}
	}
	var reopened []held
	if sc.disk {
		fch.Close()
		f2 := newChannel(true, fdir)
		for h := 1; h <= 2; h++ {
			hd := readBack(f2, h, h)
			if hd.Right > hd.Left || hd.RdbSize > 0 {
				reopened = append(reopened, hd)
			}
		}
		f2.Close()
	} else {
		fch.Close()
	}
	lch.Close()
	api.mu.Lock()
	results := append([]string{}, api.results...)
	api.mu.Unlock()
	nCalls := len(results)
	if len(results) > 12 {
		results = results[:12]
	}
	if heldNow == nil {
		heldNow = []held{}
	}
	if reopened == nil {
		reopened = []held{}
	}
	tr.Emit(map[string]interface{}{"ev": "Replica", "id": sc.id, "disk": sc.disk, "leader": sc.leader, "follower": sc.follower, "fkind": sc.fkind,
		"memoryId": sc.memoryId, "interrupt": sc.interrupt, "retry": sc.retry, "retried": retried, "leader2": sc.leader2, "caughtUp2": caughtUp2, "appended": leaderRight - sc.leader.Right, "leaderRight": leaderRight,
		"result": res, "runErr": fmt.Sprint(runErr), "leaderCalls": results, "calls": nCalls, "messages": int(api.sent.Load()), "caughtUp": caughtUp,
		"held": heldNow, "reopened": reopened})
}

func main() {
	out := flag.String("out", "trace.ndjson", "")
	statsPath := flag.String("stats", "stats.json", "")
	seed := flag.Uint64("seed", 1, "")
	n := flag.Int("n", 20, "scenarios")
	shard := flag.Int("shard", 0, "")
	shards := flag.Int("shards", 1, "")
	work := flag.String("work", os.TempDir(), "scratch directory for the disk caches")
	only := flag.Int("only", 0, "run this scenario id only (0 = all)")
	flag.Parse()
	hx.QuietLogs()
	config.GetSyncerConfig().Channel = &config.ChannelConfig{VerifyCrc: true}
	tr, err := hx.NewTrace(*out)
	if err != nil {
		hx.Fatal("%v", err)
	}
	base, err := os.MkdirTemp(*work, "replica")
	if err != nil {
		hx.Fatal("%v", err)
	}
	defer os.RemoveAll(base)
	wd := hx.NewWatchdog(120 * time.Second)
	nScen := 0
	kinds := map[string]int{}
	for s := 0; s < *n; s++ {
		if s%*shards != *shard {
			continue
		}
		// (scenario streams far apart in the generator's sequence: consecutive seeds would give streams shifted by one draw)
		r := hx.NewRng(*seed*15485863 + uint64(s)*0x632BE59BD9B4E019)
		sc := genScenario(r, s+1)
		if *only > 0 && sc.id != *only {
			continue
		}
		wd.Kick(fmt.Sprintf("scenario %d %s disk=%v", sc.id, sc.fkind, sc.disk))
		if r.Chance(20) {
			sc.fkind = "direct"
			runDirect(sc, tr, base, r)
		} else {
			runScenario(sc, tr, base)
		}
		nScen++
		kinds[sc.fkind]++
	}
	if err := tr.Close(); err != nil {
		hx.Fatal("%v", err)
	}
	hx.WriteJSON(*statsPath, map[string]interface{}{"scenarios": nScen, "follower_kinds": kinds})
	fmt.Fprintf(os.Stderr, "replicadrv: %d scenarios %v\n", nScen, kinds)
}
