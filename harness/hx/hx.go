// Package hx holds helpers shared by the conformance drivers: quiet logging,
// an independent RESP encoder, a gated byte source, a ChannelReader, the
// ndjson trace writer and a small deterministic RNG.
package hx

import (
	"bufio"
	"encoding/json"
	"fmt"
	"io"
	"os"
	"runtime"
	"strconv"
	"sync"
	"time"

	"github.com/mgtv-tech/redis-GunYu/config"
	"github.com/mgtv-tech/redis-GunYu/pkg/log"
	usync "github.com/mgtv-tech/redis-GunYu/pkg/sync"
)

// QuietLogs routes the repository's logger to stdout at fatal level.
func QuietLogs() {
	f := false
	lvl := os.Getenv("VERIF_LOGLEVEL")
	if lvl == "" {
		lvl = "fatal"
	}
	_ = log.InitLog(config.LogConfig{LevelStr: lvl, StacktraceLevelStr: "fatal",
		Handler: config.LogHandlerConfig{StdOut: true}, Caller: &f, Func: &f})
}

// EncodeCmd is an independent RESP multi-bulk encoder.
func EncodeCmd(args ...[]byte) []byte {
	out := []byte("*" + strconv.Itoa(len(args)) + "\r\n")
	for _, a := range args {
		out = append(out, '$')
		out = append(out, strconv.Itoa(len(a))...)
		out = append(out, '\r', '\n')
		out = append(out, a...)
		out = append(out, '\r', '\n')
	}
	return out
}

func B(ss ...string) [][]byte {
	out := make([][]byte, len(ss))
	for i, s := range ss {
		out[i] = []byte(s)
	}
	return out
}

// FeedReader is a byte source whose content is released explicitly.
type FeedReader struct {
	mu      sync.Mutex
	cond    *sync.Cond
	buf     []byte
	err     error
	waiting bool // a Read is blocked on an empty buffer
	MaxRead int  // >0: fragment reads to at most this many bytes
}

func NewFeedReader() *FeedReader {
	f := &FeedReader{}
	f.cond = sync.NewCond(&f.mu)
	return f
}

func (f *FeedReader) Feed(b []byte) {
	f.mu.Lock()
	f.buf = append(f.buf, b...)
	f.cond.Broadcast()
	f.mu.Unlock()
}

// CloseWith makes Read return err once the buffer is drained.
func (f *FeedReader) CloseWith(err error) {
	f.mu.Lock()
	if f.err == nil {
		f.err = err
	}
	f.cond.Broadcast()
	f.mu.Unlock()
}

func (f *FeedReader) Read(p []byte) (int, error) {
	f.mu.Lock()
	defer f.mu.Unlock()
	for len(f.buf) == 0 {
		if f.err != nil {
			return 0, f.err
		}
		f.waiting = true
		f.cond.Broadcast()
		f.cond.Wait()
	}
	f.waiting = false
	n := len(p)
	if f.MaxRead > 0 && n > f.MaxRead {
		n = f.MaxRead
	}
	n = copy(p[:n], f.buf)
	f.buf = f.buf[n:]
	return n, nil
}

// Drained reports whether a Read is blocked on the empty buffer (the consumer
// has taken everything fed so far and asked for more) or the reader is closed.
func (f *FeedReader) Drained() bool {
	f.mu.Lock()
	defer f.mu.Unlock()
	return (f.waiting && len(f.buf) == 0) || f.err != nil
}

// WaitDrained polls Drained until it holds, stop() returns true, or the
// timeout expires.  It returns whether the reader is drained.
func (f *FeedReader) WaitDrained(stop func() bool, timeout time.Duration) bool {
	deadline := time.Now().Add(timeout)
	for i := 0; ; i++ {
		if f.Drained() {
			return true
		}
		if stop != nil && stop() {
			return false
		}
		if time.Now().After(deadline) {
			return false
		}
		if i < 200 {
			runtime.Gosched()
		} else {
			time.Sleep(20 * time.Microsecond)
		}
	}
}

// ChanReader implements syncer.ChannelReader over an io.Reader.
type ChanReader struct {
	R      *bufio.Reader
	Aof    bool
	Off    int64
	Sz     int64
	Run    string
	Close_ func()
}

func NewChanReader(r io.Reader, aof bool, runId string, left, size int64) *ChanReader {
	return &ChanReader{R: bufio.NewReaderSize(r, 4096), Aof: aof, Off: left, Sz: size, Run: runId}
}
func (c *ChanReader) Start(wait usync.WaitCloser) {}
func (c *ChanReader) Left() int64                 { return c.Off }
func (c *ChanReader) RunId() string               { return c.Run }
func (c *ChanReader) Size() int64                 { return c.Sz }
func (c *ChanReader) IoReader() *bufio.Reader     { return c.R }
func (c *ChanReader) IsAof() bool                 { return c.Aof }
func (c *ChanReader) Close() {
	if c.Close_ != nil {
		c.Close_()
	}
}

// Trace is an ndjson event writer.
type Trace struct {
	mu sync.Mutex
	w  *bufio.Writer
	f  *os.File
	N  int
}

func NewTrace(path string) (*Trace, error) {
	f, err := os.Create(path)
	if err != nil {
		return nil, err
	}
	return &Trace{w: bufio.NewWriterSize(f, 1<<20), f: f}, nil
}

func (t *Trace) Emit(ev map[string]interface{}) {
	t.mu.Lock()
	defer t.mu.Unlock()
	b, err := json.Marshal(ev)
	if err != nil {
		panic(err)
	}
	t.w.Write(b)
	t.w.WriteByte('\n')
	t.N++
}

func (t *Trace) Close() error {
	t.mu.Lock()
	defer t.mu.Unlock()
	if err := t.w.Flush(); err != nil {
		return err
	}
	return t.f.Close()
}

// Rng is a small deterministic generator (splitmix64).
type Rng struct{ s uint64 }

func NewRng(seed uint64) *Rng { return &Rng{s: seed*0x9E3779B97F4A7C15 + 0x1234567} }
func (r *Rng) U64() uint64 {
	r.s += 0x9E3779B97F4A7C15
	z := r.s
	z = (z ^ (z >> 30)) * 0xBF58476D1CE4E5B9
	z = (z ^ (z >> 27)) * 0x94D049BB133111EB
	return z ^ (z >> 31)
}
func (r *Rng) Intn(n int) int {
	if n <= 0 {
		return 0
	}
	return int(r.U64() % uint64(n))
}
func (r *Rng) Bool() bool        { return r.U64()&1 == 1 }
func (r *Rng) Chance(p int) bool { return r.Intn(100) < p }
func (r *Rng) Bytes(n int) []byte {
	b := make([]byte, n)
	for i := range b {
		b[i] = byte(r.U64())
	}
	return b
}

// Fatal reports a harness failure (exit 2: never a verdict).
func Fatal(format string, a ...interface{}) {
	fmt.Fprintf(os.Stderr, "HARNESS-ERROR: "+format+"\n", a...)
	os.Exit(2)
}

// WriteJSON writes v to path.
func WriteJSON(path string, v interface{}) {
	b, err := json.MarshalIndent(v, "", " ")
	if err != nil {
		Fatal("json: %v", err)
	}
	if err := os.WriteFile(path, b, 0o644); err != nil {
		Fatal("write %s: %v", path, err)
	}
}

// Watchdog ends the process with a harness error (exit 2) when Kick is not
// called for the given duration: a hang of the code under test must never
// hang a check.
type Watchdog struct {
	mu   sync.Mutex
	last time.Time
	what string
}

func NewWatchdog(limit time.Duration) *Watchdog {
	w := &Watchdog{last: time.Now()}
	go func() {
		for {
			time.Sleep(limit / 4)
			w.mu.Lock()
			idle, what := time.Since(w.last), w.what
			w.mu.Unlock()
			if idle > limit {
				// where everything is stuck (goes to stderr, the verdict stays "harness error")
				buf := make([]byte, 1<<20)
				buf = buf[:runtime.Stack(buf, true)]
				if p := os.Getenv("VERIF_STACKS"); p != "" {
					os.WriteFile(p, buf, 0o644)
				}
				Fatal("watchdog: no progress for %v (last: %s); the code under test or the harness is blocked", idle.Round(time.Second), what)
			}
		}
	}()
	return w
}

func (w *Watchdog) Kick(what string) {
	w.mu.Lock()
	w.last, w.what = time.Now(), what
	w.mu.Unlock()
}
