package hx

import (
	"net"
	"time"
)

// Listen opens a loopback listener on a free port.  Under heavy load the ephemeral port range can be
// exhausted for a moment (thousands of short-lived connections in TIME-WAIT): wait and try again.
func Listen() (net.Listener, error) {
	var ln net.Listener
	var err error
	for i := 0; i < 600; i++ {
		ln, err = net.Listen("tcp", "127.0.0.1:0")
		if err == nil {
			return ln, nil
		}
		time.Sleep(100 * time.Millisecond)
	}
	return nil, err
}
