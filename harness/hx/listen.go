package hx

import (
	"net"
	"time"
)

// Listen opens a loopback listener on a free port.  Under heavy load the ephemeral port range can be
// exhausted for a moment (thousands of short-lived connections in TIME-WAIT): wait and try again.
func Listen() (net.Listener, error) {
	var ln net.Listener
	var err error
	for i := 0; i < 600; i++ {
		ln, err = net.Listen("tcp", "127.0.0.1:0")
		if err == nil {
			return ln, nil
		}
		time.Sleep(100 * time.Millisecond)
	}
	return nil, err
}

// PortExhausted reports whether an error of the code under test is the local machine running out of
// ephemeral ports: that is a condition of the harness run, never an observation about the code.
func PortExhausted(err error) bool {
	if err == nil {
		return false
	}
	m := err.Error()
	for _, p := range []string{"cannot assign requested address", "address already in use", "too many open files"} {
		if containsFold(m, p) {
			return true
		}
	}
	return false
}

func containsFold(s, sub string) bool {
	n, m := len(s), len(sub)
	for i := 0; i+m <= n; i++ {
		j := 0
		for j < m {
			a, b := s[i+j], sub[j]
			if 'A' <= a && a <= 'Z' {
				a += 'a' - 'A'
			}
			if a != b {
				break
			}
			j++
		}
		if j == m {
			return true
		}
	}
	return false
}
