package hx

// Crc64 is an independent bitwise CRC-64/REDIS (Jones polynomial 0xad93d23594c935a9,
// reflected, init 0).  Check value: Crc64(0, "123456789") = 0xe9c6d914c4b8d9ca.
func Crc64(crc uint64, data []byte) uint64 {
	for _, b := range data {
		crc ^= uint64(b)
		for i := 0; i < 8; i++ {
			if crc&1 == 1 {
				crc = crc>>1 ^ 0x95ac9329ac4bc9b5
			} else {
				crc >>= 1
			}
		}
	}
	return crc
}

func init() {
	if Crc64(0, []byte("123456789")) != 0xe9c6d914c4b8d9ca {
		panic("hx.Crc64 self check failed")
	}
}
