// Package rdbgen is an independent RDB *encoder*: it serialises an abstract
// dataset into the on-disk encodings Redis 4.0 - 7.x emit (raw / integer / LZF
// strings; linked list, ziplist, quicklist v1/v2 incl. plain nodes, listpack;
// intsets of each width; skiplist v1/v2, ziplist and listpack sorted sets;
// table, zipmap, ziplist and listpack hashes), with every ziplist / listpack
// integer width.  It shares no code with the repository's decoder.
package rdbgen

import (
	"bytes"
	"encoding/binary"
	"fmt"
	"math"
	"sort"
	"strconv"

	"verifh/hx"
)

type ZM struct {
	M []byte
	S float64
}

type Val struct {
	Type   string // string list set zset hash stream
	Str    []byte
	List   [][]byte
	Set    [][]byte
	Hash   [][2][]byte
	ZSet   []ZM
	Stream *StreamVal
}

// StreamID is a stream entry id.
type StreamID struct{ Ms, Seq uint64 }

func (id StreamID) String() string { return fmt.Sprintf("%d-%d", id.Ms, id.Seq) }

// StreamEntry is one entry; Deleted entries stay in their listpack with the deleted flag.
type StreamEntry struct {
	ID      StreamID
	Fields  [][2][]byte
	Deleted bool
}

type StreamNack struct {
	ID            StreamID
	DeliveryTime  uint64
	DeliveryCount uint64
}

type StreamConsumer struct {
	Name       []byte
	SeenTime   uint64
	ActiveTime uint64
	Pending    []StreamID
}

type StreamGroup struct {
	Name        []byte
	LastID      StreamID
	EntriesRead uint64 // written from version 2 of the encoding on
	PEL         []StreamNack
	Consumers   []StreamConsumer
}

// StreamVal is a stream as rdb.c serialises it: radix tree nodes (one listpack per node, keyed by the id of its
// first entry), then length, last id, (v2+: first id, max deleted id, entries added), then the consumer groups.
type StreamVal struct {
	Nodes        [][]StreamEntry // entries per listpack node, ids ascending
	LastID       StreamID
	MaxDeletedID StreamID
	EntriesAdded uint64
	Groups       []StreamGroup
}

type Entry struct {
	DB         int
	Key        []byte
	Val        Val
	ExpireAtMs int64  // 0 = none
	Enc        string // encoding name (see Encodings)
	ExpireSecs bool   // use the seconds opcode
	// filled by Build
	Payload []byte // type byte + value serialisation (what DUMP carries before its footer)
}

var Encodings = map[string][]string{
	"string": {"raw", "int", "lzf"},
	"list":   {"linked", "ziplist", "ziplist-unknownlen", "quicklist", "quicklist-lzf", "quicklist2", "quicklist2-plain"},
	"set":    {"table", "intset", "listpack"},
	"zset":   {"skiplist", "skiplist2", "ziplist", "listpack"},
	"hash":   {"table", "zipmap", "ziplist", "listpack"},
	"stream": {"listpacks", "listpacks2", "listpacks3"},
}

// ---------------------------------------------------------------------------
// primitives

func Len(n uint64) []byte {
	switch {
	case n < 1<<6:
		return []byte{byte(n)}
	case n < 1<<14:
		return []byte{0x40 | byte(n>>8), byte(n)}
	case n <= math.MaxUint32:
		b := []byte{0x80, 0, 0, 0, 0}
		binary.BigEndian.PutUint32(b[1:], uint32(n))
		return b
	}
	b := []byte{0x81, 0, 0, 0, 0, 0, 0, 0, 0}
	binary.BigEndian.PutUint64(b[1:], n)
	return b
}

func RawString(s []byte) []byte { return append(Len(uint64(len(s))), s...) }

// IntString encodes s as an integer-encoded string when it is the canonical decimal form of a 32-bit value.
func IntString(s []byte) ([]byte, bool) {
	n, err := strconv.ParseInt(string(s), 10, 64)
	if err != nil || strconv.FormatInt(n, 10) != string(s) {
		return nil, false
	}
	switch {
	case n >= -128 && n <= 127:
		return []byte{0xC0, byte(int8(n))}, true
	case n >= -32768 && n <= 32767:
		b := []byte{0xC1, 0, 0}
		binary.LittleEndian.PutUint16(b[1:], uint16(int16(n)))
		return b, true
	case n >= math.MinInt32 && n <= math.MaxInt32:
		b := []byte{0xC2, 0, 0, 0, 0}
		binary.LittleEndian.PutUint32(b[1:], uint32(int32(n)))
		return b, true
	}
	return nil, false
}

// LzfCompress is a small LZF compressor (literal runs and back references).
func LzfCompress(in []byte) []byte {
	var out []byte
	var lit []byte
	flush := func() {
		for len(lit) > 0 {
			n := len(lit)
			if n > 32 {
				n = 32
			}
			out = append(out, byte(n-1))
			out = append(out, lit[:n]...)
			lit = lit[n:]
		}
	}
	tab := map[[3]byte]int{}
	i := 0
	for i < len(in) {
		if i+3 <= len(in) {
			k := [3]byte{in[i], in[i+1], in[i+2]}
			if j, ok := tab[k]; ok && i-j <= 8191 && i-j >= 1 {
				l := 3
				for i+l < len(in) && l < 264 && in[j+l] == in[i+l] {
					l++
				}
				flush()
				off := i - j - 1
				if l-2 < 7 {
					out = append(out, byte((l-2)<<5)|byte(off>>8), byte(off))
				} else {
					out = append(out, byte(7<<5)|byte(off>>8), byte(l-2-7), byte(off))
				}
				for x := 0; x < l; x++ {
					if i+x+3 <= len(in) {
						tab[[3]byte{in[i+x], in[i+x+1], in[i+x+2]}] = i + x
					}
				}
				i += l
				continue
			}
			tab[k] = i
		}
		lit = append(lit, in[i])
		i++
	}
	flush()
	return out
}

func LzfString(s []byte) []byte {
	c := LzfCompress(s)
	out := []byte{0xC3}
	out = append(out, Len(uint64(len(c)))...)
	out = append(out, Len(uint64(len(s)))...)
	return append(out, c...)
}

func parseInt(s []byte) (int64, bool) {
	n, err := strconv.ParseInt(string(s), 10, 64)
	if err != nil || strconv.FormatInt(n, 10) != string(s) {
		return 0, false
	}
	return n, true
}

// ---------------------------------------------------------------------------
// ziplist

func zlEntry(prevLen int, s []byte, forceStr bool) []byte {
	var e []byte
	if prevLen < 254 {
		e = append(e, byte(prevLen))
	} else {
		e = append(e, 0xFE, 0, 0, 0, 0)
		binary.LittleEndian.PutUint32(e[1:], uint32(prevLen))
	}
	if n, ok := parseInt(s); ok && !forceStr {
		switch {
		case n >= 0 && n <= 12:
			return append(e, 0xF1+byte(n))
		case n >= -128 && n <= 127:
			return append(e, 0xFE, byte(int8(n)))
		case n >= -32768 && n <= 32767:
			b := make([]byte, 2)
			binary.LittleEndian.PutUint16(b, uint16(int16(n)))
			return append(append(e, 0xC0), b...)
		case n >= -8388608 && n <= 8388607:
			u := uint32(int32(n))
			return append(e, 0xF0, byte(u), byte(u>>8), byte(u>>16))
		case n >= math.MinInt32 && n <= math.MaxInt32:
			b := make([]byte, 4)
			binary.LittleEndian.PutUint32(b, uint32(int32(n)))
			return append(append(e, 0xD0), b...)
		default:
			b := make([]byte, 8)
			binary.LittleEndian.PutUint64(b, uint64(n))
			return append(append(e, 0xE0), b...)
		}
	}
	l := len(s)
	switch {
	case l < 1<<6:
		e = append(e, byte(l))
	case l < 1<<14:
		e = append(e, 0x40|byte(l>>8), byte(l))
	default:
		e = append(e, 0x80, byte(l>>24), byte(l>>16), byte(l>>8), byte(l))
	}
	return append(e, s...)
}

// Ziplist builds a ziplist; unknownLen stores 65535 in zllen (as Redis does for >= 65535 entries,
// and as a reader must also accept).
func Ziplist(elems [][]byte, unknownLen bool) []byte {
	var body []byte
	prev := 0
	tail := 10
	for _, s := range elems {
		e := zlEntry(prev, s, false)
		tail = 10 + len(body)
		body = append(body, e...)
		prev = len(e)
	}
	total := 10 + len(body) + 1
	out := make([]byte, 10, total)
	binary.LittleEndian.PutUint32(out[0:], uint32(total))
	binary.LittleEndian.PutUint32(out[4:], uint32(tail))
	n := len(elems)
	if unknownLen || n >= 65535 {
		n = 65535
	}
	binary.LittleEndian.PutUint16(out[8:], uint16(n))
	out = append(out, body...)
	return append(out, 0xFF)
}

// ---------------------------------------------------------------------------
// listpack

func lpBacklen(l int) []byte {
	switch {
	case l <= 127:
		return []byte{byte(l)}
	case l < 16383:
		return []byte{byte(l >> 7), byte(l&127) | 128}
	case l < 2097151:
		return []byte{byte(l >> 14), byte((l>>7)&127) | 128, byte(l&127) | 128}
	case l < 268435455:
		return []byte{byte(l >> 21), byte((l>>14)&127) | 128, byte((l>>7)&127) | 128, byte(l&127) | 128}
	}
	return []byte{byte(l >> 28), byte((l>>21)&127) | 128, byte((l>>14)&127) | 128, byte((l>>7)&127) | 128, byte(l&127) | 128}
}

func lpEntry(s []byte) []byte {
	var e []byte
	if n, ok := parseInt(s); ok {
		switch {
		case n >= 0 && n <= 127:
			e = []byte{byte(n)}
		case n >= -4096 && n <= 4095:
			u := uint16(n) & 0x1FFF
			e = []byte{0xC0 | byte(u>>8), byte(u)}
		case n >= -32768 && n <= 32767:
			e = []byte{0xF1, 0, 0}
			binary.LittleEndian.PutUint16(e[1:], uint16(int16(n)))
		case n >= -8388608 && n <= 8388607:
			u := uint32(int32(n))
			e = []byte{0xF2, byte(u), byte(u >> 8), byte(u >> 16)}
		case n >= math.MinInt32 && n <= math.MaxInt32:
			e = []byte{0xF3, 0, 0, 0, 0}
			binary.LittleEndian.PutUint32(e[1:], uint32(int32(n)))
		default:
			e = []byte{0xF4, 0, 0, 0, 0, 0, 0, 0, 0}
			binary.LittleEndian.PutUint64(e[1:], uint64(n))
		}
	} else {
		l := len(s)
		switch {
		case l < 64:
			e = append([]byte{0x80 | byte(l)}, s...)
		case l < 4096:
			e = append([]byte{0xE0 | byte(l>>8), byte(l)}, s...)
		default:
			h := []byte{0xF0, 0, 0, 0, 0}
			binary.LittleEndian.PutUint32(h[1:], uint32(l))
			e = append(h, s...)
		}
	}
	return append(e, lpBacklen(len(e))...)
}

func Listpack(elems [][]byte) []byte {
	var body []byte
	for _, s := range elems {
		body = append(body, lpEntry(s)...)
	}
	out := make([]byte, 6, 6+len(body)+1)
	binary.LittleEndian.PutUint32(out[0:], uint32(6+len(body)+1))
	n := len(elems)
	if n >= 65535 {
		n = 65535
	}
	binary.LittleEndian.PutUint16(out[4:], uint16(n))
	out = append(out, body...)
	return append(out, 0xFF)
}

// ---------------------------------------------------------------------------
// other containers

func Intset(vals []int64) ([]byte, bool) {
	if len(vals) == 0 {
		return nil, false
	}
	sorted := append([]int64{}, vals...)
	sort.Slice(sorted, func(i, j int) bool { return sorted[i] < sorted[j] })
	w := 2
	for _, v := range sorted {
		if v < math.MinInt32 || v > math.MaxInt32 {
			w = 8
		} else if (v < -32768 || v > 32767) && w < 4 {
			w = 4
		}
	}
	out := make([]byte, 8, 8+w*len(sorted))
	binary.LittleEndian.PutUint32(out[0:], uint32(w))
	binary.LittleEndian.PutUint32(out[4:], uint32(len(sorted)))
	for _, v := range sorted {
		b := make([]byte, w)
		switch w {
		case 2:
			binary.LittleEndian.PutUint16(b, uint16(int16(v)))
		case 4:
			binary.LittleEndian.PutUint32(b, uint32(int32(v)))
		default:
			binary.LittleEndian.PutUint64(b, uint64(v))
		}
		out = append(out, b...)
	}
	return out, true
}

func Zipmap(kv [][2][]byte) []byte {
	out := []byte{byte(len(kv))}
	if len(kv) >= 254 {
		out[0] = 254
	}
	l := func(n int) []byte {
		if n < 254 {
			return []byte{byte(n)}
		}
		b := []byte{254, 0, 0, 0, 0}
		binary.LittleEndian.PutUint32(b[1:], uint32(n))
		return b
	}
	for i, p := range kv {
		out = append(out, l(len(p[0]))...)
		out = append(out, p[0]...)
		out = append(out, l(len(p[1]))...)
		free := byte(i % 3) // unused bytes after the value, as zipmaps may carry
		out = append(out, free)
		out = append(out, p[1]...)
		out = append(out, make([]byte, free)...)
	}
	return append(out, 0xFF)
}

func scoreStr(f float64) []byte {
	if f == math.Trunc(f) && math.Abs(f) < 1e15 {
		return []byte(strconv.FormatInt(int64(f), 10))
	}
	return []byte(strconv.FormatFloat(f, 'g', 17, 64))
}

// ---------------------------------------------------------------------------
// values

// EncodeValue returns the RDB type byte and the value serialisation.
func EncodeValue(v Val, enc string) (byte, []byte, error) {
	var b bytes.Buffer
	str := func(s []byte) { b.Write(RawString(s)) }
	switch v.Type {
	case "string":
		switch enc {
		case "raw":
			str(v.Str)
		case "int":
			e, ok := IntString(v.Str)
			if !ok {
				return 0, nil, fmt.Errorf("not an integer string")
			}
			b.Write(e)
		case "lzf":
			b.Write(LzfString(v.Str))
		default:
			return 0, nil, fmt.Errorf("string encoding %q", enc)
		}
		return 0, b.Bytes(), nil
	case "list":
		switch enc {
		case "linked":
			b.Write(Len(uint64(len(v.List))))
			for _, e := range v.List {
				if ie, ok := IntString(e); ok {
					b.Write(ie)
				} else {
					str(e)
				}
			}
			return 1, b.Bytes(), nil
		case "ziplist", "ziplist-unknownlen":
			str(Ziplist(v.List, enc == "ziplist-unknownlen"))
			return 10, b.Bytes(), nil
		case "quicklist", "quicklist-lzf", "quicklist2", "quicklist2-plain":
			// nodes of at most 3 elements
			var nodes [][][]byte
			for i := 0; i < len(v.List); i += 3 {
				j := i + 3
				if j > len(v.List) {
					j = len(v.List)
				}
				nodes = append(nodes, v.List[i:j])
			}
			if enc == "quicklist" || enc == "quicklist-lzf" {
				b.Write(Len(uint64(len(nodes))))
				for i, n := range nodes {
					zl := Ziplist(n, i%2 == 1 && len(nodes) > 1 && false)
					if enc == "quicklist-lzf" && len(zl) > 20 {
						b.Write(LzfString(zl))
					} else {
						str(zl)
					}
				}
				return 14, b.Bytes(), nil
			}
			var out bytes.Buffer
			count := 0
			for _, n := range nodes {
				if enc == "quicklist2-plain" {
					// one plain node per element
					for _, e := range n {
						out.Write(Len(1))
						out.Write(RawString(e))
						count++
					}
					continue
				}
				out.Write(Len(2)) // packed container: listpack
				out.Write(RawString(Listpack(n)))
				count++
			}
			b.Write(Len(uint64(count)))
			b.Write(out.Bytes())
			return 18, b.Bytes(), nil
		}
	case "set":
		switch enc {
		case "table":
			b.Write(Len(uint64(len(v.Set))))
			for _, e := range v.Set {
				if ie, ok := IntString(e); ok {
					b.Write(ie)
				} else {
					str(e)
				}
			}
			return 2, b.Bytes(), nil
		case "intset":
			var vals []int64
			for _, e := range v.Set {
				n, ok := parseInt(e)
				if !ok {
					return 0, nil, fmt.Errorf("non integer member")
				}
				vals = append(vals, n)
			}
			is, ok := Intset(vals)
			if !ok {
				return 0, nil, fmt.Errorf("empty intset")
			}
			str(is)
			return 11, b.Bytes(), nil
		case "listpack":
			str(Listpack(v.Set))
			return 20, b.Bytes(), nil
		}
	case "zset":
		switch enc {
		case "skiplist":
			b.Write(Len(uint64(len(v.ZSet))))
			for _, m := range v.ZSet {
				str(m.M)
				switch {
				case math.IsInf(m.S, 1):
					b.WriteByte(254)
				case math.IsInf(m.S, -1):
					b.WriteByte(255)
				default:
					s := strconv.FormatFloat(m.S, 'g', 17, 64)
					b.WriteByte(byte(len(s)))
					b.WriteString(s)
				}
			}
			return 3, b.Bytes(), nil
		case "skiplist2":
			b.Write(Len(uint64(len(v.ZSet))))
			for _, m := range v.ZSet {
				str(m.M)
				var f [8]byte
				binary.LittleEndian.PutUint64(f[:], math.Float64bits(m.S))
				b.Write(f[:])
			}
			return 5, b.Bytes(), nil
		case "ziplist", "listpack":
			var el [][]byte
			for _, m := range v.ZSet {
				el = append(el, m.M, scoreStr(m.S))
			}
			if enc == "ziplist" {
				str(Ziplist(el, false))
				return 12, b.Bytes(), nil
			}
			str(Listpack(el))
			return 17, b.Bytes(), nil
		}
	case "hash":
		switch enc {
		case "table":
			b.Write(Len(uint64(len(v.Hash))))
			for _, p := range v.Hash {
				str(p[0])
				str(p[1])
			}
			return 4, b.Bytes(), nil
		case "zipmap":
			str(Zipmap(v.Hash))
			return 9, b.Bytes(), nil
		case "ziplist", "listpack":
			var el [][]byte
			for _, p := range v.Hash {
				el = append(el, p[0], p[1])
			}
			if enc == "ziplist" {
				str(Ziplist(el, false))
				return 13, b.Bytes(), nil
			}
			str(Listpack(el))
			return 16, b.Bytes(), nil
		}
	case "stream":
		ver := map[string]int{"listpacks": 1, "listpacks2": 2, "listpacks3": 3}[enc]
		if ver == 0 || v.Stream == nil {
			return 0, nil, fmt.Errorf("stream encoding %q", enc)
		}
		b.Write(streamBody(v.Stream, ver))
		return map[int]byte{1: 15, 2: 19, 3: 21}[ver], b.Bytes(), nil
	}
	return 0, nil, fmt.Errorf("unsupported %s/%s", v.Type, enc)
}

func be64(x uint64) []byte {
	var t [8]byte
	binary.BigEndian.PutUint64(t[:], x)
	return t[:]
}

func le64(x uint64) []byte {
	var t [8]byte
	binary.LittleEndian.PutUint64(t[:], x)
	return t[:]
}

func dec(x int64) []byte { return []byte(strconv.FormatInt(x, 10)) }

// streamNode builds the listpack of one radix tree node (t_stream.c streamAppendItem layout): master entry
// <count><deleted><num-fields><field...><0>, then per entry <flags><ms-delta><seq-delta>[<num-fields><field><value>...|<value>...]<lp-count>
func streamNode(entries []StreamEntry) ([]byte, StreamID) {
	master := entries[0]
	var el [][]byte
	live, deleted := 0, 0
	for _, e := range entries {
		if e.Deleted {
			deleted++
		} else {
			live++
		}
	}
	el = append(el, dec(int64(live)), dec(int64(deleted)), dec(int64(len(master.Fields))))
	for _, f := range master.Fields {
		el = append(el, f[0])
	}
	el = append(el, dec(0))
	for _, e := range entries {
		same := len(e.Fields) == len(master.Fields)
		for i := range e.Fields {
			same = same && bytes.Equal(e.Fields[i][0], master.Fields[i][0])
		}
		flags := int64(0)
		if e.Deleted {
			flags |= 1
		}
		if same {
			flags |= 2
		}
		el = append(el, dec(flags), dec(int64(e.ID.Ms-master.ID.Ms)), dec(int64(e.ID.Seq-master.ID.Seq)))
		if same {
			for _, f := range e.Fields {
				el = append(el, f[1])
			}
			el = append(el, dec(int64(len(e.Fields)+3)))
		} else {
			el = append(el, dec(int64(len(e.Fields))))
			for _, f := range e.Fields {
				el = append(el, f[0], f[1])
			}
			el = append(el, dec(int64(len(e.Fields)*2+4)))
		}
	}
	return Listpack(el), master.ID
}

func streamBody(sv *StreamVal, ver int) []byte {
	var b bytes.Buffer
	b.Write(Len(uint64(len(sv.Nodes))))
	length := uint64(0)
	var first StreamID
	haveFirst := false
	for _, n := range sv.Nodes {
		lp, mid := streamNode(n)
		b.Write(RawString(append(be64(mid.Ms), be64(mid.Seq)...)))
		b.Write(RawString(lp))
		for _, e := range n {
			if !e.Deleted {
				length++
				if !haveFirst {
					first, haveFirst = e.ID, true
				}
			}
		}
	}
	b.Write(Len(length))
	b.Write(Len(sv.LastID.Ms))
	b.Write(Len(sv.LastID.Seq))
	if ver >= 2 {
		b.Write(Len(first.Ms))
		b.Write(Len(first.Seq))
		b.Write(Len(sv.MaxDeletedID.Ms))
		b.Write(Len(sv.MaxDeletedID.Seq))
		b.Write(Len(sv.EntriesAdded))
	}
	b.Write(Len(uint64(len(sv.Groups))))
	for _, g := range sv.Groups {
		b.Write(RawString(g.Name))
		b.Write(Len(g.LastID.Ms))
		b.Write(Len(g.LastID.Seq))
		if ver >= 2 {
			b.Write(Len(g.EntriesRead))
		}
		b.Write(Len(uint64(len(g.PEL))))
		for _, n := range g.PEL {
			b.Write(be64(n.ID.Ms))
			b.Write(be64(n.ID.Seq))
			b.Write(le64(n.DeliveryTime))
			b.Write(Len(n.DeliveryCount))
		}
		b.Write(Len(uint64(len(g.Consumers))))
		for _, c := range g.Consumers {
			b.Write(RawString(c.Name))
			b.Write(le64(c.SeenTime))
			if ver >= 3 {
				b.Write(le64(c.ActiveTime))
			}
			b.Write(Len(uint64(len(c.Pending))))
			for _, id := range c.Pending {
				b.Write(be64(id.Ms))
				b.Write(be64(id.Seq))
			}
		}
	}
	return b.Bytes()
}

// Build serialises the entries (grouped by DB in the given order) into an RDB of the given version.
func Build(entries []*Entry, version int, withAux bool) ([]byte, error) {
	var b bytes.Buffer
	fmt.Fprintf(&b, "REDIS%04d", version)
	if withAux && version >= 7 {
		b.WriteByte(0xFA)
		b.Write(RawString([]byte("redis-ver")))
		b.Write(RawString([]byte("6.2.7")))
		b.WriteByte(0xFA)
		b.Write(RawString([]byte("repl-id")))
		b.Write(RawString([]byte("aaaaaaaaaaaaaaaaaaaaaaaaaaaaaaaaaaaaaaaa")))
	}
	curDB := -1
	for i, e := range entries {
		if e.DB != curDB {
			b.WriteByte(0xFE)
			b.Write(Len(uint64(e.DB)))
			curDB = e.DB
			if version >= 7 {
				n, x := 0, 0
				for _, o := range entries[i:] {
					if o.DB != e.DB {
						break
					}
					n++
					if o.ExpireAtMs != 0 {
						x++
					}
				}
				b.WriteByte(0xFB)
				b.Write(Len(uint64(n)))
				b.Write(Len(uint64(x)))
			}
		}
		if e.ExpireAtMs != 0 {
			if e.ExpireSecs {
				b.WriteByte(0xFD)
				var t [4]byte
				binary.LittleEndian.PutUint32(t[:], uint32(e.ExpireAtMs/1000))
				b.Write(t[:])
			} else {
				b.WriteByte(0xFC)
				var t [8]byte
				binary.LittleEndian.PutUint64(t[:], uint64(e.ExpireAtMs))
				b.Write(t[:])
			}
		}
		t, val, err := EncodeValue(e.Val, e.Enc)
		if err != nil {
			return nil, fmt.Errorf("key %q: %w", e.Key, err)
		}
		b.WriteByte(t)
		b.Write(RawString(e.Key))
		b.Write(val)
		e.Payload = append([]byte{t}, val...)
	}
	b.WriteByte(0xFF)
	if version >= 5 {
		c := hx.Crc64(0, b.Bytes())
		var f [8]byte
		binary.LittleEndian.PutUint64(f[:], c)
		b.Write(f[:])
	}
	return b.Bytes(), nil
}
