module verifh

go 1.20

require (
	github.com/mgtv-tech/redis-GunYu v0.0.0
	google.golang.org/grpc v1.58.3
)

require (
	github.com/beorn7/perks v1.0.1 // indirect
	github.com/cespare/xxhash/v2 v2.2.0 // indirect
	github.com/coreos/go-semver v0.3.0 // indirect
	github.com/coreos/go-systemd/v22 v22.3.2 // indirect
	github.com/gabriel-vasile/mimetype v1.4.2 // indirect
	github.com/gin-contrib/pprof v1.4.0 // indirect
	github.com/gin-contrib/sse v0.1.0 // indirect
	github.com/gin-gonic/gin v1.9.1 // indirect
	github.com/go-playground/locales v0.14.1 // indirect
	github.com/go-playground/universal-translator v0.18.1 // indirect
	github.com/go-playground/validator/v10 v10.14.0 // indirect
	github.com/gogo/protobuf v1.3.2 // indirect
	github.com/golang/protobuf v1.5.3 // indirect
	github.com/leodido/go-urn v1.2.4 // indirect
	github.com/mattn/go-isatty v0.0.19 // indirect
	github.com/matttproud/golang_protobuf_extensions v1.0.4 // indirect
	github.com/pelletier/go-toml/v2 v2.0.8 // indirect
	github.com/prometheus/client_golang v1.17.0 // indirect
	github.com/prometheus/client_model v0.4.1-0.20230718164431-9a2bf3000d16 // indirect
	github.com/prometheus/common v0.44.0 // indirect
	github.com/prometheus/procfs v0.11.1 // indirect
	github.com/soheilhy/cmux v0.1.5 // indirect
	github.com/ugorji/go/codec v1.2.11 // indirect
	go.etcd.io/etcd/api/v3 v3.5.10 // indirect
	go.etcd.io/etcd/client/pkg/v3 v3.5.10 // indirect
	go.etcd.io/etcd/client/v3 v3.5.10 // indirect
	go.uber.org/atomic v1.7.0 // indirect
	go.uber.org/multierr v1.10.0 // indirect
	go.uber.org/zap v1.26.0 // indirect
	golang.org/x/crypto v0.14.0 // indirect
	golang.org/x/exp v0.0.0-20231006140011-7918f672742d // indirect
	golang.org/x/net v0.17.0 // indirect
	golang.org/x/sync v0.3.0 // indirect
	golang.org/x/sys v0.13.0 // indirect
	golang.org/x/text v0.13.0 // indirect
	google.golang.org/genproto/googleapis/api v0.0.0-20230711160842-782d3b101e98 // indirect
	google.golang.org/genproto/googleapis/rpc v0.0.0-20230711160842-782d3b101e98 // indirect
	google.golang.org/protobuf v1.31.0 // indirect
	gopkg.in/natefinch/lumberjack.v2 v2.2.1 // indirect
	gopkg.in/yaml.v3 v3.0.1 // indirect
)

replace github.com/mgtv-tech/redis-GunYu => /repo
