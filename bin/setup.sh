#!/bin/bash
# Build-from-disk setup: checks the toolchain and warms the Go build cache for the drivers.
set -e
export GOFLAGS=-mod=mod GOPROXY=off GOSUMDB=off GOTOOLCHAIN=local CGO_ENABLED=0
cd "$(dirname "$0")/.."
command -v java >/dev/null && command -v go >/dev/null && command -v python3 >/dev/null
mkdir -p .work evidence
tmp=$(mktemp -d -p .work setup-XXXX)
cp -r harness "$tmp/harness"
cp /repo/go.sum "$tmp/harness/go.sum"
(cd "$tmp/harness" && go build -tags verif ./... )
rm -rf "$tmp"
echo setup-ok
