"""Shared machinery of the /verif checks: scratch dirs, Go driver builds from
/repo's working tree (build tag `verif`), TLC runs (exhaustive, simulation,
trace validation), known findings, evidence files and the verdict protocol.

Exit codes: 0 = property held on everything explored (known findings are
printed as KNOWN-FINDING lines), 1 = VIOLATION, 2 = harness failure (never a
verdict)."""
import json, os, random, re, shutil, subprocess, sys, tempfile, time, glob

VERIF = os.path.dirname(os.path.dirname(os.path.abspath(__file__)))
REPO = os.environ.get("VERIF_REPO", "/repo")
WORK = os.path.join(VERIF, ".work")
NCPU = os.cpu_count() or 4

GOENV = dict(os.environ, GOFLAGS="-mod=mod", GOPROXY="off", GOSUMDB="off", GOTOOLCHAIN="local",
             CGO_ENABLED="0")


class HarnessError(Exception):
    pass


def die(msg):
    print("HARNESS-ERROR: " + msg, file=sys.stderr)
    sys.exit(2)


def scratch(prefix):
    os.makedirs(WORK, exist_ok=True)
    return tempfile.mkdtemp(prefix=prefix + "-", dir=WORK)


def sh(cmd, cwd=None, env=None, timeout=None, check=True, capture=True):
    try:
        p = subprocess.run(cmd, cwd=cwd, env=env, timeout=timeout, stdout=subprocess.PIPE if capture else None,
                           stderr=subprocess.STDOUT if capture else None, text=True, errors="replace")
    except subprocess.TimeoutExpired as e:
        raise HarnessError("timeout after %ss: %s" % (timeout, " ".join(cmd[:6])))
    if check and p.returncode != 0:
        raise HarnessError("command failed (%d): %s\n%s" % (p.returncode, " ".join(cmd[:8]), (p.stdout or "")[-4000:]))
    return p


_built = {}


def build_driver(name, work):
    """Build harness/cmd/<name> against /repo's current working tree with hooks on."""
    if name in _built:
        return _built[name]
    hdir = os.path.join(work, "harness")
    if not os.path.isdir(hdir):
        shutil.copytree(os.path.join(VERIF, "harness"), hdir)
        shutil.copy(os.path.join(REPO, "go.sum"), os.path.join(hdir, "go.sum"))
        mod = open(os.path.join(hdir, "go.mod")).read()
        mod = re.sub(r"=> /repo\b", "=> " + REPO, mod)
        open(os.path.join(hdir, "go.mod"), "w").write(mod)
    out = os.path.join(work, "bin-" + name)
    try:
        sh(["go", "build", "-tags", "verif", "-o", out, "./cmd/" + name], cwd=hdir, env=GOENV, timeout=900)
    except HarnessError as e:
        die("building driver %s from %s failed (the tree does not compile with the verif tag?)\n%s" % (name, REPO, e))
    _built[name] = out
    return out


def run_parallel(cmds, timeout, cwd=None):
    """Run several commands concurrently; returns list of (rc, output)."""
    procs = []
    for c in cmds:
        procs.append(subprocess.Popen(c, cwd=cwd, env=GOENV, stdout=subprocess.PIPE, stderr=subprocess.STDOUT, text=True,
                                      errors="replace"))
    res = []
    deadline = time.time() + timeout
    for p in procs:
        try:
            out, _ = p.communicate(timeout=max(1, deadline - time.time()))
        except subprocess.TimeoutExpired:
            for q in procs:
                q.kill()
            raise HarnessError("driver timeout after %ss" % timeout)
        res.append((p.returncode, out))
    return res


# ---------------------------------------------------------------------------
# TLC

TLC_JAR_CP = "/opt/veriftools/tla/tla2tools.jar:/opt/veriftools/tla/CommunityModules-deps.jar"


def tlc(spec_files, module, cfg, work, workers=None, extra=None, timeout=1800, jvm=None, name=None, heap=None):
    """Run TLC on a scratch copy of spec_files.  Returns dict(out, rc, generated, distinct, ...)."""
    d = tempfile.mkdtemp(prefix=(name or module) + "-", dir=work)
    for f in spec_files:
        shutil.copy(f, d)
    if isinstance(cfg, str) and os.path.exists(cfg):
        shutil.copy(cfg, os.path.join(d, module + ".cfg"))
    else:
        open(os.path.join(d, module + ".cfg"), "w").write(cfg)
    cmd = ["java", "-XX:+UseParallelGC", "-Xss512m"]
    if heap:
        cmd.append("-Xmx" + heap)
    cmd += (jvm or [])
    cmd += ["-cp", TLC_JAR_CP, "tlc2.TLC", "-workers", str(workers or NCPU), "-metadir", os.path.join(d, "meta"),
            "-config", module + ".cfg"]
    cmd += (extra or [])
    cmd.append(module + ".tla")
    t0 = time.time()
    try:
        p = subprocess.run(cmd, cwd=d, stdout=subprocess.PIPE, stderr=subprocess.STDOUT, text=True, errors="replace",
                           timeout=timeout)
    except subprocess.TimeoutExpired:
        raise HarnessError("TLC timeout after %ss on %s" % (timeout, module))
    out = p.stdout
    r = {"out": out, "rc": p.returncode, "dir": d, "wall": time.time() - t0, "generated": 0, "distinct": 0}
    m = re.search(r"(\d+) states generated, (\d+) distinct states found", out)
    if m:
        r["generated"], r["distinct"] = int(m.group(1)), int(m.group(2))
    r["finished"] = "Model checking completed" in out or "Finished in" in out
    r["invariant_violated"] = re.findall(r"Invariant (\S+) is violated", out)
    r["property_violated"] = re.findall(r"(?:Action|Temporal) property (\S+) is violated|property (\S+) is violated", out)
    r["errors"] = [l for l in out.splitlines() if l.startswith("Error:")]
    m = re.search(r"depth of the complete state graph search is (\d+)", out)
    r["depth"] = int(m.group(1)) if m else 0
    return r


def tlc_replay_each(spec_files, module, cfg, traces, work, timeout=600, procs=None):
    """Action-reuse trace validation, one TLC run per trace file (so that one rejected trace does not hide the others).
    cfg must read the trace from "trace.ndjson".  Returns a list of dict(trace, accepted, invariant, rejected_at, line, out)."""
    from concurrent.futures import ThreadPoolExecutor

    def one(path):
        d = tempfile.mkdtemp(prefix=module + "-", dir=work)
        for f in spec_files:
            shutil.copy(f, d)
        shutil.copy(path, os.path.join(d, "trace.ndjson"))
        open(os.path.join(d, module + ".cfg"), "w").write(cfg)
        cmd = ["java", "-XX:+UseSerialGC", "-Xss256m", "-Xmx1g", "-cp", TLC_JAR_CP, "tlc2.TLC", "-workers", "1", "-metadir", os.path.join(d, "meta"),
               "-config", module + ".cfg", module + ".tla"]
        try:
            p = subprocess.run(cmd, cwd=d, stdout=subprocess.PIPE, stderr=subprocess.STDOUT, text=True, errors="replace", timeout=timeout)
        except subprocess.TimeoutExpired:
            raise HarnessError("TLC timeout after %ss replaying %s" % (timeout, path))
        out = p.stdout
        r = {"trace": path, "accepted": "No error has been found" in out, "invariant": None, "rejected_at": None, "line": None, "out": out[-2500:]}
        m = re.search(r"Invariant (\S+) is violated", out)
        if m:
            r["invariant"] = m.group(1)
            ls = re.findall(r"/\\ l = (\d+)", out)
            r["line"] = int(ls[-1]) - 1 if ls else None
        m = re.search(r'"TRACE-NOT-CONSUMED",\s*(\d+),\s*(\d+)', out)
        if m:
            r["rejected_at"] = int(m.group(1)) + 1
        if not r["accepted"] and not r["invariant"] and not r["rejected_at"]:
            raise HarnessError("TLC did not replay %s:\n%s" % (path, out[-2500:]))
        m = re.search(r"(\d+) states generated, (\d+) distinct states found", out)
        r["distinct"] = int(m.group(2)) if m else 0
        shutil.rmtree(d, ignore_errors=True)
        return r

    with ThreadPoolExecutor(max_workers=procs or NCPU) as ex:
        return list(ex.map(one, traces))


def apalache(spec_file, args, work, timeout=600):
    """Run apalache-mc check on a scratch copy.  Returns dict(ok, out); None when the tool is not installed."""
    exe = shutil.which("apalache-mc")
    if not exe:
        return None
    d = tempfile.mkdtemp(prefix="apalache-", dir=work)
    shutil.copy(spec_file, d)
    cmd = [exe, "check", "--out-dir=" + os.path.join(d, "out")] + list(args) + [os.path.basename(spec_file)]
    try:
        p = subprocess.run(cmd, cwd=d, stdout=subprocess.PIPE, stderr=subprocess.STDOUT, text=True, errors="replace", timeout=timeout)
    except subprocess.TimeoutExpired:
        raise HarnessError("apalache timeout after %ss: %s" % (timeout, " ".join(args)))
    ok = "EXITCODE: OK" in p.stdout
    shutil.rmtree(d, ignore_errors=True)
    return {"ok": ok, "out": p.stdout[-3000:]}


def tlc_ok(r, what):
    """A design-level TLC run must finish without error; otherwise it is a harness/spec failure."""
    if r["invariant_violated"] or r["property_violated"] or r["errors"] or not r["finished"] or r["distinct"] == 0:
        if os.environ.get("VERIF_D_NONFATAL"):   # investigation only: go on to the real-code part
            print("D-LAYER (non fatal): %s: %s %s" % (what, r["invariant_violated"], r["errors"][:1]), file=sys.stderr)
            return
        raise HarnessError("TLC run '%s' did not complete cleanly:\n%s" % (what, r["out"][-3000:]))


VIOL_RE = re.compile(r'<<\s*"VIOL",\s*(-?\d+),\s*(\d+),\s*\{([^}]*)\}\s*>>')


def tlc_trace(spec_files, module, trace_path, work, timeout=1800, trace_name="trace.ndjson", extra_files=None, extra_constants=""):
    """Monitor-style trace validation: the trace spec consumes the whole file and prints
    <<"VIOL", trace id, line, {names}>> tuples.  Returns (violations, result)."""
    cfg = 'SPECIFICATION Spec\nCONSTANT TraceFile = "%s"\n%sPOSTCONDITION TraceAccepted\nCHECK_DEADLOCK FALSE\n' % (trace_name, extra_constants)
    d = tempfile.mkdtemp(prefix=module + "-tv-", dir=work)
    files = list(spec_files) + list(extra_files or [])
    for f in files:
        shutil.copy(f, d)
    shutil.copy(trace_path, os.path.join(d, trace_name))
    r = tlc([os.path.join(d, os.path.basename(f)) for f in files] + [os.path.join(d, trace_name)], module, cfg, work,
            workers=1, timeout=timeout, name=module + "-run", heap="8g")
    out = r["out"].replace("\n", " ")
    viol = []
    for m in VIOL_RE.finditer(out):
        names = [x.strip().strip('"') for x in m.group(3).split(",") if x.strip()]
        viol.append({"trace": int(m.group(1)), "line": int(m.group(2)), "names": names})
    if "TRACE-NOT-CONSUMED" in out or r["errors"] or not r["finished"] or r["invariant_violated"]:
        # a trace the front end cannot consume is a harness/spec problem, never a verdict
        raise HarnessError("trace validation of %s did not consume the whole trace:\n%s" % (module, r["out"][-3000:]))
    shutil.rmtree(d, ignore_errors=True)
    if os.environ.get("VERIF_SELFTEST") and not os.environ.get("VERIF_SELFTEST_INNER"):
        binding_selftest(spec_files, module, trace_path, work, trace_name, extra_files, extra_constants)
    return viol, r


def binding_selftest(spec_files, module, trace_path, work, trace_name, extra_files, extra_constants, k=16, max_lines=3000):
    """Binding demonstrated, not assumed (VERIF_SELFTEST=1): a prefix of the trace just recorded from the real code is
    altered in one place - one field of one event changed, or one event removed - and given to the same monitor.  A monitor
    that is bound to what the code did answers differently (other violations, or the trace is not consumed) for the fields
    its rules speak of.  The outcome per alteration is written to .work/selftest/<module>.json; it is a report, not a verdict."""
    lines = open(trace_path).read().splitlines()
    cut = len(lines)
    if cut > max_lines:
        cut = max_lines
        while cut > 1 and '"ev":"Reset"' not in lines[cut] and '"ev": "Reset"' not in lines[cut]:
            cut -= 1
        if cut <= 1:
            cut = max_lines
    lines = lines[:cut]
    os.environ["VERIF_SELFTEST_INNER"] = "1"
    rnd = random.Random(int(os.environ.get("VERIF_SEED", "1")) * 7919 + len(lines))

    def run(ls, tag):
        pth = os.path.join(work, "selftest-%s-%s.ndjson" % (module, tag))
        open(pth, "w").write("\n".join(ls) + "\n")
        try:
            v, _ = tlc_trace(spec_files, module, pth, work, timeout=1800, trace_name=trace_name, extra_files=extra_files, extra_constants=extra_constants)
            out = sorted((x["line"], tuple(sorted(x["names"]))) for x in v)
        except HarnessError as e:
            out = "not consumed / evaluation error"
        os.remove(pth)
        return out

    try:
        base = run(lines, "base")
        report = {"module": module, "trace_lines": len(lines), "baseline_violations": len(base) if isinstance(base, list) else base, "alterations": []}
        for i in range(k):
            li = rnd.randrange(len(lines))
            ev = json.loads(lines[li])
            if i % 4 == 3:
                what = {"kind": "event removed", "line": li + 1, "ev": ev.get("ev", ev.get("site", "?"))}
                ls = lines[:li] + lines[li + 1:]
            else:
                paths = []

                def walk(o, pre, depth):
                    if isinstance(o, dict):
                        for kk, vv in o.items():
                            walk(vv, pre + [kk], depth + 1)
                    elif isinstance(o, list):
                        for ii, vv in enumerate(o[:6]):
                            walk(vv, pre + [ii], depth + 1)
                    elif isinstance(o, (bool, int)) and pre and pre[0] not in ("id", "ev"):
                        paths.append(pre)
                walk(ev, [], 0)
                if not paths:
                    continue
                pa = rnd.choice(paths)
                o = ev
                for kk in pa[:-1]:
                    o = o[kk]
                old = o[pa[-1]]
                o[pa[-1]] = (not old) if isinstance(old, bool) else old + rnd.choice([1, -1, 7])
                what = {"kind": "field changed", "line": li + 1, "ev": ev.get("ev", ev.get("site", "?")), "field": ".".join(str(x) for x in pa), "from": old, "to": o[pa[-1]]}
                ls = lines[:li] + [json.dumps(ev, separators=(",", ":"))] + lines[li + 1:]
            res = run(ls, "m%d" % i)
            what["monitor_answers_differently"] = res != base
            report["alterations"].append(what)
        report["differently"] = sum(1 for a in report["alterations"] if a["monitor_answers_differently"])
        d = os.path.join(WORK, "selftest")
        os.makedirs(d, exist_ok=True)
        json.dump(report, open(os.path.join(d, module + ".json"), "w"), indent=1)
        print("SELFTEST %s: %d of %d single alterations of the recorded trace change the monitor's answer" % (module, report["differently"], len(report["alterations"])), file=sys.stderr)
    finally:
        del os.environ["VERIF_SELFTEST_INNER"]


def trace_samples(trace_path, n=3, ev="Reset"):
    """the first n scenario headers of a concatenated trace, as evidence samples"""
    out = []
    with open(trace_path) as f:
        for line in f:
            if '"ev":"%s"' % ev in line:
                out.append(json.loads(line))
                if len(out) >= n:
                    break
    return out or [{"note": "no scenario header found"}]


# ---------------------------------------------------------------------------
# known findings, evidence, verdict

def load_known():
    p = os.path.join(VERIF, "known_findings.json")
    if not os.path.exists(p):
        return {"findings": [], "fixed": []}
    return json.load(open(p))


def known_match(prop, signature):
    """signature: dict describing the violation; a finding matches when every key of its
    `match` object equals the signature's value."""
    for f in load_known().get("findings", []):
        if f.get("property") != prop:
            continue
        m = f.get("match", {})
        if all(signature.get(k) == v for k, v in m.items()):
            return f
    return None


def write_evidence(prop, tier, seed, level, coverage, assumptions, wall, violations):
    os.makedirs(os.path.join(VERIF, "evidence"), exist_ok=True)
    ev = {"property_id": prop, "tier": tier, "seed": int(seed), "level": level, "coverage": coverage,
          "assumptions": assumptions, "wall_s": round(wall, 2), "violations": int(violations)}
    name = prop + ".json"
    if os.path.realpath(REPO) != "/repo":
        # a run against a scratch tree (a seeded change being tried) must not overwrite what was recorded for /repo
        d = os.path.join(WORK, "evidence-other-tree")
        os.makedirs(d, exist_ok=True)
        json.dump(dict(ev, tree=REPO), open(os.path.join(d, name), "w"), indent=1, sort_keys=True, default=str)
        return
    tmp = os.path.join(VERIF, "evidence", name + ".tmp")
    json.dump(ev, open(tmp, "w"), indent=1, sort_keys=True, default=str)
    os.replace(tmp, os.path.join(VERIF, "evidence", name))


def save_replay(prop, name, payload):
    d = os.path.join(WORK, "replay")
    os.makedirs(d, exist_ok=True)
    p = os.path.join(d, "%s-%s.json" % (prop, name))
    json.dump(payload, open(p, "w"), indent=1, default=str)
    return p


def conclude(prop, violations, known_hits):
    """violations: list of dict(replay=path, what=str); known_hits: list of finding dicts."""
    seen = set()
    for f in known_hits:
        if f["id"] in seen:
            continue
        seen.add(f["id"])
        print("KNOWN-FINDING: property=%s %s" % (prop, f["what"]))
    if violations:
        for v in violations[:10]:
            print("VIOLATION property=%s replay=%s" % (prop, v["replay"]))
            if v.get("what"):
                print("  " + v["what"])
        sys.exit(1)
    print("OK property=%s" % prop)
    sys.exit(0)


def tier_seed(argv):
    tier = os.environ.get("VERIF_TIER", "quick")
    replay = None
    seed_arg = None
    args = list(argv)
    while args:
        a = args.pop(0)
        if a == "--tier":
            tier = args.pop(0)
        elif a == "--replay":
            replay = args.pop(0)
        elif a == "--seed":
            seed_arg = args.pop(0)
    if tier not in ("quick", "thorough"):
        tier = "quick"
    try:
        seed = int(seed_arg if seed_arg is not None else os.environ.get("VERIF_SEED", "1"))
    except ValueError:
        seed = 1
    return tier, seed, replay


def cleanup(work):
    if os.environ.get("VERIF_KEEP"):
        print("work dir kept: " + work, file=sys.stderr)
        return
    shutil.rmtree(work, ignore_errors=True)
