#!/usr/bin/env python3
"""Print the DESIGN table of the binding self-test from .work/selftest/*.json (written by VERIF_SELFTEST=1 runs)."""
import glob, json, os
V = os.path.dirname(os.path.dirname(os.path.abspath(__file__)))
print("| monitor | lines of the recorded trace used | single alterations that changed the monitor's answer | examples of what it noticed | what it did not notice |")
print("|---|---|---|---|---|")
for f in sorted(glob.glob(os.path.join(V, ".work", "selftest", "*.json"))):
    r = json.load(open(f))
    yes = [a for a in r["alterations"] if a["monitor_answers_differently"]]
    no = [a for a in r["alterations"] if not a["monitor_answers_differently"]]
    def show(a):
        return "`%s` removed" % a.get("ev") if a["kind"] == "event removed" else "`%s.%s` %s→%s" % (a.get("ev"), a.get("field"), a.get("from"), a.get("to"))
    ny = sorted(set(show(a) for a in yes))[:3]
    nn = sorted(set(("`%s` removed" % a.get("ev")) if a["kind"] == "event removed" else "`%s.%s`" % (a.get("ev"), str(a.get("field")).split(".")[0]) for a in no))[:5]
    print("| `%s` | %d | %d of %d | %s | %s |" % (r["module"], r["trace_lines"], r["differently"], len(r["alterations"]), "; ".join(ny), "; ".join(nn)))
