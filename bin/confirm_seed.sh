#!/bin/bash
# confirm_seed.sh <seeded/ID dir> : in a scratch worktree of /repo HEAD confirm that the seeded change
# applies, builds (with and without the verif tag), passes the existing suite, and that its demonstration
# fails with the change and passes without it.  Writes confirm.json into the directory.
set -u
dir=$(realpath "$1")
export GOFLAGS=-mod=mod GOPROXY=off GOSUMDB=off GOTOOLCHAIN=local
wt=$(mktemp -d /tmp/seedwt-XXXX)
rmdir "$wt"
git -C /repo worktree add -q --detach "$wt" HEAD || exit 2
cleanup() { git -C /repo worktree remove --force "$wt" 2>/dev/null; rm -rf "$wt"; }
trap cleanup EXIT
cd "$wt"
res() { echo "$1"; }
applies=false; builds=false; suite=false; demo_fails=false; demo_passes=false
git apply "$dir/patch.diff" && applies=true
if $applies; then
  (go build ./... && go build -tags verif ./...) >/dev/null 2>&1 && builds=true
  go test -vet=off -count=1 ./... > "$wt/suite.log" 2>&1 && suite=true
  democmd=$(python3 -c "import json,sys; print(json.load(open('$dir/meta.json'))['demo_cmd'])")
  # install demo files next to the package named in the demo file's package clause
  for f in "$dir"/*_test.go; do
    [ -e "$f" ] || continue
    pkgdir=$(python3 -c "import json; m=json.load(open('$dir/meta.json')); print(m.get('demo_dir',''))")
    if [ -z "$pkgdir" ]; then pkgdir=$(echo "$democmd" | grep -o '\./[a-zA-Z0-9_/]*' | tail -1); fi
    cp "$f" "$wt/$pkgdir/"
  done
  # demo files kept under their package path
  (cd "$dir" && find . -mindepth 2 -name '*_test.go') | while read -r rel; do cp "$dir/$rel" "$wt/$rel"; done
  (cd "$wt" && eval "$democmd") > "$wt/demo_with.log" 2>&1 || demo_fails=true
  git apply -R "$dir/patch.diff"
  (cd "$wt" && eval "$democmd") > "$wt/demo_without.log" 2>&1 && demo_passes=true
fi
python3 - <<PY
import json
json.dump({"applies": "$applies"=="true", "builds_with_and_without_verif_tag": "$builds"=="true", "existing_suite_passes_with_change": "$suite"=="true",
           "demo_fails_with_change": "$demo_fails"=="true", "demo_passes_without_change": "$demo_passes"=="true",
           "repo_head": "$(git -C /repo rev-parse --short HEAD)"}, open("$dir/confirm.json","w"), indent=1)
PY
cat "$dir/confirm.json"
