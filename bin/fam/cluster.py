"""C19 — cluster replay reaches each key's slot owner and keeps per-key order.

D layer : spec/ClusterTxn.tla — transactional mode: batches with the resume position appended, elements judged one by one
          (the code: MULTI/EXEC dropped) or at EXEC (a real transaction), hand-overs between elements, restarts from the stored
          position; holds with a real transaction, refuted without (the recorded findings).
          spec/ClusterReplay.tla — sender with a (possibly stale) slot map and a window of commands in
          flight, nodes that execute only what they own, MOVED handled when the reply is consumed,
          asynchronous map refresh, slot hand-overs at any moment.  Window = 1 (blocking batches) is
          checked for C19_PerKeyOrder and C19_NoSilentLoss; Window = 3 (pipelined) for C19_NoSilentLoss.
P layer : spec/trace/TraceCluster.tla judges the cluster-wide execution order recorded by a three-node
          cluster fake (MOVED / ASK / importing / migrating) under the real RedisOutput in blocking,
          pipelined and transactional mode, with migrations fired at request counts and restarts
          after every reported error.  spec/trace/TraceBisync.tla judges what took effect when the real bidirectional replay
          (txn batcher) runs while the slot of one of its units is handed over at the marker, a business command or the EXEC."""
import json, os, time, shutil
import vlib

SPEC = os.path.join(vlib.VERIF, "spec")
DCFG = ("SPECIFICATION Spec\nCONSTANTS\n  Keys = {k1, k2}\n  Nodes = {n1, n2}\n  N = %d\n  Window = %d\n  MaxMig = %d\n  DeferRefresh = FALSE\n"
        "INVARIANTS %s\nCHECK_DEADLOCK FALSE\n")


def check(prop, tier, seed, replay):
    t0 = time.time()
    work = vlib.scratch(prop)
    try:
        _check(prop, tier, seed, replay, work, t0)
    finally:
        vlib.cleanup(work)


def repo_panic(out):
    """the driver died of a Go panic whose running goroutine was inside the repository's code (not the harness's)"""
    i = out.find("panic:")
    if i < 0:
        return False
    j = out.find("[running]:", i)
    if j < 0:
        return False
    frames = [l.strip() for l in out[j:].splitlines()[1:6] if l.strip() and not l.startswith("\t")]
    return bool(frames) and frames[0].startswith("github.com/mgtv-tech/redis-GunYu/")


def panic_head(out):
    i = out.find("panic:")
    return " | ".join(l.strip() for l in out[i:].splitlines()[:5])[:400]


def _check(prop, tier, seed, replay, work, t0):
    crashes = []
    drv = vlib.build_driver("clusterdrv", work)
    states = trans = 0
    druns = []
    n_ = 5 if tier == "quick" else 6
    for window, invs in ((1, "C19_PerKeyOrder C19_NoSilentLoss"), (3, "C19_NoSilentLoss")):
        r = vlib.tlc([os.path.join(SPEC, "ClusterReplay.tla")], "ClusterReplay", DCFG % (n_, window, 2, invs), work, timeout=3000, name="ClusterReplayW%d" % window)
        vlib.tlc_ok(r, "ClusterReplay.tla Window=%d" % window)
        states += r["distinct"]
        trans += r["generated"]
        druns.append({"spec": "ClusterReplay", "N": n_, "Window": window, "MaxMig": 2, "invariants": invs.split(), "distinct": r["distinct"]})
    # transactional mode: ClusterTxn.tla.  The design with a real MULTI/EXEC per batch satisfies all four properties; the
    # design the code implements (the cluster batchers drop MULTI/EXEC) keeps "once per run" and is refuted on the other three -
    # the design-level form of the recorded C19-cluster-txn findings, and the control that the invariants can fail.
    tcfg = ("SPECIFICATION Spec\nCONSTANTS\n  Keys = {k1, k2}\n  Nodes = {n1, n2}\n  N = %d\n  B = 2\n  MaxMig = 2\n  MaxRuns = 3\n  RealMulti = %s\n"
            "INVARIANTS %s\nCHECK_DEADLOCK FALSE\n")
    tn = 5 if tier == "quick" else 6
    tspec = [os.path.join(SPEC, "ClusterTxn.tla")]
    allinv = "TypeOK C19_NoSkip C19_StoredPositionIsExecuted C19_NoSilentLoss C19_TxnOncePerRun"
    r = vlib.tlc(tspec, "ClusterTxn", tcfg % (tn, "TRUE", allinv), work, timeout=3000, name="ClusterTxnReal")
    vlib.tlc_ok(r, "ClusterTxn.tla RealMulti=TRUE")
    states += r["distinct"]
    trans += r["generated"]
    druns.append({"spec": "ClusterTxn", "RealMulti": True, "N": tn, "B": 2, "invariants": allinv.split(), "distinct": r["distinct"], "result": "hold"})
    r = vlib.tlc(tspec, "ClusterTxn", tcfg % (tn, "FALSE", "TypeOK C19_TxnOncePerRun"), work, timeout=3000, name="ClusterTxnPlain")
    vlib.tlc_ok(r, "ClusterTxn.tla RealMulti=FALSE (once per run)")
    states += r["distinct"]
    trans += r["generated"]
    druns.append({"spec": "ClusterTxn", "RealMulti": False, "N": tn, "B": 2, "invariants": ["TypeOK", "C19_TxnOncePerRun"], "distinct": r["distinct"], "result": "hold"})
    for inv in ("C19_NoSkip", "C19_StoredPositionIsExecuted", "C19_NoSilentLoss"):
        r = vlib.tlc(tspec, "ClusterTxn", tcfg % (5, "FALSE", inv), work, timeout=3000, name="ClusterTxnCtl" + inv[4:])
        if inv not in r["invariant_violated"]:
            raise vlib.HarnessError("ClusterTxn.tla with RealMulti = FALSE: %s was expected to be refuted (design-level form of the recorded finding)" % inv)
        druns.append({"spec": "ClusterTxn", "RealMulti": False, "N": 5, "B": 2, "invariants": [inv], "result": "refuted (recorded finding C19-cluster-txn-*)"})
    shards = vlib.NCPU
    n, cmds_, nhot = (640, 8, 1600) if tier == "quick" else (3200, 12, 6400)
    trace = os.path.join(work, "trace.ndjson")
    nscen = nexec = nmig = 0
    modes = {}
    open(trace, "w").close()
    # second run: hot-key streams in blocking mode only (the in-batch routing race needs many tries)
    for tag, flags in (("mix", ["-n", str(n), "-max-cmds", str(cmds_), "-hot", "4"]),
                       ("hotbatch", ["-n", str(nhot), "-hot", "1", "-mode", "batch", "-id-base", "1000000"])):
        cmds = [[drv, "-seed", str(seed)] + flags + ["-shard", str(i), "-shards", str(shards),
                 "-out", os.path.join(work, "%s%d.ndjson" % (tag, i)), "-stats", os.path.join(work, "%s%d.json" % (tag, i))] for i in range(shards)]
        for ci, (rc, out) in enumerate(vlib.run_parallel(cmds, timeout=6000)):
            if rc != 0:
                # the driver is the tool's replay in a process of the harness: if it dies of a Go panic raised inside the
                # repository's own code - twice, on the same scenarios - the tool crashes where C19 demands a retry or a
                # reported restart.  Anything else that kills the driver is a harness error.
                if repo_panic(out):
                    rc2, out2 = vlib.run_parallel([cmds[ci]], timeout=6000)[0]
                    if rc2 != 0 and repo_panic(out2):
                        path = vlib.save_replay(prop, "crash-%s%d" % (tag, ci), {"property": prop, "invariants": ["C19_ToolCrashedWhileReplaying"],
                                                                                "command": cmds[ci], "first": out[-4000:], "second": out2[-4000:]})
                        crashes.append({"replay": path, "what": "C19_ToolCrashedWhileReplaying: the replay process died of a panic in the tool's own code, twice on the same scenarios (%s): %s" % (
                            " ".join(cmds[ci][1:9]), panic_head(out2))})
                        # the shard's trace is incomplete: leave it out
                        open(os.path.join(work, "%s%d.ndjson" % (tag, ci)), "w").close()
                        vlib_json = {"scenarios": 0, "executed": 0, "with_migration": 0, "modes": {}}
                        json.dump(vlib_json, open(os.path.join(work, "%s%d.json" % (tag, ci)), "w"))
                        continue
                raise vlib.HarnessError("clusterdrv failed (%d):\n%s" % (rc, out[-3000:]))
        with open(trace, "a") as w:
            for i in range(shards):
                s = json.load(open(os.path.join(work, "%s%d.json" % (tag, i))))
                nscen += s["scenarios"]
                nexec += s["executed"]
                nmig += s["with_migration"]
                for k, v in s["modes"].items():
                    modes[k] = modes.get(k, 0) + v
                shutil.copyfileobj(open(os.path.join(work, "%s%d.ndjson" % (tag, i))), w)
                os.remove(os.path.join(work, "%s%d.ndjson" % (tag, i)))
    viol, tr = vlib.tlc_trace([os.path.join(SPEC, "trace", "TraceCluster.tla")], "TraceCluster", trace, work, timeout=6000)
    violations, known = list(crashes), []
    if viol:
        lines = open(trace).read().splitlines()
        # one verdict per scenario: its first violation is the cause, later ones in the same scenario are consequences
        first = {}
        for v in sorted(viol, key=lambda x: x["line"]):
            names = sorted(n_ for n_ in v["names"] if n_.startswith(prop + "_"))
            if names and v["trace"] not in first:
                first[v["trace"]] = (v, names)
        for tid, (v, names) in sorted(first.items()):
            j = v["line"] - 1
            while j > 0 and json.loads(lines[j])["ev"] != "Reset":
                j -= 1
            k = v["line"]
            while k < len(lines) and json.loads(lines[k])["ev"] != "Reset":
                k += 1
            evs = [json.loads(x) for x in lines[j:k]]
            hdr = evs[0]
            rets = [e for e in evs if e["ev"] == "Return"]
            executed = {e["idx"] for e in evs if e["ev"] == "Exec"}
            # which keys are out of order at this event, and was the slot of one of them handed over before?
            keys_of = hdr["keysOf"]
            last, bad_keys = {}, set()
            for e in evs[1:v["line"] - j]:
                if e["ev"] == "Exec" and e.get("idx", 0) > 0:
                    for kk in keys_of[e["idx"] - 1]:
                        o = sum(1 for q in range(e["idx"]) if kk in keys_of[q])
                        if o > last.get(kk, 0) + 1:
                            # the keys of the commands that were jumped over (a multi-key command drags its other keys in)
                            seen_ord = 0
                            for q in range(e["idx"]):
                                if kk in keys_of[q]:
                                    seen_ord += 1
                                    if last.get(kk, 0) < seen_ord < o:
                                        bad_keys.update(keys_of[q])
                            bad_keys.add(kk)
                        last[kk] = o
            at = evs[v["line"] - j - 1]
            if at["ev"] == "Return":
                bad_keys = {kk for kk in range(1, hdr["nkeys"] + 1) if last.get(kk, 0) != sum(1 for q in keys_of if kk in q)}
            moved = {e["k"] for e in evs[:v["line"] - j] if e["ev"] == "Mig"}
            # keys of one hash tag share a slot: the hand-over of one key's slot hands the other over as well
            slot_of = hdr.get("slotOf") or []
            moved |= {kk for kk in range(1, len(slot_of) + 1) if any(m <= len(slot_of) and slot_of[kk - 1] == slot_of[m - 1] for m in moved)}
            sig = {"invariant": names[0], "txn": hdr["txn"], "pipe": hdr["pipe"],
                   # a jump over a command while the run goes on ("exec"), or a key that ends on a stale value ("return")
                   "at": "return" if at["ev"] == "Return" else "exec",
                   "violating_key_migrated": bool(bad_keys & moved) or names[0] != "C19_PerKeyOrderBroken",
                   "migrated_before": any(e["ev"] == "Mig" for e in evs[:v["line"] - j]),
                   "first_run_reported_error": bool(rets and rets[0]["err"]),
                   "lost_without_error": bool(rets and not rets[-1]["err"] and executed != set(range(1, len(hdr["keysOf"]) + 1)))}
            f = vlib.known_match(prop, sig)
            if f:
                known.append(f)
                continue
            if len(violations) >= 10:
                continue
            path = vlib.save_replay(prop, "c%d" % tid, {"property": prop, "invariants": names, "signature": sig, "at_event": v["line"] - j, "events": evs})
            violations.append({"replay": path, "what": "%s in %s mode at event %d of scenario %d (%s): executed order %s, final lists %s, returns %s" % (
                ",".join(names), hdr["mode"], v["line"] - j, tid, sig, [e["idx"] for e in evs if e["ev"] == "Exec"],
                rets[-1]["final"] if rets else None, [(r_["err"], r_["text"][:60]) for r_ in rets])})
    # ---- bidirectional units (the txn batcher: MULTI, marker, business, record, index, EXEC to one node) while the slot
    # of one unit is handed over: at the unit's marker, at its first business command or at its EXEC; at once (MOVED) or as a
    # migration in progress (ASK, finished later).  The trace lists what took effect; TraceBisync.tla's rules apply as they are.
    bdrv = vlib.build_driver("bisyncdrv", work)
    nb = 96 if tier == "quick" else 960
    cmds = [[bdrv, "-cluster", "-mig", "-seed", str(seed), "-n", str(nb), "-max-units", "5", "-id-base", "7000000", "-shard", str(i), "-shards", str(shards),
             "-out", os.path.join(work, "bm%d.ndjson" % i), "-stats", os.path.join(work, "bm%d.json" % i)] for i in range(shards)]
    for rc, out in vlib.run_parallel(cmds, timeout=6000):
        if rc != 0:
            raise vlib.HarnessError("bisyncdrv -mig failed (%d):\n%s" % (rc, out[-3000:]))
    btrace = os.path.join(work, "bmtrace.ndjson")
    bscen, bkinds = 0, {}
    with open(btrace, "w") as w:
        for i in range(shards):
            st = json.load(open(os.path.join(work, "bm%d.json" % i)))
            bscen += st["scenarios"]
            for k, v_ in (st.get("refuse_kinds") or {}).items():
                bkinds[k] = bkinds.get(k, 0) + v_
            shutil.copyfileobj(open(os.path.join(work, "bm%d.ndjson" % i)), w)
    bviol, btr = vlib.tlc_trace([os.path.join(SPEC, "trace", "TraceBisync.tla")], "TraceBisync", btrace, work, timeout=6000)
    rename = {"C14_UnitNeverCommitted": "C19_UnitLostUnderHandOver", "C14_SyncModeRepeatedUnit": "C19_UnitExecutedTwice", "C14_UnitSplit": "C19_UnitSplit",
              "C14_RestartFails": "C19_RestartFailsAfterHandOver"}
    if bviol:
        blines = open(btrace).read().splitlines()
        bseen = set()
        for v in sorted(bviol, key=lambda x: x["line"]):
            if v["trace"] in bseen:
                continue
            bseen.add(v["trace"])
            j = v["line"] - 1
            while j > 0 and json.loads(blines[j])["ev"] != "Reset":
                j -= 1
            k = v["line"]
            while k < len(blines) and json.loads(blines[k])["ev"] != "Reset":
                k += 1
            evs = [json.loads(x) for x in blines[j:k]]
            hdr = evs[0]
            migs = [e for e in evs if e["ev"] == "Mig"]
            names = sorted(rename.get(n_, "C19_UnderHandOver:" + n_) for n_ in v["names"])
            sig = {"invariant": names[0], "bisync": True, "mode": hdr["mode"], "hand_over": (migs[0]["kind"] + "@" + migs[0]["at"]) if migs else "none"}
            f = vlib.known_match(prop, sig)
            if f:
                known.append(f)
                continue
            if len(violations) >= 10:
                continue
            path = vlib.save_replay(prop, "bm%d" % v["trace"], {"property": prop, "invariants": names, "signature": sig, "at_event": v["line"] - j, "events": evs})
            violations.append({"replay": path, "what": "%s: bidirectional link in %s mode, hand-over %s, at event %d of scenario %d: units=%s; last events %s" % (
                ",".join(names), hdr["mode"], sig["hand_over"], v["line"] - j, v["trace"], [(u["s"], u["e"], u["n"]) for u in hdr["units"]],
                [json.dumps(e)[:160] for e in evs[max(0, v["line"] - j - 4):v["line"] - j]])})
    nscen += bscen
    cov = {"bidirectional_units_under_hand_over": {"scenarios": bscen, "by_hand_over": bkinds, "trace_events_checked": btr["distinct"]},
           "states": states, "transitions": trans, "traces_validated_against_impl": nscen, "samples": vlib.trace_samples(trace), "exhaustive": False,
           "executed_commands": nexec, "scenarios_with_migrations": nmig, "scenarios_by_mode": modes, "d_layer_runs": druns,
           "trace_events_checked": tr["distinct"],
           "explanation": "streams of <= %d RPUSH commands (and, where two keys share a tag, three-key DEL commands) over 2-4 hash-tagged keys (every 4th scenario: one hot key, 10-17 commands, single-command batches) "
                          "replayed by the real RedisOutput into a three-node cluster fake in blocking, pipelined, transactional and transactional-pipelined mode; "
                          "0-2 slot migrations per scenario (instant hand-over = MOVED, or begin / move keys / finish = ASK window) fired at request counts; "
                          "after every reported error the replay restarts from the stored position (<= 4 runs)" % cmds_}
    vlib.write_evidence(prop, tier, seed, "model_checking", cov,
                        ["bidirectional units: one hand-over per scenario, two nodes (the unit's slot moves to the other node and stays there)",
                         "a node that fails for good (the failing node of the fail-fast scenarios refuses one request and recovers)",
                         "commands other than RPUSH and the three-key DEL of a tag pair (TRYAGAIN while one of the keys has moved)"],
                        time.time() - t0, len(violations))
    vlib.conclude(prop, violations, known)
