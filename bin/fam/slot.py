"""C11 — key-to-slot computation.

D layer : spec/SlotScan.tla — the one-pass routing algorithm equals the definitional
          HASH_SLOT (spec/env/Slot.tla) for every string over a brace alphabet up to the
          bound; TLC writes every (string, slot) case.
P layer : spec/trace/TraceSlot.tla judges the observations recorded from every real slot
          computation site on those strings plus seeded random byte strings."""
import json, os, time
import vlib

SPEC = os.path.join(vlib.VERIF, "spec")


def check(prop, tier, seed, replay):
    t0 = time.time()
    work = vlib.scratch(prop)
    try:
        _check(prop, tier, seed, replay, work, t0)
    finally:
        vlib.cleanup(work)


def _check(prop, tier, seed, replay, work, t0):
    drv = vlib.build_driver("slotdrv", work)
    maxlen = 6 if tier == "quick" else 7
    cases = os.path.join(work, "cases.ndjson")
    cfg = ('SPECIFICATION Spec\nCONSTANTS\n  Alphabet = {123, 125, 97, 98}\n  MaxLen = %d\n  CasesFile = "%s"\n'
           'INVARIANTS ScanAgreesWithDefinition SlotInRange\nCHECK_DEADLOCK FALSE\nPOSTCONDITION Cases\n' % (maxlen, cases))
    r = vlib.tlc([os.path.join(SPEC, "env", "Slot.tla"), os.path.join(SPEC, "SlotScan.tla")], "SlotScan", cfg, work, timeout=1800)
    vlib.tlc_ok(r, "SlotScan.tla")
    if not os.path.exists(cases):
        raise vlib.HarnessError("TLC did not write the case file")
    obs = os.path.join(work, "observed.ndjson")
    st = os.path.join(work, "stats.json")
    nrand, rlen, ntags = (1500, 40, 256) if tier == "quick" else (6000, 300, 16384)
    if replay:
        rp = json.load(open(replay))
        open(cases, "w").write(json.dumps({"k": rp["key"], "slot": 0}) + "\n")
        nrand, ntags = 0, 1
    vlib.sh([drv, "-cases", cases, "-out", obs, "-stats", st, "-seed", str(seed), "-nrand", str(nrand),
             "-max-rand-len", str(rlen), "-ntags", str(ntags)], env=vlib.GOENV, timeout=600)
    stats = json.load(open(st))
    viol, tr = vlib.tlc_trace([os.path.join(SPEC, "env", "Slot.tla"), os.path.join(SPEC, "trace", "TraceSlot.tla")],
                              "TraceSlot", obs, work, timeout=3000, trace_name="observed.ndjson")
    lines = None
    violations, known = [], []
    for v in viol[:50]:
        if lines is None:
            lines = open(obs).read().splitlines()
        rec = json.loads(lines[v["line"] - 1])
        sig = {"invariant": v["names"][0], "site": rec.get("site")}
        f = vlib.known_match(prop, sig)
        if f:
            known.append(f)
            continue
        path = vlib.save_replay(prop, "obs%d" % v["line"], {"property": prop, "invariants": v["names"], "key": rec.get("k"), "observation": rec})
        violations.append({"replay": path, "what": "%s: site %s key %s observed %s" % (",".join(v["names"]), rec.get("site"),
                           bytes(rec.get("k", [])), {k: rec[k] for k in rec if k in ("slot", "accept", "lo", "hi")})})
    cov = {"states": r["distinct"], "transitions": r["generated"], "traces_validated_against_impl": stats["observations"],
           "samples": stats["samples"], "exhaustive": True,
           "explanation": "exhaustive over all strings of length <= %d over the alphabet { } a b (every brace arrangement) at the sites KeyToSlot, "
                          "cluster.GetSlot, slot filter decision, bisync slot tags; plus %d seeded random byte strings (non-UTF-8, braces sprinkled); a seventh of the keys "
                          "and a sample of the random ones are also replayed as one-key units through the real bidirectional replay (incremental path, snapshot path, "
                          "snapshot path with hash-tag stripping) into a cluster fake: the slot each unit is bound to (slot tag of its marker key) against "
                          "HASH_SLOT of the key it writes, and no one-key unit refused" % (maxlen, nrand),
           "replay_units_observed": stats.get("unit_slots", 0),
           "tlc_cases": stats["tlc_cases"], "random_keys": stats["random"], "slot_tags_checked": stats["tags"],
           "distinct_keys": stats["keys"]}
    vlib.write_evidence(prop, tier, seed, "model_checking", cov,
                        ["HASH_SLOT definition transcribed from Redis cluster.c keyHashSlot into spec/env/Slot.tla (CRC16/XMODEM check value 0x31C3 asserted)",
                         "exhaustive only for the brace alphabet up to the bound; longer / arbitrary byte strings are sampled"],
                        time.time() - t0, len(viol))
    vlib.conclude(prop, violations, known)
