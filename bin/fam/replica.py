"""C16 — a follower's cache is a faithful copy of the leader's stream.

D layer : spec/Replica.tla — leader and follower caches as (id, range) pairs over histories, the
          handshake / prepare / meta / transfer protocol with interruption after any message, the
          follower's clear and relabel rules; FollowerIsCopy, Contiguous, no hand-over to foreign ids.
P layer : spec/trace/TraceReplica.tla judges runs of the real ReplicaLeader.Handle (loopback gRPC
          server) and ReplicaFollower.Run between two real caches (disk / memory) populated by real
          writers with bytes that are a function of (history, offset): generated pairs of cache states,
          transport failure at the k-th message, appends at the leader during the transfer, raw requests
          with stale ids / offsets.  The follower's cache is read back (same object and reopened)."""
import json, os, time, shutil
import vlib

SPEC = os.path.join(vlib.VERIF, "spec")
DCFG = "SPECIFICATION Spec\nCONSTANTS\n  MaxOff = %d\n  FixDiscardForeign = TRUE\n  ReaderEndsAtReset = %s\nINVARIANTS TypeOK C16_FollowerIsCopy C16_Contiguous C16_NoHandoverToForeign\nCHECK_DEADLOCK FALSE\n"


def check(prop, tier, seed, replay):
    t0 = time.time()
    work = vlib.scratch(prop)
    try:
        _check(prop, tier, seed, replay, work, t0)
    finally:
        vlib.cleanup(work)


def _check(prop, tier, seed, replay, work, t0):
    drv = vlib.build_driver("replicadrv", work)
    r = vlib.tlc([os.path.join(SPEC, "Replica.tla")], "Replica", DCFG % (3 if tier == "quick" else 4, "TRUE"), work, timeout=3000, name="ReplicaD")
    vlib.tlc_ok(r, "Replica.tla")
    # control: the design in which a reader opened on the old history falls through into the new one is refuted
    rc_ = vlib.tlc([os.path.join(SPEC, "Replica.tla")], "Replica", DCFG % (3, "FALSE"), work, timeout=3000, name="ReplicaCtl")
    if "C16_FollowerIsCopy" not in rc_["invariant_violated"]:
        raise vlib.HarnessError("Replica.tla with ReaderEndsAtReset = FALSE: C16_FollowerIsCopy was expected to be refuted (vacuity control)")
    states, trans = r["distinct"], r["generated"]
    shards = vlib.NCPU
    n = 640 if tier == "quick" else 6400
    cdir = os.path.join(work, "caches")
    os.makedirs(cdir, exist_ok=True)
    cmds = [[drv, "-seed", str(seed), "-n", str(n), "-work", cdir, "-shard", str(i), "-shards", str(shards),
             "-out", os.path.join(work, "t%d.ndjson" % i), "-stats", os.path.join(work, "s%d.json" % i)] for i in range(shards)]
    for rc, out in vlib.run_parallel(cmds, timeout=6000):
        if rc != 0:
            raise vlib.HarnessError("replicadrv failed (%d):\n%s" % (rc, out[-3000:]))
    trace = os.path.join(work, "trace.ndjson")
    nscen = 0
    kinds = {}
    with open(trace, "w") as w:
        for i in range(shards):
            s = json.load(open(os.path.join(work, "s%d.json" % i)))
            nscen += s["scenarios"]
            for k, v in s["follower_kinds"].items():
                kinds[k] = kinds.get(k, 0) + v
            shutil.copyfileobj(open(os.path.join(work, "t%d.ndjson" % i)), w)
    viol, tr = vlib.tlc_trace([os.path.join(SPEC, "trace", "TraceReplica.tla")], "TraceReplica", trace, work, timeout=6000)
    violations, known = [], []
    lines = open(trace).read().splitlines() if viol else []
    for v in viol:
        names = sorted(n_ for n_ in v["names"] if n_.startswith(prop + "_"))
        if not names:
            continue
        ev = json.loads(lines[v["line"] - 1])
        sig = {"invariant": names[0], "kind": ev.get("fkind", "direct"), "backend": "disk" if ev["disk"] else "memory"}
        f = vlib.known_match(prop, sig)
        if f:
            known.append(f)
            continue
        if len(violations) >= 10:
            continue
        path = vlib.save_replay(prop, "r%d" % v["trace"], {"property": prop, "invariants": names, "event": ev})
        brief = {k: ev[k] for k in ev if k not in ("held", "reopened")}
        violations.append({"replay": path, "what": "%s: %s | follower afterwards: %s" % (",".join(names), json.dumps(brief)[:600],
                           json.dumps([{k: h[k] for k in ("hist", "left", "right", "readable", "match", "firstBad", "rdbLeft", "rdbSize", "rdbRead", "rdbMatch", "readerErr")} for h in ev.get("held", [])])[:900])})
    # ---- hand-over end to end: leader A (real RunLeader) feeds the target while follower B (real RunFollower) copies
    # A's cache over gRPC; A stops, B is promoted and carries on from its copy and the target's stored position
    ha = vlib.build_driver("hadrv", work)
    nh = 64 if tier == "quick" else 640
    hwork = os.path.join(work, "ha")
    os.makedirs(hwork)
    cmds = [[ha, "-seed", str(seed), "-n", str(nh), "-work", hwork, "-shard", str(i), "-shards", str(shards),
             "-out", os.path.join(work, "h%d.ndjson" % i), "-stats", os.path.join(work, "hs%d.json" % i)] for i in range(shards)]
    for rc, out in vlib.run_parallel(cmds, timeout=6000):
        if rc != 0:
            raise vlib.HarnessError("hadrv failed (%d):\n%s" % (rc, out[-3000:]))
    htrace = os.path.join(work, "ha.ndjson")
    ha_scen = 0
    with open(htrace, "w") as w:
        for i in range(shards):
            ha_scen += json.load(open(os.path.join(work, "hs%d.json" % i)))["scenarios"]
            shutil.copyfileobj(open(os.path.join(work, "h%d.ndjson" % i)), w)
    hviol, htr = vlib.tlc_trace([os.path.join(SPEC, "trace", "TraceE2E.tla")], "TraceE2E", htrace, work, timeout=3000, extra_constants='CONSTANT Prop = "C16"\n')
    hlines = open(htrace).read().splitlines() if hviol else []
    reuse = {"full": 0, "continue_from_target_position": 0, "continue_beyond_target_position": 0, "other": 0}
    for x in open(htrace).read().splitlines():
        e = json.loads(x)
        ps = e["psync"][e["psyncBeforeHandover"]:]
        if not ps:
            reuse["other"] += 1
        elif ps[0]["reply"] == "full":
            reuse["full"] += 1
        elif ps[0]["off"] - 1 > e["cpAtHandover"]:
            reuse["continue_beyond_target_position"] += 1
        elif ps[0]["off"] - 1 == e["cpAtHandover"]:
            reuse["continue_from_target_position"] += 1
        else:
            reuse["other"] += 1
    for v in hviol:
        rec = json.loads(hlines[v["line"] - 1])
        names = sorted(n_ for n_ in v["names"] if n_.startswith(prop + "_"))
        if not names:
            continue
        sig = {"invariant": names[0], "kind": "handover", "backend": "disk"}
        f = vlib.known_match(prop, sig)
        if f:
            known.append(f)
            continue
        if len(violations) >= 10:
            continue
        path = vlib.save_replay(prop, "h%d" % v["trace"], {"property": prop, "invariants": names, "event": rec})
        violations.append({"replay": path, "what": "%s (leader hand-over, end to end): txn=%s faults=%s commands=%d initial=%s total=%s lists=%s psync=%s complete=%s" % (
            ",".join(names), rec["txn"], rec["faults"], rec["ncmds"], rec["initial"], rec["total"], rec["lists"],
            [(p_["id"], p_["off"] - rec["base"], p_["reply"]) for p_ in rec["psync"]], rec["complete"])})
    nscen += ha_scen
    samples = [json.loads(x) for x in open(trace).read().splitlines()[:3]]
    for s_ in samples:
        s_.pop("held", None)
        s_.pop("reopened", None)
    cov = {"states": states, "transitions": trans, "traces_validated_against_impl": nscen, "samples": samples, "exhaustive": False,
           "scenarios_by_follower_state": kinds, "trace_events_checked": tr["distinct"],
           "handover_scenarios": ha_scen, "first_psync_of_promoted_follower": reuse,
           "d_layer_runs": [{"spec": "Replica", "distinct": r["distinct"]}],
           "explanation": "leader caches (log only / snapshot only / snapshot + log, 1 B - 12 KB, several segments) x follower states (empty, prefix, equal, ahead, "
                          "ended before the leader's range, other history with and without the id still in process memory, other history numerically ahead) x "
                          "disk / memory back end, transport failure at the 2nd-7th leader message in a third of the runs, up to 9 KB appended at the leader "
                          "while the follower is connected in half of them; a fifth of the scenarios are raw requests (same / foreign id, offset beyond, at, "
                          "inside, below the leader's range); plus %d end-to-end hand-overs: two real syncer instances (leader with PSYNC client / cache / output, follower copying over gRPC), the leader stops, the follower is promoted and the target's final lists are judged" % ha_scen}
    vlib.write_evidence(prop, tier, seed, "model_checking", cov,
                        ["one protocol round per scenario (the follower is stopped instead of waiting out its 1-3 s back-off)",
                         "the > 10 MiB gap rule of preSync is not reached with these sizes", "leader id change between handshake and sync is emulated by raw requests only"],
                        time.time() - t0, len(violations))
    vlib.conclude(prop, violations, known)
