"""C03 / C04 / C20 — snapshot replay family.

D layer : spec/FullSync.tla (parser -> distributor -> workers -> result collection with parser errors,
          target errors and cancellation at every instant), model-checked exhaustively.
Inputs  : harness/rdbgen, an independent RDB encoder (every encoding of the property's list except
          streams/modules/functions) with boundary integers, empty / binary / long elements.
P layer : spec/trace/TraceFullSync.tla judges each real RedisOutput.Send (snapshot path) against the
          abstract dataset that was encoded: C03 dataset reproduced (+ RESTORE payload exact),
          C04 faults (truncation, byte alteration, target error, cancellation with the window held
          open by a gated reply; loader-level enumeration of every truncation / alteration),
          C20 key-exists policies with prior target contents."""
import json, os, sys, time, shutil
import vlib

SPEC = os.path.join(vlib.VERIF, "spec")

DCFG = """SPECIFICATION Spec
CONSTANTS
  NEntries = %d
  W = %d
  PipeCap = %d
  WPipeCap = %d
  FixCancel = TRUE
INVARIANTS C04_CheckpointImpliesComplete C03_NoFaultCompletes TypeOK
CHECK_DEADLOCK FALSE
"""

MODES = {"C03": ["sync"], "C04": ["fault", "loader"], "C20": ["policy"]}


def check(prop, tier, seed, replay):
    t0 = time.time()
    work = vlib.scratch(prop)
    try:
        _check(prop, tier, seed, replay, work, t0)
    finally:
        vlib.cleanup(work)


def _limit_as():
    import resource
    resource.setrlimit(resource.RLIMIT_AS, (24 << 30, 24 << 30))


def _reproduce_crash(drv, work, prop, mode, seed, n, stride, shards, shard, out):
    """The driver died (Go fatal error / unrecovered panic).  If it was handling a damaged snapshot, run that input again in a
    process of its own with a bounded address space: dies again -> the real code crashes on damaged input (C04);
    survives -> the death was the harness's or the machine's, a harness error."""
    import subprocess
    cur = os.path.join(work, "%s%d.ndjson.cur" % (mode, shard))
    if prop != "C04" or not os.path.exists(cur):
        return None
    info = json.load(open(cur))
    if mode == "loader" and info.get("damaged"):
        cmd = [drv, "-mode", "loader-one", "-input", cur + ".bin"]
    else:
        cmd = [drv, "-mode", mode, "-seed", str(seed), "-n", str(n), "-flip-stride", str(stride), "-shard", str(shard), "-shards", str(shards),
               "-only", str(info["i"]), "-base", str(info.get("base", 0)), "-variant", str(info.get("variant", -1)), "-input", cur + ".bin", "-out", os.path.join(work, "re.ndjson"), "-stats", os.path.join(work, "re.json")]
    died = 0
    last = ""
    for _ in range(2):
        try:
            p = subprocess.run(cmd, env=vlib.GOENV, stdout=subprocess.PIPE, stderr=subprocess.STDOUT, text=True, errors="replace", timeout=900, preexec_fn=_limit_as)
        except subprocess.TimeoutExpired:
            return None
        last = p.stdout
        if p.returncode != 0 and ("fatal error:" in last or "panic:" in last or "(hang)" in last) and "HARNESS-ERROR" not in last.split("goroutine")[0]:
            died += 1
    if died < 2:
        print("the death of the driver did not reproduce in isolation (%d of 2): %s ... %s" % (died, last[:300], last[-300:]), file=sys.stderr)
        return None
    head = last[:last.find("\n\n")] if "\n\n" in last else last[:400]
    hang = [x for x in last.splitlines() if "(hang)" in x]
    if hang:
        head = hang[0]
    frames = [x.strip() for x in last.splitlines() if "redis-GunYu/" in x and "(" in x][:6]
    rep = {"property": prop, "invariants": ["C04_DamagedInputHangs" if hang else "C04_CrashOnDamagedInput"], "mode": mode, "seed": seed, "scenario_index": info["i"], "command": cmd[1:], "death": head, "frames": frames}
    if mode == "loader" and info.get("damaged"):
        rep["damaged_snapshot_hex"] = open(cur + ".bin", "rb").read().hex()
    path = vlib.save_replay(prop, "crash%d" % shard, rep)
    return {"replay": path, "what": "%s: the process %s on a damaged snapshot (%s) in %s" % (rep["invariants"][0], "hangs" if hang else "dies", head.splitlines()[0] if head else "?", frames[:3])}


def _check(prop, tier, seed, replay, work, t0):
    drv = vlib.build_driver("fullsyncdrv", work)
    states = trans = 0
    druns = []
    for cfg in ([(4, 2, 2, 1), (3, 2, 1, 1)] if tier == "quick" else [(5, 2, 2, 1), (4, 3, 2, 1), (4, 2, 1, 2)]):
        r = vlib.tlc([os.path.join(SPEC, "FullSync.tla")], "FullSync", DCFG % cfg, work, timeout=3000, name="FullSyncD")
        vlib.tlc_ok(r, "FullSync.tla %s" % (cfg,))
        states += r["distinct"]
        trans += r["generated"]
        druns.append({"NEntries": cfg[0], "W": cfg[1], "PipeCap": cfg[2], "WPipeCap": cfg[3], "distinct": r["distinct"]})
    shards = vlib.NCPU
    trace = os.path.join(work, "trace.ndjson")
    nscen = nkeys = 0
    encs = {}
    samples = []
    with open(trace, "w") as w:
        for mode in MODES[prop]:
            if mode == "loader":
                n, stride = (16, 32) if tier == "quick" else (64, 4)
            else:
                n, stride = (480 if tier == "quick" else 96000), 8
                if mode == "fault":
                    n = 320 if tier == "quick" else 3200
            cmds = [[drv, "-mode", mode, "-seed", str(seed), "-n", str(n), "-flip-stride", str(stride), "-shard", str(i), "-shards", str(shards),
                     "-out", os.path.join(work, "%s%d.ndjson" % (mode, i)), "-stats", os.path.join(work, "%s%d.json" % (mode, i))] for i in range(shards)]
            for i, (rc, out) in enumerate(vlib.run_parallel(cmds, timeout=3000)):
                if rc != 0:
                    crash = _reproduce_crash(drv, work, prop, mode, seed, n, stride, shards, i, out)
                    if crash:
                        cov = {"states": states, "transitions": trans, "traces_validated_against_impl": nscen, "samples": samples[:3], "exhaustive": False,
                               "explanation": "the driver process died while the real code handled a damaged snapshot; reproduced in a process of its own"}
                        vlib.write_evidence(prop, tier, seed, "model_checking", cov, [], time.time() - t0, 1)
                        vlib.conclude(prop, [crash], [])
                        return
                    raise vlib.HarnessError("fullsyncdrv %s failed (%d):\n%s" % (mode, rc, out[-3000:]))
            for i in range(shards):
                s = json.load(open(os.path.join(work, "%s%d.json" % (mode, i))))
                nscen += s["scenarios"]
                nkeys += s["keys"]
                for k, v in (s.get("encodings") or {}).items():
                    encs[k] = encs.get(k, 0) + v
                samples += (s.get("samples") or [])[:1]
                shutil.copyfileobj(open(os.path.join(work, "%s%d.ndjson" % (mode, i))), w)
    viol, tr = vlib.tlc_trace([os.path.join(SPEC, "trace", "TraceFullSync.tla")], "TraceFullSync", trace, work, timeout=3000)
    violations, known = [], []
    lines = open(trace).read().splitlines() if viol else []
    notrepro = 0
    for v in viol:
        names = sorted(n for n in v["names"] if n.startswith(prop + "_") or n.startswith("HARNESS"))
        if any(n.startswith("HARNESS") for n in names):
            raise vlib.HarnessError("harness inconsistency: %s at line %d" % (names, v["line"]))
        if not names:
            continue
        rec = json.loads(lines[v["line"] - 1])
        sig = {"invariant": names[0], "fault": rec.get("fault", ""), "policy": rec.get("policy", ""), "restore": rec.get("restore")}
        f = vlib.known_match(prop, sig)
        if f:
            known.append(f)
            continue
        if len(violations) >= 10:
            continue
        path = vlib.save_replay(prop, "s%d" % v["trace"], {"property": prop, "invariants": names, "scenario": rec})
        if rec.get("ev") == "Loader":
            what = "%s: parser accepted damaged snapshots %s" % (",".join(names), rec.get("silent") or rec.get("hangs"))
        else:
            bad = []
            fin = {(f_["db"], f_["key"]): f_ for f_ in rec["final"]}
            for e in rec["expect"]:
                f_ = fin.get((e["db"], e["key"]))
                if f_ is None or f_["t"] != e["t"] or f_["v"] != e["v"]:
                    bad.append("%s(%s/%s)" % (bytes.fromhex(e["key"]), e["t"], e["enc"]))
            what = "%s: restore=%s bulk=%s parallel=%s chunk=%s policy=%s rdb_version=%s fault=%s@%s ret=%s checkpoint=%s keys differing/missing: %s %s" % (
                ",".join(names), rec["restore"], rec["bulk"], rec["parallel"], rec["chunk"], rec["policy"], rec["version"], rec["fault"], rec["faultAt"],
                rec["ret"], rec["cp"] == rec["left"], bad[:5], rec.get("errtext", "")[:120])
        violations.append({"replay": path, "what": what})
    cov = {"states": states, "transitions": trans, "traces_validated_against_impl": nscen, "samples": samples[:3], "exhaustive": False,
           "snapshot_keys": nkeys, "encodings_exercised": encs, "d_layer_runs": druns,
           "explanation": {"C03": "seeded datasets over every generator encoding x RDB versions 6-12 x restore on/off x bulk limit x parallelism 1-3 x pipe sizes x chunking threshold x db map / target db / db blacklist",
                           "C04": "per dataset: random truncations, byte alterations, target error at a random data request, cancellation with the reply of a random data request withheld until all bytes are parsed; loader level: every truncation and every k-th alteration of every byte",
                           "C20": "three policies x prior contents of same / other type with and without expiry on half of the keys x both replay paths x chunked values"}[prop]}
    vlib.write_evidence(prop, tier, seed, "model_checking", cov,
                        ["rdbgen (independent encoder) is trusted base; streams, modules, functions and hash-field-TTL encodings are not generated",
                         "the fake target installs the abstract value on RESTORE only when the payload equals the generator's serialisation + a valid footer",
                         "expiry compared with a 3 s tolerance (relative TTLs cross two clocks)",
                         "damaged snapshots may make the parser allocate up to the corrupted length (observed multi-GB peaks): slowness is retried, only an unfinished parse is a hang"],
                        time.time() - t0, len(violations))
    vlib.conclude(prop, violations, known)
