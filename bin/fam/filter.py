"""C10 — filters pass exactly the configured set.

D layer : spec/FilterCases.tla enumerates every slot white/black list over a point set
          (all orders, overlapping/nested/adjacent) and checks algebraic consequences of the
          definitional semantics in spec/env/Filter.tla; the configurations are written out.
P layer : spec/trace/TraceFilter.tla judges every decision recorded from the real
          RedisKeyFilter (FilterSlot/FilterKey/FilterDb/FilterCmdKey) and from the real
          replication-stream parser (end to end) on those configurations plus seeded random
          ones (binary prefixes, multi-key commands, DB and command blacklists)."""
import json, os, time, shutil
import vlib

SPEC = os.path.join(vlib.VERIF, "spec")
FILES = [os.path.join(SPEC, "env", "Slot.tla"), os.path.join(SPEC, "env", "Filter.tla")]


def check(prop, tier, seed, replay):
    t0 = time.time()
    work = vlib.scratch(prop)
    try:
        _check(prop, tier, seed, replay, work, t0)
    finally:
        vlib.cleanup(work)


def _check(prop, tier, seed, replay, work, t0):
    drv = vlib.build_driver("filterdrv", work)
    cases = os.path.join(work, "cases.ndjson")
    states = trans = 0
    druns = []
    pts = "{0, 10, 20, 30, 16383}" if tier == "quick" else "{0, 1, 10, 20, 30, 16383}"
    with open(cases, "w") as allc:
        for i, (mw, mb) in enumerate([(3, 0), (2, 1)]):
            cf = os.path.join(work, "cases%d.ndjson" % i)
            cfg = ('SPECIFICATION Spec\nCONSTANTS\n  Points = %s\n  MaxWhite = %d\n  MaxBlack = %d\n  CasesFile = "%s"\n'
                   'INVARIANTS OrderIrrelevant BlackWins WhiteUnion\nCHECK_DEADLOCK FALSE\nPOSTCONDITION Cases\n' % (pts, mw, mb, cf))
            r = vlib.tlc(FILES + [os.path.join(SPEC, "FilterCases.tla")], "FilterCases", cfg, work, timeout=1800, name="FilterCases%d" % i)
            vlib.tlc_ok(r, "FilterCases.tla")
            states += r["distinct"]
            trans += r["generated"]
            druns.append({"MaxWhite": mw, "MaxBlack": mb, "points": pts, "distinct": r["distinct"]})
            shutil.copyfileobj(open(cf), allc)
    ncases = sum(1 for _ in open(cases))
    shards = vlib.NCPU
    nrand, ne2e = (40, 25) if tier == "quick" else (400, 250)
    cmds = [[drv, "-cases", cases, "-seed", str(seed), "-nrand", str(nrand), "-ne2e", str(ne2e), "-shard", str(i), "-shards", str(shards),
             "-out", os.path.join(work, "o%d.ndjson" % i), "-stats", os.path.join(work, "s%d.json" % i)] for i in range(shards)]
    for rc, out in vlib.run_parallel(cmds, timeout=1800):
        if rc != 0:
            raise vlib.HarnessError("filterdrv failed (%d):\n%s" % (rc, out[-3000:]))
    obs = os.path.join(work, "observed.ndjson")
    ncfg = nobs = 0
    samples = []
    with open(obs, "w") as w:
        for i in range(shards):
            s = json.load(open(os.path.join(work, "s%d.json" % i)))
            ncfg += s["configs"]
            nobs += s["observations"]
            samples += (s.get("samples") or [])[:1]
            shutil.copyfileobj(open(os.path.join(work, "o%d.ndjson" % i)), w)
    viol, tr = vlib.tlc_trace(FILES + [os.path.join(SPEC, "trace", "TraceFilter.tla")], "TraceFilter", obs, work, timeout=3000,
                              trace_name="observed.ndjson")
    lines = None
    violations, known = [], []
    for v in viol[:40]:
        if lines is None:
            lines = open(obs).read().splitlines()
        rec = json.loads(lines[v["line"] - 1])
        sig = {"invariant": v["names"][0], "site": rec.get("site")}
        f = vlib.known_match(prop, sig)
        if f:
            known.append(f)
            continue
        path = vlib.save_replay(prop, "obs%d" % v["line"], {"property": prop, "invariants": v["names"], "observation": rec})
        violations.append({"replay": path, "what": "%s: %s %s white=%s black=%s pw=%s pb=%s" % (
            ",".join(v["names"]), rec.get("site"), rec.get("name", ""), rec.get("white"), rec.get("black"),
            [bytes(x) for x in rec.get("pw", [])], [bytes(x) for x in rec.get("pb", [])])})
    # ---- the bidirectional replay applies the same filter: DEL / UNLINK / MSET with accepted and rejected keys, single and inside
    # transactions, must reach the target restricted to the accepted keys (the parser keeps the commands of a unit until it is sent)
    bdrv = vlib.build_driver("bisyncdrv", work)
    nb = 64 if tier == "quick" else 640
    bcmds = [[bdrv, "-filter", "-seed", str(seed), "-n", str(nb), "-max-units", "6", "-crash-stride", "1000000", "-id-base", "7000000",
              "-shard", str(i), "-shards", str(shards), "-out", os.path.join(work, "b%d.ndjson" % i), "-stats", os.path.join(work, "bs%d.json" % i)]
             + (["-cluster"] if i % 4 == 3 else []) for i in range(shards)]
    for rc, out in vlib.run_parallel(bcmds, timeout=3000):
        if rc != 0:
            raise vlib.HarnessError("bisyncdrv -filter failed (%d):\n%s" % (rc, out[-3000:]))
    btrace = os.path.join(work, "btrace.ndjson")
    bscen = 0
    with open(btrace, "w") as w:
        for i in range(shards):
            bscen += json.load(open(os.path.join(work, "bs%d.json" % i)))["scenarios"]
            shutil.copyfileobj(open(os.path.join(work, "b%d.ndjson" % i)), w)
    if bscen == 0:
        raise vlib.HarnessError("bisyncdrv -filter produced no scenario")
    bviol, _ = vlib.tlc_trace([os.path.join(SPEC, "trace", "TraceBisync.tla")], "TraceBisync", btrace, work, timeout=3000)
    blines = open(btrace).read().splitlines() if bviol else []
    bseen = set()
    for v in bviol:
        names = sorted(n for n in v["names"] if n.startswith(prop + "_"))
        if not names or v["trace"] in bseen or len(violations) >= 10:
            continue
        f = vlib.known_match(prop, {"invariant": names[0], "site": "bisync"})
        if f:
            known.append(f)
            continue
        bseen.add(v["trace"])
        j = v["line"] - 1
        while j > 0 and json.loads(blines[j])["ev"] != "Reset":
            j -= 1
        path = vlib.save_replay(prop, "bisync%d" % v["trace"], {"property": prop, "invariants": names, "events": [json.loads(x) for x in blines[j:v["line"]]]})
        violations.append({"replay": path, "what": "%s: bidirectional replay with the key filter prefixKeyBlacklist=[drop:], scenario %d, event %d: %s" % (
            ",".join(names), v["trace"], v["line"] - j, blines[max(j, v["line"] - 3):v["line"]])})
    nobs += bscen
    cov = {"states": states, "transitions": trans, "traces_validated_against_impl": nobs, "bidirectional_filter_scenarios": bscen, "samples": samples[:4] or [{"cases": ncases}],
           "exhaustive": True, "tlc_enumerated_range_configurations": ncases, "configurations_exercised": ncfg,
           "d_layer_runs": druns,
           "explanation": "slot-range lists: exhaustive over <=3 white / <=2 white+1 black ranges with end points in %s, probed at every boundary +-1; "
                          "prefix/db/command rules and DEL/UNLINK/MSET projection: seeded random configurations incl. non-UTF-8 bytes, "
                          "direct filter calls and end-to-end through parseAofCommand; the same projection through the bidirectional parser and sender "
                          "(single commands and transactions, standalone and cluster fake)" % pts}
    vlib.write_evidence(prop, tier, seed, "model_checking", cov,
                        ["key positions of the exercised commands are stated independently in the driver's command templates",
                         "reserved namespaces judged: redis-gunyu-checkpoint*, /redis-gunyu* (bisync namespace is covered by C13)",
                         "snapshot-path filtering is exercised by the full-sync checks"],
                        time.time() - t0, len(violations))
    vlib.conclude(prop, violations, known)
