"""C12 — stream decoding is lossless and offsets equal bytes consumed.

D layer : spec/RespCases.tla builds every command sequence (argument-length vectors crossing
          the digit boundaries, heartbeats) up to the bound and checks the offset arithmetic of
          spec/env/Resp.tla against the concrete byte encoding; each reachable stream is a case.
P layer : spec/trace/TraceResp.tla judges what the real Decoder, the real parser
          (parseAofCommand) and the real writer reported under fragmented reads."""
import json, os, time, shutil
import vlib

SPEC = os.path.join(vlib.VERIF, "spec")


def check(prop, tier, seed, replay):
    t0 = time.time()
    work = vlib.scratch(prop)
    try:
        _check(prop, tier, seed, replay, work, t0)
    finally:
        vlib.cleanup(work)


def _check(prop, tier, seed, replay, work, t0):
    drv = vlib.build_driver("respdrv", work)
    lens = "{0, 1, 9, 10, 100}" if tier == "quick" else "{0, 1, 9, 10, 99, 100}"
    cfg = ('SPECIFICATION Spec\nCONSTANTS\n  Lens = %s\n  MaxArgs = 3\n  MaxCmds = 2\n  MaxHb = %d\n'
           'INVARIANTS EncLenIsConcreteLength OffsetsPartitionTheStream EmitCase\nCHECK_DEADLOCK FALSE\n' % (lens, 1 if tier == "quick" else 2))
    r = vlib.tlc([os.path.join(SPEC, "env", "Resp.tla"), os.path.join(SPEC, "RespCases.tla")], "RespCases", cfg, work, timeout=3000)
    vlib.tlc_ok(r, "RespCases.tla")
    cases = os.path.join(work, "cases.txt")
    n = 0
    with open(cases, "w") as w:
        for line in r["out"].splitlines():
            if line.startswith('"CASE '):
                w.write(line + "\n")
                n += 1
    if n == 0:
        raise vlib.HarnessError("TLC printed no case")
    if replay:
        rp = json.load(open(replay))
        open(cases, "w").write(json.dumps({"cmds": [c[1:] for c in rp["observation"]["cmds"]], "hb": rp["observation"]["hb"]}) + "\n")
    shards = vlib.NCPU
    nrand, maxarg = (6, 300000) if tier == "quick" else (40, 4000000)
    if replay:
        nrand = 0
    cmds = [[drv, "-cases", cases, "-seed", str(seed), "-nrand", str(nrand), "-max-arg", str(maxarg), "-shard", str(i), "-shards", str(shards),
             "-out", os.path.join(work, "o%d.ndjson" % i), "-stats", os.path.join(work, "s%d.json" % i)] for i in range(shards)]
    for rc, out in vlib.run_parallel(cmds, timeout=3000):
        if rc != 0:
            raise vlib.HarnessError("respdrv failed (%d):\n%s" % (rc, out[-3000:]))
    obs = os.path.join(work, "observed.ndjson")
    nstreams = nobs = 0
    samples = []
    with open(obs, "w") as w:
        for i in range(shards):
            s = json.load(open(os.path.join(work, "s%d.json" % i)))
            nstreams += s["streams"]
            nobs += s["observations"]
            samples += (s.get("samples") or [])[:1]
            shutil.copyfileobj(open(os.path.join(work, "o%d.ndjson" % i)), w)
    viol, tr = vlib.tlc_trace([os.path.join(SPEC, "env", "Resp.tla"), os.path.join(SPEC, "trace", "TraceResp.tla")], "TraceResp", obs, work,
                              timeout=3000, trace_name="observed.ndjson")
    lines = None
    violations, known = [], []
    for v in viol[:30]:
        if lines is None:
            lines = open(obs).read().splitlines()
        rec = json.loads(lines[v["line"] - 1])
        sig = {"invariant": v["names"][0], "site": rec.get("site")}
        f = vlib.known_match(prop, sig)
        if f:
            known.append(f)
            continue
        path = vlib.save_replay(prop, "obs%d" % v["line"], {"property": prop, "invariants": v["names"], "observation": rec})
        if rec.get("site") == "ClusterEncoder":
            violations.append({"replay": path, "what": "%s at site ClusterEncoder (the cluster client's request encoder): sent argument lengths %s, the node received %s, bytes identical: %s" % (
                ",".join(v["names"]), rec["sent"], rec["got"], rec["same"])})
            continue
        violations.append({"replay": path, "what": "%s at site %s: arg lengths %s heartbeats %s reported %s" % (
            ",".join(v["names"]), rec["site"], rec["cmds"], rec["hb"], [(o["lens"], o["off"] - rec["start"], o["same"]) for o in rec["obs"]][:4])})
    cov = {"states": r["distinct"], "transitions": r["generated"], "traces_validated_against_impl": nobs, "samples": samples[:3],
           "exhaustive": True, "tlc_enumerated_streams": n, "streams_run": nstreams,
           "explanation": "all command sequences of <= 2 commands x <= 3 arguments with lengths in %s and heartbeats, each through Decoder (fragmented reads, "
                          "bufio 16/64/4096), parseAofCommand, Writer->Decoder and the cluster client's encoder -> a cluster node; plus seeded random streams with arguments up to %d bytes" % (lens, maxarg)}
    vlib.write_evidence(prop, tier, seed, "model_checking", cov,
                        ["argument contents (CR/LF, RESP type bytes, 0x00, 0xFF patterns) are compared byte-wise in the driver; TLC judges counts, lengths, the identity flag and offsets",
                         "offsets < 2^31"], time.time() - t0, len(viol))
    vlib.conclude(prop, violations, known)
