"""C14 — bidirectional replay resumes from the contiguous committed prefix.
C18 — cluster-mode bidirectional units are single-slot or refused.

D layer : spec/BisyncFrontier.tla (C14) — units, lanes, out-of-order completion, journal, frontier
          coordinator (save, then delete journal one request at a time), crash anywhere, recovery
          with journal cleanup; model-checked exhaustively.
          spec/UnitRoute.tla (C18) — the admission scan of a replay unit key by key against the
          definitional HASH_SLOT (spec/env/Slot.tla), the shape of the transaction sent; TLC
          enumerates every unit over a pool of brace arrangements with its verdict.
P layer : spec/trace/TraceBisync.tla judges the raw target requests of the real sendAofBisync in
          sync / pipeline / parallel mode: standalone fake and two-node cluster fake (lanes complete
          out of order), the target dying after every k-th write request, restarts and repeated
          restarts without traffic (C14); every unit TLC enumerated, plus generated streams with
          an unroutable last unit, replayed against the slot-checking cluster fake (C18)."""
import json, os, time, shutil, random
import vlib

SPEC = os.path.join(vlib.VERIF, "spec")
DCFG = "SPECIFICATION Spec\nCONSTANTS\n  N = %d\n  Lanes = %d\n  MaxCrashes = %d\n  FixRecovery = TRUE\nINVARIANTS C14_NoSkip C14_ResumeEndsCommittedUnit C14_ResumeMonotone\nCHECK_DEADLOCK FALSE\n"
UCFG = ("SPECIFICATION Spec\nCONSTANTS\n  Pool <- DefaultPool\n  ArgPool <- DefaultArgPool\n  MaxCmds = 2\n  MaxKeys = 2\n"
        "INVARIANTS C18_AdmitIffSingleSlot C18_NothingSentOnRefuse C18_TxnSingleSlot EmitCase\nCHECK_DEADLOCK FALSE\n")


def check(prop, tier, seed, replay):
    t0 = time.time()
    work = vlib.scratch(prop)
    try:
        _check(prop, tier, seed, replay, work, t0)
    finally:
        vlib.cleanup(work)


def drive(drv, work, tag, flags, stats):
    """run the driver on all cores, append the shard traces to trace.ndjson, merge the stats"""
    shards = vlib.NCPU
    cmds = [[drv] + flags + ["-shard", str(i), "-shards", str(shards),
             "-out", os.path.join(work, "%s%d.ndjson" % (tag, i)), "-stats", os.path.join(work, "%s%d.json" % (tag, i))] for i in range(shards)]
    for rc, out in vlib.run_parallel(cmds, timeout=6000):
        if rc != 0:
            raise vlib.HarnessError("bisyncdrv %s failed (%d):\n%s" % (tag, rc, out[-3000:]))
    with open(os.path.join(work, "trace.ndjson"), "a") as w:
        for i in range(shards):
            s = json.load(open(os.path.join(work, "%s%d.json" % (tag, i))))
            stats["scenarios"] += s["scenarios"]
            stats["requests"] += s["requests"]
            stats["by_run"][tag] = stats["by_run"].get(tag, 0) + s["scenarios"]
            for k, v in s["modes"].items():
                stats["modes"][k] = stats["modes"].get(k, 0) + v
            for k, v in (s.get("refuse_kinds") or {}).items():
                stats["kinds"][k] = stats["kinds"].get(k, 0) + v
            stats["samples"] += (s.get("samples") or [])[:1]
            p = os.path.join(work, "%s%d.ndjson" % (tag, i))
            shutil.copyfileobj(open(p), w)
            os.remove(p)


def _check(prop, tier, seed, replay, work, t0):
    drv = vlib.build_driver("bisyncdrv", work)
    states = trans = 0
    druns = []
    stats = {"scenarios": 0, "requests": 0, "modes": {}, "kinds": {}, "samples": [], "by_run": {}}
    # ids of the scenarios of different driver runs must not collide: each run gets its own id base
    if prop == "C14":
        for cfg in ([(4, 2, 2)] if tier == "quick" else [(5, 3, 3), (4, 2, 3)]):
            r = vlib.tlc([os.path.join(SPEC, "BisyncFrontier.tla")], "BisyncFrontier", DCFG % cfg, work, timeout=3000, name="BisyncFrontierD")
            vlib.tlc_ok(r, "BisyncFrontier.tla %s" % (cfg,))
            states += r["distinct"]
            trans += r["generated"]
            druns.append({"spec": "BisyncFrontier", "N": cfg[0], "Lanes": cfg[1], "MaxCrashes": cfg[2], "distinct": r["distinct"]})
        n, units, stride = (96, 6, 2) if tier == "quick" else (400, 9, 1)
        drive(drv, work, "standalone", ["-seed", str(seed), "-n", str(n), "-max-units", str(units), "-crash-stride", str(stride)], stats)
        n, units, stride = (32, 6, 2) if tier == "quick" else (160, 8, 1)
        drive(drv, work, "cluster", ["-cluster", "-id-base", "1000000", "-seed", str(seed), "-n", str(n), "-max-units", str(units), "-crash-stride", str(stride)], stats)
        expl = ("streams of <= %d units (single commands and transactions) x 3 modes on a standalone fake and on a two-node cluster fake "
                "(hash-tagged keys over several slots, delayed EXEC replies on one node so that lanes complete out of order), crash after every "
                "%d-th write request of the uncrashed run, second crash on a quarter, two restarts without traffic after half of the crashes" % (units, stride))
        notcov = ["the coordinator's timer-driven flush is not steered (it flushes at thresholds / run end)",
                  "slot migration of the cluster during a bidirectional replay"]
    else:
        r = vlib.tlc([os.path.join(SPEC, "env", "Slot.tla"), os.path.join(SPEC, "UnitRoute.tla")], "UnitRoute", UCFG, work, timeout=3000, name="UnitRouteD")
        vlib.tlc_ok(r, "UnitRoute.tla")
        states += r["distinct"]
        trans += r["generated"]
        lines = [x for x in r["out"].splitlines() if x.startswith('"CASE ')]
        if not lines:
            raise vlib.HarnessError("TLC printed no unit case")
        ok_lines = [x for x in lines if 'ok\\":true' in x]
        druns.append({"spec": "UnitRoute", "distinct": r["distinct"], "units": len(lines), "routable_units": len(ok_lines)})
        if tier == "quick":
            rnd = random.Random(seed)
            rest = [x for x in lines if 'ok\\":true' not in x]
            # every unroutable unit of ONE command (the admission of a single multi-key command is where key shapes meet),
            # a seeded sample of the two-command ones
            single = [x for x in rest if x.count('\\"kind\\"') == 1]
            rest = [x for x in rest if x.count('\\"kind\\"') != 1]
            rnd.shuffle(rest)
            lines = ok_lines + single + rest[:1000]
        cases = os.path.join(work, "cases.txt")
        open(cases, "w").write("\n".join(lines) + "\n")
        drive(drv, work, "cases", ["-cases", cases, "-id-base", "2000000", "-seed", str(seed)], stats)
        n, units = (48, 5) if tier == "quick" else (400, 8)
        drive(drv, work, "refuse", ["-cluster", "-refuse", "-id-base", "3000000", "-seed", str(seed), "-n", str(n * 2), "-max-units", str(units)], stats)
        drive(drv, work, "routable", ["-cluster", "-id-base", "4000000", "-seed", str(seed + 77), "-n", str(n // 2), "-max-units", str(units), "-crash-stride", "1000000"], stats)
        expl = ("%d of the %d units enumerated by UnitRoute.tla (1-2 commands x 1-2 keys over 11 brace / non-ASCII key shapes; plain, key-counted (EVAL numkeys ... arg, the argument looking like a key of another slot), dynamic (a module's command whose keys the target names on COMMAND GETKEYS) and opaque commands) each replayed "
                "after one routable unit; generated streams (<= %d units, tags with UTF-8 and non-UTF-8 bytes, six brace arrangements per tag) with and "
                "without an unroutable last unit of 10 kinds; 3 replay modes; two-node cluster fake that checks CROSSSLOT itself" % (len(lines), druns[0]["units"], units))
        notcov = ["transactions reduced by filters (no filter is configured in these runs)",
                  "COMMAND GETKEYS answers differing between the nodes of the cluster (every node of the fake knows the same module)"]
    trace = os.path.join(work, "trace.ndjson")
    viol, tr = vlib.tlc_trace([os.path.join(SPEC, "trace", "TraceBisync.tla")], "TraceBisync", trace, work, timeout=6000)
    violations, known = [], []
    lines = open(trace).read().splitlines() if viol else []
    seen = set()
    for v in viol:
        names = sorted(n_ for n_ in v["names"] if n_.startswith(prop + "_"))
        if not names:
            continue
        j = v["line"] - 1
        while j > 0 and json.loads(lines[j])["ev"] != "Reset":
            j -= 1
        hdr = json.loads(lines[j])
        sig = {"invariant": names[0], "mode": hdr["mode"], "cluster": hdr.get("cluster", False)}
        f = vlib.known_match(prop, sig)
        if f:
            known.append(f)
            continue
        if v["trace"] in seen or len(violations) >= 10:
            continue
        seen.add(v["trace"])
        path = vlib.save_replay(prop, "b%d" % v["trace"], {"property": prop, "invariants": names, "events": [json.loads(x) for x in lines[j:v["line"]]]})
        violations.append({"replay": path, "what": "%s in %s mode (%s target) at event %d of scenario %d: units=%s last events=%s" % (
            ",".join(names), hdr["mode"], "cluster" if hdr.get("cluster") else "standalone", v["line"] - j, v["trace"],
            [(u["s"], u["e"], u["n"], u.get("ok")) for u in hdr["units"]], lines[max(j, v["line"] - 4):v["line"]])})
    cov = {"states": states, "transitions": trans, "traces_validated_against_impl": stats["scenarios"], "samples": stats["samples"][:3], "exhaustive": False,
           "target_requests": stats["requests"], "scenarios_by_run": stats["by_run"], "base_streams_by_mode": stats["modes"], "d_layer_runs": druns,
           "trace_events_checked": tr["distinct"], "explanation": expl}
    if stats["kinds"]:
        cov["unit_kinds"] = stats["kinds"]
    vlib.write_evidence(prop, tier, seed, "model_checking", cov, notcov, time.time() - t0, len(violations))
    vlib.conclude(prop, violations, known)
