"""C17 — resume bookkeeping maintenance never loses the live resume position.

D layer : spec/CkptMaint.tla — UpdateCheckpoint as one action per target request, a stop after any
          request, then the next start; all initial layouts of 3 databases; rename / failover / both.
P layer : spec/trace/TraceCkpt.tla judges, for every initial bookkeeping state x operation x crash
          prefix on the real code (UpdateCheckpoint, DelStaleCheckpoint; each repeated for Go's map
          iteration order), the resume position found by the next start against the one before."""
import json, os, time, shutil
import vlib

SPEC = os.path.join(vlib.VERIF, "spec")
DCFG = "SPECIFICATION Spec\nCONSTANTS\n  DBs = %s\n  Rename = %s\n  Failover = %s\n  FixDb = TRUE\nINVARIANTS ResumeNotLost TypeOK\nCHECK_DEADLOCK FALSE\n"


def check(prop, tier, seed, replay):
    t0 = time.time()
    work = vlib.scratch(prop)
    try:
        _check(prop, tier, seed, replay, work, t0)
    finally:
        vlib.cleanup(work)


def _check(prop, tier, seed, replay, work, t0):
    drv = vlib.build_driver("ckptdrv", work)
    states = trans = 0
    druns = []
    dbs = "{0, 1, 2}" if tier == "quick" else "{0, 1, 2, 3}"
    for rn, fo in (("TRUE", "FALSE"), ("FALSE", "TRUE"), ("TRUE", "TRUE")):
        r = vlib.tlc([os.path.join(SPEC, "CkptMaint.tla")], "CkptMaint", DCFG % (dbs, rn, fo), work, timeout=1800, name="CkptMaintD")
        vlib.tlc_ok(r, "CkptMaint.tla rename=%s failover=%s" % (rn, fo))
        states += r["distinct"]
        trans += r["generated"]
        druns.append({"rename": rn, "failover": fo, "dbs": dbs, "distinct": r["distinct"]})
    shards = vlib.NCPU
    n, reps = (96, 4) if tier == "quick" else (640, 8)
    for i in range(shards):
        os.makedirs(os.path.join(work, "gc%d" % i), exist_ok=True)
    cmds = [[drv, "-seed", str(seed), "-n", str(n), "-reps", str(reps), "-work", os.path.join(work, "gc%d" % i), "-shard", str(i), "-shards", str(shards),
             "-out", os.path.join(work, "t%d.ndjson" % i), "-stats", os.path.join(work, "s%d.json" % i)] for i in range(shards)]
    for rc, out in vlib.run_parallel(cmds, timeout=3000):
        if rc != 0:
            raise vlib.HarnessError("ckptdrv failed (%d):\n%s" % (rc, out[-3000:]))
    trace = os.path.join(work, "trace.ndjson")
    nstates = nruns = 0
    samples = []
    with open(trace, "w") as w:
        for i in range(shards):
            s = json.load(open(os.path.join(work, "s%d.json" % i)))
            nstates += s["states"]
            nruns += s["runs"]
            samples += (s.get("samples") or [])[:1]
            shutil.copyfileobj(open(os.path.join(work, "t%d.ndjson" % i)), w)
    viol, tr = vlib.tlc_trace([os.path.join(SPEC, "trace", "TraceCkpt.tla")], "TraceCkpt", trace, work, timeout=3000)
    violations, known = [], []
    lines = open(trace).read().splitlines() if viol else []
    seen = set()
    for v in viol:
        rec = json.loads(lines[v["line"] - 1])
        sig = {"invariant": v["names"][0], "op": rec["op"]}
        f = vlib.known_match(prop, sig)
        if f:
            known.append(f)
            continue
        key = (v["names"][0], rec["op"], rec["k"])
        if key in seen or len(violations) >= 10:
            continue
        seen.add(key)
        path = vlib.save_replay(prop, "m%d" % v["trace"], {"property": prop, "invariants": v["names"], "event": rec})
        violations.append({"replay": path, "what": "%s: op=%s stopped after %d of %d requests; before=%s after=%s; checkpoints(db,off,ageMs,runid)=%s data dbs=%s" % (
            ",".join(v["names"]), rec["op"], rec["k"], rec["total"], rec["before"], rec["after"], rec["state"], rec["datadbs"])})
    cov = {"states": states, "transitions": trans, "traces_validated_against_impl": nruns, "samples": samples[:3], "exhaustive": True,
           "initial_states": nstates, "d_layer_runs": druns,
           "explanation": "every request prefix of UpdateCheckpoint (rename / failover / both) and DelStaleCheckpoint on %d seeded initial layouts "
                          "(1-3 databases with checkpoints, equal offsets, stale and fresh entries, databases without checkpoint), %d repetitions each" % (nstates, reps)}
    vlib.write_evidence(prop, tier, seed, "model_checking", cov,
                        ["bidirectional namespace/mode migration (syncer.resolveBisyncCheckpointName...) is not exercised by this check",
                         "Go map iteration order is sampled by repetition on the code side and enumerated in the D model",
                         "modification times are distinct nanosecond stamps"],
                        time.time() - t0, len(violations))
    vlib.conclude(prop, violations, known)
