"""C17 — resume bookkeeping maintenance never loses the live resume position.

D layer : spec/CkptMaint.tla — UpdateCheckpoint as one action per target request, a stop after any
          request, then the next start; all initial layouts of 3 databases; rename / failover / both.
          spec/BisyncMigrate.tla (+ BisyncMigrateOps.tla) — the start-up bookkeeping of a bidirectional link (namespace
          resolution with the migration of the recovery state to another mode's format, UpdateCheckpoint, StartPoint with
          its journal maintenance), one step per write request, a stop before any write, the next start in any mode.
P layer : spec/trace/TraceMigrate.tla judges the real start-up (migratedrv: layouts left by the real replay, the target dying
          before every write request of the start-up) and steps the same case through BisyncMigrateOps (DRIFT = the code is
          no longer the design; not a verdict).
          spec/trace/TraceCkpt.tla judges, for every initial bookkeeping state x operation x crash
          prefix on the real code (UpdateCheckpoint, DelStaleCheckpoint; each repeated for Go's map
          iteration order), the resume position found by the next start against the one before."""
import json, os, re, time, shutil
import vlib

SPEC = os.path.join(vlib.VERIF, "spec")
MCFG = "SPECIFICATION Spec\nCONSTANTS\n  MaxU = %d\n  FixRoot = TRUE\nINVARIANTS TypeOK ResumeNotLost ResumeNotBack\nCHECK_DEADLOCK FALSE\n"
DCFG = "SPECIFICATION Spec\nCONSTANTS\n  DBs = %s\n  Rename = %s\n  Failover = %s\n  FixDb = TRUE\nINVARIANTS ResumeNotLost TypeOK\nCHECK_DEADLOCK FALSE\n"


def check(prop, tier, seed, replay):
    t0 = time.time()
    work = vlib.scratch(prop)
    try:
        _check(prop, tier, seed, replay, work, t0)
    finally:
        vlib.cleanup(work)


def _check(prop, tier, seed, replay, work, t0):
    drv = vlib.build_driver("ckptdrv", work)
    mdrv = vlib.build_driver("migratedrv", work)
    states = trans = 0
    druns = []
    mig = [os.path.join(SPEC, "BisyncMigrate.tla"), os.path.join(SPEC, "BisyncMigrateOps.tla")]
    maxu = 3 if tier == "quick" else 4
    r = vlib.tlc(mig, "BisyncMigrate", MCFG % maxu, work, timeout=3000, name="BisyncMigrateD")
    vlib.tlc_ok(r, "BisyncMigrate.tla MaxU=%d" % maxu)
    states += r["distinct"]
    trans += r["generated"]
    druns.append({"spec": "BisyncMigrate", "MaxU": maxu, "distinct": r["distinct"], "depth": r["depth"]})
    dbs = "{0, 1, 2}" if tier == "quick" else "{0, 1, 2, 3}"
    for rn, fo in (("TRUE", "FALSE"), ("FALSE", "TRUE"), ("TRUE", "TRUE")):
        r = vlib.tlc([os.path.join(SPEC, "CkptMaint.tla")], "CkptMaint", DCFG % (dbs, rn, fo), work, timeout=1800, name="CkptMaintD")
        vlib.tlc_ok(r, "CkptMaint.tla rename=%s failover=%s" % (rn, fo))
        states += r["distinct"]
        trans += r["generated"]
        druns.append({"rename": rn, "failover": fo, "dbs": dbs, "distinct": r["distinct"]})
    # the stale-entry collector next to fail-overs, re-keying, ageing and unreachable source shards (StaleGC.tla): the code's
    # design keeps every live position; skipping unreachable nodes and moving an entry with its old stamp are refuted
    gcfg = ("SPECIFICATION Spec\nCONSTANTS\n  Shards = {s1, s2}\n  SkipUnreachable = %s\n  FreshStamp = %s\n  MaxFailovers = 1\n  MaxPasses = %d\n"
            "INVARIANTS TypeOK\nPROPERTIES C17_LivePositionKept\nCHECK_DEADLOCK FALSE\n")
    gspec = [os.path.join(SPEC, "StaleGC.tla")]
    passes = 2 if tier == "quick" else 3
    r = vlib.tlc(gspec, "StaleGC", gcfg % ("FALSE", "TRUE", passes), work, timeout=3000, name="StaleGCD")
    vlib.tlc_ok(r, "StaleGC.tla (the code's design)")
    states += r["distinct"]
    trans += r["generated"]
    druns.append({"spec": "StaleGC", "SkipUnreachable": False, "FreshStamp": True, "MaxPasses": passes, "distinct": r["distinct"], "result": "C17_LivePositionKept holds"})
    for skip, fresh, what in (("TRUE", "TRUE", "unreachable source nodes skipped (seeds C02-f / C07-f)"), ("FALSE", "FALSE", "moved entry keeps its old stamp (seed C17-e)")):
        r = vlib.tlc(gspec, "StaleGC", gcfg % (skip, fresh, 2), work, timeout=3000, name="StaleGCCtl")
        if "C17_LivePositionKept" not in " ".join(x for t in r["property_violated"] for x in t):
            raise vlib.HarnessError("StaleGC.tla, %s: C17_LivePositionKept was expected to be refuted (control)" % what)
        druns.append({"spec": "StaleGC", "SkipUnreachable": skip == "TRUE", "FreshStamp": fresh == "TRUE", "result": "refuted (control): " + what})
    shards = vlib.NCPU
    n, reps = (96, 4) if tier == "quick" else (640, 8)
    for i in range(shards):
        os.makedirs(os.path.join(work, "gc%d" % i), exist_ok=True)
    cmds = [[drv, "-seed", str(seed), "-n", str(n), "-reps", str(reps), "-work", os.path.join(work, "gc%d" % i), "-shard", str(i), "-shards", str(shards),
             "-out", os.path.join(work, "t%d.ndjson" % i), "-stats", os.path.join(work, "s%d.json" % i)] for i in range(shards)]
    for rc, out in vlib.run_parallel(cmds, timeout=3000):
        if rc != 0:
            raise vlib.HarnessError("ckptdrv failed (%d):\n%s" % (rc, out[-3000:]))
    trace = os.path.join(work, "trace.ndjson")
    nstates = nruns = 0
    samples = []
    with open(trace, "w") as w:
        for i in range(shards):
            s = json.load(open(os.path.join(work, "s%d.json" % i)))
            nstates += s["states"]
            nruns += s["runs"]
            samples += (s.get("samples") or [])[:1]
            shutil.copyfileobj(open(os.path.join(work, "t%d.ndjson" % i)), w)
    viol, tr = vlib.tlc_trace([os.path.join(SPEC, "trace", "TraceCkpt.tla")], "TraceCkpt", trace, work, timeout=3000)
    violations, known = [], []
    lines = open(trace).read().splitlines() if viol else []
    seen = set()
    for v in viol:
        rec = json.loads(lines[v["line"] - 1])
        sig = {"invariant": v["names"][0], "op": rec["op"]}
        f = vlib.known_match(prop, sig)
        if f:
            known.append(f)
            continue
        key = (v["names"][0], rec["op"], rec["k"])
        if key in seen or len(violations) >= 10:
            continue
        seen.add(key)
        path = vlib.save_replay(prop, "m%d" % v["trace"], {"property": prop, "invariants": v["names"], "event": rec})
        violations.append({"replay": path, "what": "%s: op=%s stopped after %d of %d requests; before=%s after=%s; checkpoints(db,off,ageMs,runid)=%s data dbs=%s" % (
            ",".join(v["names"]), rec["op"], rec["k"], rec["total"], rec["before"], rec["after"], rec["state"], rec["datadbs"])})
    # ---- switching the bidirectional recovery format: the real start-up, a stop before every write request
    mn, mstride = (320, 1) if tier == "quick" else (4000, 1)
    cmds = [[mdrv, "-seed", str(seed), "-n", str(mn), "-stride", str(mstride), "-shard", str(i), "-shards", str(shards),
             "-out", os.path.join(work, "m%d.ndjson" % i), "-stats", os.path.join(work, "ms%d.json" % i)] for i in range(shards)]
    for rc, out in vlib.run_parallel(cmds, timeout=3000):
        if rc != 0:
            raise vlib.HarnessError("migratedrv failed (%d):\n%s" % (rc, out[-3000:]))
    mtrace = os.path.join(work, "mtrace.ndjson")
    mscen = mcases = 0
    mops = {}
    with open(mtrace, "w") as w:
        for i in range(shards):
            st = json.load(open(os.path.join(work, "ms%d.json" % i)))
            mscen += st["scenarios"]
            mcases += st["cases"]
            for k, v in (st.get("by_op") or {}).items():
                mops[k] = mops.get(k, 0) + v
            samples += (st.get("samples") or [])[:1] if len(samples) < 4 else []
            shutil.copyfileobj(open(os.path.join(work, "m%d.ndjson" % i)), w)
    if mcases == 0:
        raise vlib.HarnessError("migratedrv produced no case")
    mviol, mr = vlib.tlc_trace([os.path.join(SPEC, "trace", "TraceMigrate.tla"), os.path.join(SPEC, "BisyncMigrateOps.tla")], "TraceMigrate", mtrace, work,
                               timeout=3000, extra_constants="CONSTANT MaxU = 8\nCONSTANT FixRoot = TRUE\n")
    drift = len(re.findall(r'<<\s*"DRIFT"', mr["out"]))
    mlines = open(mtrace).read().splitlines() if mviol else []
    for v in mviol:
        rec = json.loads(mlines[v["line"] - 1])
        sig = {"invariant": v["names"][0], "op": "migrate"}
        f = vlib.known_match(prop, sig)
        if f:
            known.append(f)
            continue
        key = (v["names"][0], rec["op"], rec["k"] >= 0)
        if key in seen or len(violations) >= 10:
            continue
        seen.add(key)
        path = vlib.save_replay(prop, "mig%d" % v["trace"], {"property": prop, "invariants": v["names"], "event": rec})
        violations.append({"replay": path, "what": "%s: start-up %s, target died before write request %d of %d (-1 = not at all); before=%s after=%s (refused: what the namespace's own mode finds=%s) "
                                                   "after the rest of the stream=%s; bookkeeping before: %s" % (
            ",".join(v["names"]), rec["op"], rec["k"] + 1, rec["total"], rec["before"], rec["after"], rec["afterold"], rec["final"], rec["state"])})
    if drift:
        print("SPEC-DRIFT: %d of %d start-up cases are not what spec/BisyncMigrateOps.tla computes (positions or the active namespace differ); "
              "the verdict rests on the recorded answers alone" % (drift, mcases))
    cov = {"states": states, "transitions": trans, "traces_validated_against_impl": nruns + mcases, "samples": samples[:3], "exhaustive": True,
           "initial_states": nstates, "d_layer_runs": druns,
           "migration": {"scenarios": mscen, "cases": mcases, "by_mode_change": mops, "spec_drift_cases": drift,
                         "binding": "every case is stepped through BisyncMigrateOps.tla from the logged layout: predicted positions (before / after / after a refusal) "
                                    "and the predicted content of the active namespace equal what the code left"},
           "spec_drift": bool(drift),
           "explanation": "every request prefix of UpdateCheckpoint (rename / failover / both) and DelStaleCheckpoint on %d seeded initial layouts "
                          "(1-3 databases with checkpoints, equal offsets, stale and fresh entries, databases without checkpoint), %d repetitions each" % (nstates, reps)}
    vlib.write_evidence(prop, tier, seed, "model_checking", cov,
                        ["mode migration: standalone target (one recovery slot), database 0; a start that refuses a migration (no seed) is judged by what "
                         "the namespace's own mode still finds; namespaces without mode marker are modelled only in the shapes the inference recognises",
                         "Go map iteration order is sampled by repetition on the code side and enumerated in the D model",
                         "modification times are distinct nanosecond stamps"],
                        time.time() - t0, len(violations))
    vlib.conclude(prop, violations, known)
