"""C01 C02 C07 C09 — incremental replay family.

D layer : spec/Replay.tla model-checked exhaustively (both checkpoint modes).
P layer : spec/trace/TraceReplay.tla validates every trace recorded from the real
          RedisOutput (lockstep schedules, ticks, crash after every request prefix).
Verdict : only P-layer violations on real-code traces."""
import json, os, time, shutil
import vlib

SPEC = os.path.join(vlib.VERIF, "spec")

CFG = """SPECIFICATION Spec
CONSTANTS
  MaxLen = %(maxlen)d
  TxnMode = %(txn)s
  BatchCount = 2
  Tickers = %(tickers)s
  MaxCrashes = %(crashes)d
  DBs = {0, 1}
  Blacklist = %(black)s
  FixBarrier = TRUE
  FixIdle = TRUE
  FixRunId = TRUE
  MaxTicks = %(ticks)d
VIEW View
CHECK_DEADLOCK FALSE
INVARIANTS
  C01_Prefix
  C02_RightDb
  C02_CpCovers
  C02_NoRepeatTxn
  C07_Values
  C07_Monotone
  C07_NoNeedlessFull
  C09_Atomic
"""

WHAT = {
    "C01": "uninterrupted replay: executed data commands = filtered source stream, in order, right DB",
    "C02": "crash at any request prefix: no skipped write, right DB after resume, no repeat in txn mode",
    "C07": "stored resume positions are command boundaries and never decrease / get lost",
    "C09": "a source MULTI/EXEC group is applied in one target MULTI/EXEC with its position",
}


def d_configs(tier):
    if tier == "quick":
        return [dict(maxlen=4, txn="TRUE", tickers='{"keepalive", "batch"}', crashes=1, black="{}", ticks=1),
                dict(maxlen=4, txn="FALSE", tickers='{"keepalive", "batch", "cp"}', crashes=1, black="{}", ticks=1),
                dict(maxlen=4, txn="TRUE", tickers='{"keepalive", "batch"}', crashes=1, black="{1}", ticks=1),
                dict(maxlen=4, txn="FALSE", tickers='{"keepalive", "batch", "cp"}', crashes=1, black="{1}", ticks=1)]
    return [dict(maxlen=5, txn="TRUE", tickers='{"keepalive", "batch"}', crashes=1, black="{}", ticks=1),
            dict(maxlen=5, txn="FALSE", tickers='{"cp", "batch"}', crashes=1, black="{}", ticks=1),
            dict(maxlen=4, txn="TRUE", tickers='{"keepalive", "batch"}', crashes=2, black="{}", ticks=2),
            dict(maxlen=4, txn="FALSE", tickers='{"keepalive", "batch", "cp"}', crashes=2, black="{1}", ticks=2)]


def check(prop, tier, seed, replay):
    t0 = time.time()
    work = vlib.scratch(prop)
    try:
        _check(prop, tier, seed, replay, work, t0)
    finally:
        vlib.cleanup(work)


def _check(prop, tier, seed, replay, work, t0):
    drv = vlib.build_driver("replaydrv", work)
    spec_trace = [os.path.join(SPEC, "trace", "TraceReplay.tla")]

    # ---- D layer: exhaustive model checking of the design as coded ----
    states = trans = 0
    druns = []
    if not replay:
        for i, c in enumerate(d_configs(tier)):
            r = vlib.tlc([os.path.join(SPEC, "Replay.tla")], "Replay", CFG % c, work, timeout=3000, name="ReplayD%d" % i)
            vlib.tlc_ok(r, "Replay.tla " + json.dumps(c))
            states += r["distinct"]
            trans += r["generated"]
            druns.append({"config": c, "distinct": r["distinct"], "generated": r["generated"], "depth": r["depth"],
                          "wall_s": round(r["wall"], 1)})

    # ---- input space: every well-formed stream shape up to the bound, enumerated by TLC ----
    shapes = os.path.join(work, "shapes.ndjson")
    nshapes = 0
    if not replay:
        slen = 5 if tier == "quick" else 6
        cfg = ('SPECIFICATION Spec\nCONSTANTS\n  MaxLen = %d\n  ShapesFile = "%s"\nINVARIANTS TypeOK Balanced\n'
               'CHECK_DEADLOCK FALSE\nPOSTCONDITION Shapes\n' % (slen, shapes))
        r = vlib.tlc([os.path.join(SPEC, "ReplayStreams.tla")], "ReplayStreams", cfg, work, timeout=1800)
        vlib.tlc_ok(r, "ReplayStreams.tla")
        nshapes = sum(1 for _ in open(shapes))
        states += r["distinct"]
        trans += r["generated"]
        druns.append({"spec": "ReplayStreams.tla", "MaxLen": slen, "complete_streams": nshapes, "distinct": r["distinct"]})

    # ---- real code: lockstep scenarios, traces ----
    tdir = os.path.join(work, "traces")
    os.makedirs(tdir)
    if replay:
        cmds = [[drv, "-replay", replay, "-out", os.path.join(tdir, "t0.ndjson"), "-stats", os.path.join(tdir, "s0.json"),
                 "-scen", os.path.join(tdir, "c0.ndjson")]]
        shards = 1
    else:
        shards = vlib.NCPU
        n, items, maxcrash = (96, 7, 24) if tier == "quick" else (960, 10, 60)
        stride = 0 if prop == "C01" else (5 if tier == "quick" else 2)
        cmds = [[drv, "-seed", str(seed), "-n", str(n), "-max-items", str(items), "-max-crash-runs", str(maxcrash),
                 "-shapes", shapes, "-shape-crash-stride", str(stride),
                 "-shard", str(i), "-shards", str(shards), "-out", os.path.join(tdir, "t%d.ndjson" % i),
                 "-stats", os.path.join(tdir, "s%d.json" % i), "-scen", os.path.join(tdir, "c%d.ndjson" % i)]
                for i in range(shards)]
    for rc, out in vlib.run_parallel(cmds, timeout=3000):
        if rc != 0:
            raise vlib.HarnessError("replaydrv failed (%d):\n%s" % (rc, out[-3000:]))
    stats = {"scenarios": 0, "runs": 0, "crash_runs": 0, "events": 0, "requests": 0, "not_reproduced": 0, "distinct_scenarios": 0, "shapes": 0}
    samples = []
    trace = os.path.join(work, "trace.ndjson")
    with open(trace, "w") as w:
        for i in range(shards):
            s = json.load(open(os.path.join(tdir, "s%d.json" % i)))
            for k in stats:
                stats[k] += s.get(k, 0)
            samples += (s.get("samples") or [])[:2]
            shutil.copyfileobj(open(os.path.join(tdir, "t%d.ndjson" % i)), w)
    if stats["scenarios"] == 0:
        raise vlib.HarnessError("driver produced no scenario")
    if stats["not_reproduced"] > stats["scenarios"] // 20 + 2:
        raise vlib.HarnessError("too many scenarios did not reach their planned schedule: %d" % stats["not_reproduced"])

    # ---- P layer: trace validation ----
    viol, tr = vlib.tlc_trace(spec_trace, "TraceReplay", trace, work, timeout=3000)
    mine = [v for v in viol if any(n.startswith(prop + "_") for n in v["names"])]
    scen = {}
    if mine:
        for i in range(shards):
            for line in open(os.path.join(tdir, "c%d.ndjson" % i)):
                s = json.loads(line)
                scen[s["ID"]] = s
    violations, known = [], []
    seen = set()
    for v in mine:
        names = sorted(n for n in v["names"] if n.startswith(prop + "_"))
        sc = scen.get(v["trace"], {})
        unknown = []
        for n in names:
            f = vlib.known_match(prop, {"invariant": n, "txn": sc.get("Txn"), "pipeline": sc.get("Pipe"), "blacklist": bool(sc.get("Black"))})
            if f:
                known.append(f)
            else:
                unknown.append(n)
        if not unknown or v["trace"] in seen:
            continue
        seen.add(v["trace"])
        path = vlib.save_replay(prop, "trace%d" % v["trace"], {"property": prop, "invariants": unknown, "line": v["line"], "scenario": sc})
        violations.append({"replay": path, "what": "%s at event %d of scenario %s (%s)" % (",".join(unknown), v["line"], v["trace"], sc.get("Desc"))})

    cov = {
        "states": states, "transitions": trans,
        "traces_validated_against_impl": stats["scenarios"],
        "samples": samples[:6],
        "exhaustive": False,
        "explanation": WHAT[prop],
        "d_layer_runs": druns,
        "impl_runs": stats["runs"], "impl_crash_runs": stats["crash_runs"], "target_requests": stats["requests"],
        "trace_events": stats["events"], "distinct_base_streams": stats["distinct_scenarios"],
        "tlc_enumerated_stream_shapes": nshapes, "shape_runs_both_modes": stats["shapes"],
        "trace_states": tr["distinct"],
        "violating_traces_all_properties_of_family": len({v["trace"] for v in viol}),
    }
    vlib.write_evidence(prop, tier, seed, "model_checking", cov,
                        ["fake target implements SELECT/MULTI/EXEC/HSET semantics as spec/trace/TraceReplay.tla models them",
                         "process death = all connections closed after k received requests; no partial request execution",
                         "D-layer bounds: see d_layer_runs; real-code scenarios are seeded random streams (<= %d items) with tick schedules and every k-th crash point" % (7 if tier == "quick" else 10)],
                        time.time() - t0, len(violations))
    vlib.conclude(prop, violations, known)
