"""Registry: property id -> check function(prop, tier, seed, replay)."""
import importlib

_FAMILIES = {
    "replay": ["C01", "C02", "C07", "C09"],
    "slot": ["C11"],
    "filter": ["C10"],
    "resp": ["C12"],
    "lease": ["C15"],
    "cache": ["C05", "C08"],
    "fullsync": ["C03", "C04", "C20"],
    "ckpt": ["C17"],
    "resync": ["C06"],
    "bisync": ["C14", "C18"],
    "loop": ["C13"],
    "cluster": ["C19"],
    "replica": ["C16"],
}

REGISTRY = {}
for _mod, _props in _FAMILIES.items():
    _m = importlib.import_module("fam." + _mod)
    for _p in _props:
        REGISTRY[_p] = _m.check
