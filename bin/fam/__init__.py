REGISTRY = {}


def _reg():
    from . import replay
    for p in ("C01", "C02", "C07", "C09"):
        REGISTRY[p] = replay.check


_reg()
