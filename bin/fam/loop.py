"""C13 — bidirectional sync never echoes its own writes nor swallows foreign ones.

D layer : spec/Bisync.tla — two sites with replication streams, two links, client writes (also with
          marker-looking values), mirrored transactions and stand-alone bookkeeping in the streams;
          NoEcho, AtMostOnce, NoSwallow (prefix + complete when idle), Bounded, and <>[]Idle.
P layer : spec/trace/TraceLoop.tla judges closed-loop runs of the real code: two fake sites with the
          propagation personality of a Redis master, two real RedisOutputs (BisyncEnabled) each
          replaying the other site's stream - optionally after a snapshot of it - while harness
          clients write at both sites."""
import json, os, time, shutil
import vlib

SPEC = os.path.join(vlib.VERIF, "spec")
DCFG = ('SPECIFICATION Spec\nCONSTANTS\n  MaxWrites = %d\n  RecogniseBy = "key"\n'
        'INVARIANTS C13_NoEcho C13_AtMostOnce C13_NoSwallow C13_Bounded\n%sCHECK_DEADLOCK FALSE\n')


def check(prop, tier, seed, replay):
    t0 = time.time()
    work = vlib.scratch(prop)
    try:
        _check(prop, tier, seed, replay, work, t0)
    finally:
        vlib.cleanup(work)


def _check(prop, tier, seed, replay, work, t0):
    drv = vlib.build_driver("loopdrv", work)
    states = trans = 0
    druns = []
    for mw, live in ([(2, True)] if tier == "quick" else [(2, True), (3, False)]):
        r = vlib.tlc([os.path.join(SPEC, "Bisync.tla")], "Bisync", DCFG % (mw, "PROPERTIES C13_Quiesces\n" if live else ""), work, timeout=3000, name="BisyncD%d" % mw)
        vlib.tlc_ok(r, "Bisync.tla MaxWrites=%d" % mw)
        states += r["distinct"]
        trans += r["generated"]
        druns.append({"spec": "Bisync", "MaxWrites": mw, "liveness": live, "distinct": r["distinct"]})
    shards = vlib.NCPU
    n, ops = (320, 4) if tier == "quick" else (3200, 6)
    cmds = [[drv, "-seed", str(seed), "-n", str(n), "-max-ops", str(ops), "-shard", str(i), "-shards", str(shards),
             "-out", os.path.join(work, "t%d.ndjson" % i), "-stats", os.path.join(work, "s%d.json" % i)] for i in range(shards)]
    for rc, out in vlib.run_parallel(cmds, timeout=6000):
        if rc != 0:
            raise vlib.HarnessError("loopdrv failed (%d):\n%s" % (rc, out[-3000:]))
    trace = os.path.join(work, "trace.ndjson")
    nscen = nunits = snap = 0
    modes = {}
    with open(trace, "w") as w:
        for i in range(shards):
            s = json.load(open(os.path.join(work, "s%d.json" % i)))
            nscen += s["scenarios"]
            nunits += s["client_units"]
            snap += s["with_snapshot"]
            for k, v in s["modes"].items():
                modes[k] = modes.get(k, 0) + v
            shutil.copyfileobj(open(os.path.join(work, "t%d.ndjson" % i)), w)
    viol, tr = vlib.tlc_trace([os.path.join(SPEC, "trace", "TraceLoop.tla")], "TraceLoop", trace, work, timeout=6000)
    violations, known = [], []
    lines = open(trace).read().splitlines() if viol else []
    seen = set()
    # one verdict per scenario and violation name (a loop that never goes quiet yields one violation per round trip)
    judged = set()
    for v in viol:
        names = sorted(n_ for n_ in v["names"] if n_.startswith(prop + "_"))
        if not names:
            continue
        if (v["trace"], names[0]) in judged:
            continue
        judged.add((v["trace"], names[0]))
        j = v["line"] - 1
        while j > 0 and '"ev":"Reset"' not in lines[j]:
            j -= 1
        hdr = json.loads(lines[j])
        sig = {"invariant": names[0], "mode": hdr["mode"], "snapshot": hdr["snapshot"]}
        f = vlib.known_match(prop, sig)
        if f:
            known.append(f)
            continue
        if v["trace"] in seen or len(violations) >= 10:
            continue
        seen.add(v["trace"])
        k = v["line"]
        while k < len(lines) and '"ev":"Reset"' not in lines[k]:
            k += 1
        path = vlib.save_replay(prop, "l%d" % v["trace"], {"property": prop, "invariants": names, "at_event": v["line"] - j, "events": [json.loads(x) for x in lines[j:min(k, j + 4000)]]})
        ev = json.loads(lines[v["line"] - 1])
        what = dict(ev)
        for fld in ("cmds", "keys"):
            if fld in what:
                what[fld] = [str(x)[:80] for x in what[fld]][:6]
        violations.append({"replay": path, "what": "%s in %s mode (snapshot=%s restore=%s leftovers=%s) at event %d of scenario %d: %s" % (
            ",".join(names), hdr["mode"], hdr["snapshot"], hdr["restore"], hdr["leftovers"], v["line"] - j, v["trace"], json.dumps(what)[:700])})
    cov = {"states": states, "transitions": trans, "traces_validated_against_impl": nscen, "samples": vlib.trace_samples(trace), "exhaustive": False,
           "client_units": nunits, "scenarios_with_snapshot_phase": snap, "scenarios_by_mode": modes, "d_layer_runs": druns,
           "trace_events_checked": tr["distinct"],
           "explanation": "closed loops of two fake sites (propagation: MULTI/EXEC wrapping incl. the Redis 7 single-command rule, SET PX/SETEX -> PXAT, "
                          "EXPIRE -> PEXPIREAT, no-op commands omitted) and two real links in sync / pipeline / parallel mode; <= %d client operations per site "
                          "(plain and transactional, marker-looking values, keys containing the reserved words but not as prefix), half of the scenarios start "
                          "with a snapshot of each site (restore on/off) that also contains bookkeeping keys of an older link incarnation" % ops}
    vlib.write_evidence(prop, tier, seed, "model_checking", cov,
                        ["restarts of a link inside the loop (C14 covers restart)", "cluster sites", "expiry of marker keys (24 h) and its DEL propagation",
                         "client writes inside the reserved namespace (excluded by the property)"],
                        time.time() - t0, len(violations))
    vlib.conclude(prop, violations, known)
