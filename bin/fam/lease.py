"""C15 — at most one instance holds the leader lease.

D layer : spec/Lease.tla — contenders x campaign/renew/resign x ticks x lost/failed calls,
          exhaustive; invariants AtMostOneActingLeader, ActingImpliesHolder, HolderCeases.
B2      : every operation sequence TLC reaches up to the history bound is replayed on the real
          redisElection against the fake lease store (EVAL interprets the script text received,
          virtual clock); plus seeded random longer sequences with three contenders.
P layer : spec/trace/TraceLease.tla judges every reply, the store's holder/remaining time and
          the leadership the code told each instance."""
import random, json, os, time, shutil
import vlib

SPEC = os.path.join(vlib.VERIF, "spec")
FILES = [os.path.join(SPEC, "env", "LeaseStore.tla")]

CFG = """SPECIFICATION Spec
CONSTANTS
  Ids = %(ids)s
  TTL = %(ttl)d
  MaxTime = %(maxtime)d
  MaxHist = %(hist)d
  EmitCases = %(emit)s
%(view)s
INVARIANTS AtMostOneActingLeader ActingImpliesHolder HolderCeases TypeOK %(emitinv)s
CHECK_DEADLOCK FALSE
"""


def check(prop, tier, seed, replay):
    t0 = time.time()
    work = vlib.scratch(prop)
    try:
        _check(prop, tier, seed, replay, work, t0)
    finally:
        vlib.cleanup(work)


def _check(prop, tier, seed, replay, work, t0):
    drv = vlib.build_driver("leasedrv", work)
    spec = FILES + [os.path.join(SPEC, "Lease.tla")]
    # exhaustive design check
    r1 = vlib.tlc(spec, "Lease", CFG % dict(ids='{"a", "b", "c"}', ttl=3, maxtime=8 if tier == "quick" else 12, hist=0, emit="FALSE",
                                            view="VIEW View", emitinv=""), work, timeout=1800, name="LeaseD")
    vlib.tlc_ok(r1, "Lease.tla exhaustive")
    # the same design without bounds on time: an inductive invariant discharged by Apalache (Init => IndInv,
    # IndInv /\ Next => IndInv', IndInv => at most one acting leader), any lease period, any number of ticks
    ind = []
    lind = os.path.join(SPEC, "LeaseInd.tla")
    for what, args in (("Init => IndInv", ["--cinit=ConstInit", "--init=Init", "--inv=IndInv", "--length=0"]),
                       ("IndInv /\\ Next => IndInv'", ["--cinit=ConstInit", "--init=IndInit", "--inv=IndInv", "--length=1"]),
                       ("IndInv => AtMostOneActingLeader", ["--cinit=ConstInit", "--init=IndInit", "--inv=AtMostOneActingLeader", "--length=0"])):
        a = vlib.apalache(lind, args, work)
        if a is None:
            ind.append({"obligation": what, "result": "apalache-mc not installed: skipped"})
            continue
        if not a["ok"]:
            raise vlib.HarnessError("LeaseInd.tla: obligation '%s' not discharged by Apalache:\n%s" % (what, a["out"]))
        ind.append({"obligation": what, "result": "discharged"})
    # bounded behaviours as replayable cases
    hist = 4 if tier == "quick" else 5
    r2 = vlib.tlc(spec, "Lease", CFG % dict(ids='{"a", "b"}', ttl=2, maxtime=hist, hist=hist, emit="TRUE", view="", emitinv="EmitCase"),
                  work, timeout=1800, name="LeaseCases")
    vlib.tlc_ok(r2, "Lease.tla cases")
    cases = os.path.join(work, "cases.txt")
    n = nlate = 0
    plain, late = [], []
    for line in r2["out"].splitlines():
        if line.startswith('"CASE '):
            (late if 'late' in line else plain).append(line)
    if tier == "quick" and len(late) > 3000:
        # a late reply costs real time (the caller's deadline has to pass): the quick tier replays a seeded sample of them
        random.Random(seed).shuffle(late)
        late = late[:3000]
    with open(cases, "w") as w:
        for line in plain + late:
            w.write(line + "\n")
            n += 1
    nlate = len(late)
    if n == 0:
        raise vlib.HarnessError("TLC printed no case")
    shards = vlib.NCPU
    nrand, rlen = (40, 14) if tier == "quick" else (400, 30)
    if replay:
        rp = json.load(open(replay))
        open(cases, "w").write('"CASE ' + json.dumps({"ops": rp["ops"]}).replace('"', '\\"') + '"\n')
        nrand, shards = 0, 1
    cmds = [[drv, "-cases", cases, "-seed", str(seed), "-nrand", str(nrand), "-rand-len", str(rlen), "-ttl", "2", "-shard", str(i),
             "-shards", str(shards), "-out", os.path.join(work, "t%d.ndjson" % i), "-stats", os.path.join(work, "s%d.json" % i)]
            for i in range(shards)]
    for rc, out in vlib.run_parallel(cmds, timeout=3000):
        if rc != 0:
            raise vlib.HarnessError("leasedrv failed (%d):\n%s" % (rc, out[-3000:]))
    trace = os.path.join(work, "trace.ndjson")
    nseq = ncalls = 0
    samples = []
    with open(trace, "w") as w:
        for i in range(shards):
            s = json.load(open(os.path.join(work, "s%d.json" % i)))
            nseq += s["sequences"]
            ncalls += s["calls"]
            samples += (s.get("samples") or [])[:1]
            shutil.copyfileobj(open(os.path.join(work, "t%d.ndjson" % i)), w)
    viol, tr = vlib.tlc_trace(FILES + [os.path.join(SPEC, "trace", "TraceLease.tla")], "TraceLease", trace, work, timeout=3000)
    violations, known = [], []
    if viol:
        lines = open(trace).read().splitlines()
    seen = set()
    for v in viol:
        if v["trace"] in seen or len(violations) >= 10:
            continue
        seen.add(v["trace"])
        # recover the operation sequence of that trace
        i = v["line"] - 1
        start = i
        while start > 0 and json.loads(lines[start])["ev"] != "Reset":
            start -= 1
        ops = []
        for ln in lines[start + 1:]:
            e = json.loads(ln)
            if e["ev"] == "Reset":
                break
            if e["ev"] == "Conc":
                ops.append({"op": "concurrent-" + e["op"] + "@" + e["shard"], "i": e["i"], "f": e["res"]})
                continue
            ops.append({"op": "tick", "i": "none", "f": "ok"} if e["ev"] == "Tick" else {"op": e["op"], "i": e["i"], "f": e["f"]})
        sig = {"invariant": v["names"][0]}
        f = vlib.known_match(prop, sig)
        if f:
            known.append(f)
            continue
        path = vlib.save_replay(prop, "seq%d" % v["trace"], {"property": prop, "invariants": v["names"], "ops": ops, "failing_event": json.loads(lines[i])})
        violations.append({"replay": path, "what": "%s at %s in sequence %s" % (",".join(v["names"]), lines[i], [o["op"] + ":" + o["i"] + ":" + o["f"] for o in ops][:12])})
    cov = {"unbounded_design_proof": {"spec": "LeaseInd.tla", "engine": "apalache (inductive invariant)", "obligations": ind},
           "states": r1["distinct"] + r2["distinct"], "transitions": r1["generated"] + r2["generated"],
           "traces_validated_against_impl": nseq, "samples": samples[:4], "exhaustive": True,
           "calls_on_real_election": ncalls, "tlc_generated_sequences": n, "of_them_with_a_late_reply": nlate,
           "explanation": "D: 3 contenders, TTL 3, all interleavings of campaign/renew/resign/tick/lost/failed calls (%d distinct states). "
                          "Replay: every operation sequence of depth <= %d over 2 contenders (11 operations) + %d seeded random sequences of %d operations over 3 contenders"
                          % (r1["distinct"], hist, nrand * shards, rlen)}
    vlib.write_evidence(prop, tier, seed, "model_checking", cov,
                        ["the lease store executes the received script text with a mini Lua interpreter covering the constructs the scripts use; an unknown construct is a harness error",
                         "virtual clock with 1 s ticks; sub-second expiry races are not modelled",
                         "instance-side renew scheduling (leaseRenewInterval <= leaseTimeout/3) is configuration arithmetic, not exercised"],
                        time.time() - t0, len(viol))
    vlib.conclude(prop, violations, known)
