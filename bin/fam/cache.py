"""C05 / C08 — the local cache.

C05: spec/trace/TraceCache.tla judges every answer of a real Channel (disk and memory back end)
     and every chunk its readers delivered under seeded operation sequences (snapshot/log
     writers fed with a keyed byte pattern, rotation, collection, readers at arbitrary offsets,
     writer replacement, resets).
C08: the disk cache directory is copied just before every file mutation (hook point
     "store.fs"); a fresh channel is opened on each frozen image (pristine and with one byte of
     a closed segment altered) and spec/trace/TraceCacheCrash.tla judges its answers.
D layer: spec/Cache.tla — design model of segments, rotation, reference-counted collection and
     readers, model-checked exhaustively."""
import json, os, time, shutil
import vlib

SPEC = os.path.join(vlib.VERIF, "spec")

DCFG = """SPECIFICATION Spec
CONSTANTS
  MaxRight = %(maxright)d
  LogSize = %(logsize)d
  MaxSize = %(maxsize)d
  Readers = %(readers)s
  Chunks = %(chunks)s
INVARIANTS TypeOK ReaderFaithful ValidImpliesReadable RangeContiguous SnapshotHasContinuation
CHECK_DEADLOCK FALSE
"""


def stall_cause(lines, start, at):
    """Classify a stalled reader: did it stop exactly at an offset where the live EMPTY segment was
    replaced by another writer (two writer replacements at the same offset with no byte between)?"""
    pos = {}
    last_writer_off, appended_since = None, True
    replaced_empty_at = set()
    for k in range(start, at + 1):
        e = json.loads(lines[k])
        if e["ev"] == "Op":
            if e["op"] == "aofwriter":
                if last_writer_off == e["off"] and not appended_since:
                    replaced_empty_at.add(e["off"])
                last_writer_off, appended_since = e["off"], False
            elif e["op"] == "append":
                appended_since = True
            elif e["op"] in ("snap", "reset"):
                last_writer_off, appended_since = None, True
                replaced_empty_at = set()
        elif e["ev"] == "Obs" and e.get("o") == "open":
            pos[e["r"]] = e["off"]
        elif e["ev"] == "Obs" and e.get("o") == "deliver":
            pos[e["r"]] = pos.get(e["r"], 0) + e["n"]
            if k == at:
                return "empty_live_segment_replaced" if pos[e["r"]] in replaced_empty_at else "other"
    return "other"


def check(prop, tier, seed, replay):
    t0 = time.time()
    work = vlib.scratch(prop)
    try:
        _check(prop, tier, seed, replay, work, t0)
    finally:
        vlib.cleanup(work)


def _check(prop, tier, seed, replay, work, t0):
    drv = vlib.build_driver("cachedrv", work)
    dcfg = dict(maxright=7, logsize=2, maxsize=4, readers="{1, 2}", chunks="{1, 2}") if tier == "quick" else \
        dict(maxright=9, logsize=2, maxsize=5, readers="{1, 2}", chunks="{1, 2, 3}")
    r = vlib.tlc([os.path.join(SPEC, "Cache.tla")], "Cache", DCFG % dcfg, work, timeout=3000)
    vlib.tlc_ok(r, "Cache.tla")
    crash = prop == "C08"
    shards = vlib.NCPU
    if crash:
        n, steps = (48, 36) if tier == "quick" else (320, 50)
    else:
        n, steps = (96, 40) if tier == "quick" else (800, 60)
    scratch = os.path.join(work, "cachework")
    os.makedirs(scratch)
    cmds = []
    for i in range(shards):
        c = [drv, "-work", os.path.join(scratch, "s%d" % i), "-seed", str(seed), "-n", str(n), "-steps", str(steps), "-shard", str(i),
             "-shards", str(shards), "-out", os.path.join(work, "t%d.ndjson" % i), "-stats", os.path.join(work, "s%d.json" % i)]
        os.makedirs(os.path.join(scratch, "s%d" % i))
        if crash:
            c += ["-crash", os.path.join(work, "c%d.ndjson" % i)]
        cmds.append(c)
    for rc, out in vlib.run_parallel(cmds, timeout=3000):
        if rc != 0:
            raise vlib.HarnessError("cachedrv failed (%d):\n%s" % (rc, out[-3000:]))
    shutil.rmtree(scratch, ignore_errors=True)
    trace = os.path.join(work, "trace.ndjson")
    nscen = nops = nimg = 0
    samples = []
    backend = {}
    with open(trace, "w") as w:
        for i in range(shards):
            s = json.load(open(os.path.join(work, "s%d.json" % i)))
            nscen += s["scenarios"]
            nops += s["ops"]
            nimg += s["images"]
            samples += (s.get("samples") or [])[:1]
            shutil.copyfileobj(open(os.path.join(work, ("c%d.ndjson" if crash else "t%d.ndjson") % i)), w)
    nrace = 0
    if not crash:
        # one race of the memory cache under stress (a log writer closed while its ingest goroutine rotates; a second writer
        # continues; a reader from the start has to reach the right edge): the stalled tries go into the trace
        mr = vlib.build_driver("memrace", work)
        nrace = 600 if tier == "quick" else 12000
        rc, out = vlib.run_parallel([[mr, "-n", str(nrace), "-out", os.path.join(work, "memrace.ndjson")]], timeout=3000)[0]
        if rc != 0:
            raise vlib.HarnessError("memrace failed (%d):\n%s" % (rc, out[-2000:]))
        with open(trace, "a") as w:
            shutil.copyfileobj(open(os.path.join(work, "memrace.ndjson")), w)
    if crash:
        viol, tr = vlib.tlc_trace([os.path.join(SPEC, "trace", "TraceCacheCrash.tla")], "TraceCacheCrash", trace, work, timeout=3000)
    else:
        viol, tr = vlib.tlc_trace([os.path.join(SPEC, "trace", "TraceCache.tla")], "TraceCache", trace, work, timeout=3000)
    violations, known = [], []
    lines = open(trace).read().splitlines() if viol else []
    seen = set()
    for v in viol:
        names = sorted(n for n in v["names"] if n.startswith(prop + "_") or n.startswith("HARNESS"))
        if any(n.startswith("HARNESS") for n in names):
            raise vlib.HarnessError("trace judged inconsistent with the harness's own bookkeeping: %s at line %d" % (names, v["line"]))
        if not names:
            continue
        rec = json.loads(lines[v["line"] - 1])
        if crash:
            sig = {"invariant": names[0], "mutation": rec["why"].split("/")[0].split(" ")[0] if rec.get("why") else "", "altered": rec.get("altered", "") != ""}
            what = "%s on image frozen before '%s' files=%s range=[%s,%s] snapshot=%s altered=%s" % (
                ",".join(names), rec.get("why", "")[:60], rec.get("files"), rec.get("ll"), rec.get("rr"), rec.get("snap"), rec.get("altered"))
        else:
            # backend of the scenario
            j = v["line"] - 1
            while j > 0 and json.loads(lines[j])["ev"] != "Reset":
                j -= 1
            be = json.loads(lines[j]).get("backend")
            sig = {"invariant": names[0], "backend": be}
            if names[0] == "C05_ReaderStalled":
                sig["cause"] = stall_cause(lines, j, v["line"] - 1)
            what = "%s (%s back end) at event %d of scenario %d: %s" % (",".join(names), be, v["line"], v["trace"], lines[v["line"] - 1][:200])
        f = vlib.known_match(prop, sig)
        if f:
            known.append(f)
            continue
        key = (names[0], v["trace"])
        if key in seen or len(violations) >= 10:
            continue
        seen.add(key)
        ctx = lines[j:v["line"]] if not crash else [lines[v["line"] - 1]]
        path = vlib.save_replay(prop, "t%d-%d" % (v["trace"], v["line"]), {"property": prop, "invariants": names, "events": [json.loads(x) for x in ctx]})
        violations.append({"replay": path, "what": what})
    cov = {"states": r["distinct"], "transitions": r["generated"],
           "traces_validated_against_impl": nimg if crash else nscen, "samples": samples[:3], "exhaustive": False,
           "scenarios": nscen, "operations": nops, "frozen_images_reopened": nimg, "trace_events": tr["distinct"] - 1,
           "d_layer": dcfg,
           "explanation": ("disk back end, every file mutation of %d seeded write sequences frozen and reopened (a quarter also with one altered byte in a closed segment)" % nscen)
           if crash else ("%d seeded operation sequences per run over disk and memory back ends, verifyCrc on, ~%d operations each" % (nscen, steps))}
    vlib.write_evidence(prop, tier, seed, "model_checking", cov,
                        ["process death with a coherent page cache (no reordering of unsynced writes)" if crash else
                         "operations are sequential at the harness (writer fed, then observed); true parallel interleavings inside the cache are not enumerated",
                         "content identity: byte = f(history, offset), compared in Go; TLC judges ranges, validity, counts, match flags",
                         "garbage collection timing is not prescribed by the P layer (only its consequences are judged)"],
                        time.time() - t0, len(violations))
    vlib.conclude(prop, violations, known)
