"""C06 — each (re)connection continues gap-free or takes a snapshot.

D layer : spec/Resync.tla — the five-branch decision of syncMeta against the source's PSYNC
          admission rule, for every combination of source state, stored position and cache
          contents up to the bound (one-step model, exhaustive).
P layer : spec/trace/TraceResync.tla judges what the real syncMeta asked a fake source that
          implements Redis' admission rule, and what the reader opened for the output then
          delivered from the real (pre-populated) disk / memory cache."""
import json, os, time, shutil
import vlib

SPEC = os.path.join(vlib.VERIF, "spec")
PINV = ("TypeOK E2E_NoGap E2E_TxnExactlyOnce E2E_TxnPrefix E2E_PositionTruthful E2E_ReaderNotAhead C06_ContinueFromStored C06_ContinuedSameHistory "
        "C06_ContinuedOnSameData C06_SnapshotOtherwise C06_DeliveredIsCurrentHistory C06_CacheIsCurrentHistory")
PCFG = ("SPECIFICATION Spec\nCONSTANTS\n  MaxLen = %d\n  MaxFailovers = 1\n  MaxLose = 1\n  MaxEnds = 2\n  MaxCacheLoss = 1\n  Txn = %s\n  FixSameId = TRUE\n  FixVoid = TRUE\n"
        "INVARIANTS " + PINV + "\nCHECK_DEADLOCK FALSE\n")
PLCFG = ("SPECIFICATION FairSpec\nCONSTANTS\n  MaxLen = 2\n  MaxFailovers = 1\n  MaxLose = 1\n  MaxEnds = 1\n  MaxCacheLoss = 1\n  Txn = TRUE\n  FixSameId = TRUE\n  FixVoid = TRUE\n"
         "PROPERTY E2E_Delivery\nCHECK_DEADLOCK FALSE\n")
TPCFG = ("SPECIFICATION TraceSpec\nCONSTANTS\n  TraceFile = \"trace.ndjson\"\n  MaxLen = 100000\n  MaxFailovers = 2\n  MaxLose = 100000\n  MaxEnds = 100000\n  MaxCacheLoss = 100000\n"
         "  Txn = FALSE\n  FixSameId = TRUE\n  FixVoid = TRUE\n"
         "INVARIANTS E2E_NoGap C06_DeliveredIsCurrentHistory C06_CacheIsCurrentHistory E2E_PositionTruthful C06_ContinueFromStored C06_ContinuedSameHistory "
         "C06_SnapshotOtherwise E2E_ReaderNotAhead T_TxnExactlyOnce T_TxnPrefix\nPOSTCONDITION TraceAccepted\nCHECK_DEADLOCK FALSE\n")


def check(prop, tier, seed, replay):
    t0 = time.time()
    work = vlib.scratch(prop)
    try:
        _check(prop, tier, seed, replay, work, t0)
    finally:
        vlib.cleanup(work)


def _check(prop, tier, seed, replay, work, t0):
    drv = vlib.build_driver("resyncdrv", work)
    mo, s = (5, 2) if tier == "quick" else (6, 3)
    cfg = "SPECIFICATION Spec\nCONSTANTS\n  MaxOff = %d\n  S = %d\nINVARIANT C06\nCHECK_DEADLOCK FALSE\n" % (mo, s)
    r = vlib.tlc([os.path.join(SPEC, "Resync.tla")], "Resync", cfg, work, timeout=3000)
    vlib.tlc_ok(r, "Resync.tla")
    shards = vlib.NCPU
    n = 3200 if tier == "quick" else 40000
    scratch = os.path.join(work, "rs")
    cmds = []
    for i in range(shards):
        os.makedirs(os.path.join(scratch, "s%d" % i))
        cmds.append([drv, "-work", os.path.join(scratch, "s%d" % i), "-seed", str(seed), "-n", str(n), "-shard", str(i), "-shards", str(shards),
                     "-out", os.path.join(work, "t%d.ndjson" % i), "-stats", os.path.join(work, "s%d.json" % i)])
    for rc, out in vlib.run_parallel(cmds, timeout=3000):
        if rc != 0:
            raise vlib.HarnessError("resyncdrv failed (%d):\n%s" % (rc, out[-3000:]))
    shutil.rmtree(scratch, ignore_errors=True)
    trace = os.path.join(work, "trace.ndjson")
    nscen = 0
    kinds = {}
    samples = []
    with open(trace, "w") as w:
        for i in range(shards):
            s_ = json.load(open(os.path.join(work, "s%d.json" % i)))
            nscen += s_["scenarios"]
            for k, v in s_["kinds"].items():
                kinds[k] = kinds.get(k, 0) + v
            samples += (s_.get("samples") or [])[:1]
            shutil.copyfileobj(open(os.path.join(work, "t%d.ndjson" % i)), w)
    viol, tr = vlib.tlc_trace([os.path.join(SPEC, "trace", "TraceResync.tla")], "TraceResync", trace, work, timeout=3000)
    violations, known = [], []
    lines = open(trace).read().splitlines() if viol else []
    seen = set()
    for v in viol:
        if any(n_.startswith("HARNESS") for n_ in v["names"]):
            raise vlib.HarnessError("harness inconsistency %s" % v["names"])
        rec = json.loads(lines[v["line"] - 1])
        sig = {"invariant": v["names"][0], "backend": rec["backend"]}
        f = vlib.known_match(prop, sig)
        if f:
            known.append(f)
            continue
        key = (v["names"][0], rec["src"]["id1"], rec["out"]["id"], rec["cache"]["label"])
        if key in seen or len(violations) >= 10:
            continue
        seen.add(key)
        path = vlib.save_replay(prop, "r%d" % v["trace"], {"property": prop, "invariants": v["names"], "scenario": rec})
        violations.append({"replay": path, "what": "%s: S=%s src=%s out=%s cache=%s psync=%s decision=%s delivered=%s (%s)" % (
            ",".join(v["names"]), rec["S"], rec["src"], rec["out"], rec["cache"], rec["psync"], rec["decision"], rec["deliv"], rec["backend"])})
    # ---- end to end: the whole pipeline (real RedisInput.Run with its run loop and back-off, real cache, real
    # RedisOutput) between a fake master (drops, fail-over, backlog loss) and the fake target
    e2e = vlib.build_driver("e2edrv", work)
    ne = 64 if tier == "quick" else 640
    ework = os.path.join(work, "e2e")
    os.makedirs(ework)
    npc = 48 if tier == "quick" else 320
    cmds = [[e2e, "-seed", str(seed), "-n", str(ne), "-pipecrash", str(npc), "-work", ework, "-shard", str(i), "-shards", str(shards), "-events", os.path.join(work, "ev%d.ndjson" % i),
             "-out", os.path.join(work, "e%d.ndjson" % i), "-stats", os.path.join(work, "es%d.json" % i)] for i in range(shards)]
    for rc, out in vlib.run_parallel(cmds, timeout=6000):
        if rc != 0:
            raise vlib.HarnessError("e2edrv failed (%d):\n%s" % (rc, out[-3000:]))
    etrace = os.path.join(work, "e2e.ndjson")
    e2e_scen = 0
    e2e_faults = {}
    with open(etrace, "w") as w:
        for i in range(shards):
            s_ = json.load(open(os.path.join(work, "es%d.json" % i)))
            e2e_scen += s_["scenarios"]
            for k, v in s_["faults"].items():
                e2e_faults[k] = e2e_faults.get(k, 0) + v
            shutil.copyfileobj(open(os.path.join(work, "e%d.ndjson" % i)), w)
    eviol, etr = vlib.tlc_trace([os.path.join(SPEC, "trace", "TraceE2E.tla")], "TraceE2E", etrace, work, timeout=3000, extra_constants='CONSTANT Prop = "C06"\n')
    elines = open(etrace).read().splitlines() if eviol else []
    for v in eviol:
        rec = json.loads(elines[v["line"] - 1])
        sig = {"invariant": v["names"][0], "backend": "disk" if rec["disk"] else "memory", "txn": rec["txn"]}
        f = vlib.known_match(prop, sig)
        if f:
            known.append(f)
            continue
        if len(violations) >= 10:
            continue
        path = vlib.save_replay(prop, "e%d" % v["trace"], {"property": prop, "invariants": v["names"], "scenario": rec})
        violations.append({"replay": path, "what": "%s (end to end): txn=%s %s faults=%s commands=%d initial=%s total=%s lists=%s psync=%s complete=%s err=%s" % (
            ",".join(v["names"]), rec["txn"], "disk" if rec["disk"] else "memory", rec["faults"], rec["ncmds"], rec["initial"], rec["total"], rec["lists"],
            [(p_["id"], p_["off"] - rec["base"], p_["reply"]) for p_ in rec["psync"]], rec["complete"], rec["err"])})
    # ---- the same runs event by event: every event must be a step of Pipeline.tla (trace/TracePipeline.tla reuses its
    # step operators; commands arriving in the cache and runs ending are inferred), its invariants hold in every state
    pdist = pgen = 0
    pruns = []
    for txn in ("TRUE", "FALSE"):
        pr = vlib.tlc([os.path.join(SPEC, "Pipeline.tla")], "Pipeline", PCFG % ((3 if tier == "quick" else 4), txn), work, timeout=3000, name="PipelineD")
        vlib.tlc_ok(pr, "Pipeline.tla Txn=%s" % txn)
        pdist += pr["distinct"]
        pgen += pr["generated"]
        pruns.append({"spec": "Pipeline", "Txn": txn, "distinct": pr["distinct"]})
    pl = vlib.tlc([os.path.join(SPEC, "Pipeline.tla")], "Pipeline", PLCFG, work, timeout=3000, name="PipelineL")
    vlib.tlc_ok(pl, "Pipeline.tla liveness")
    pruns.append({"spec": "Pipeline", "liveness": "E2E_Delivery under FairSpec", "distinct": pl["distinct"]})
    ptraces = []
    cur = None
    for i in range(shards):
        for line in open(os.path.join(work, "ev%d.ndjson" % i)):
            if '"ev":"PReset"' in line:
                cur = open(os.path.join(work, "p%d.ndjson" % len(ptraces)), "w")
                ptraces.append(cur.name)
            cur.write(line)
    if cur:
        cur.close()
    pres = vlib.tlc_replay_each([os.path.join(SPEC, "Pipeline.tla"), os.path.join(SPEC, "trace", "TracePipeline.tla")], "TracePipeline", TPCFG, ptraces, work)
    rejected = []
    pevents = 0
    for x in pres:
        evs = [json.loads(l_) for l_ in open(x["trace"])]
        pevents += len(evs)
        hdr = evs[0]
        if x["invariant"]:
            name = "C06_Pipeline_" + x["invariant"]
            sig = {"invariant": name, "backend": "disk" if hdr["disk"] else "memory", "txn": hdr["txn"]}
            f = vlib.known_match(prop, sig)
            if f:
                known.append(f)
            elif len(violations) < 10:
                path = vlib.save_replay(prop, "p%d" % hdr["id"], {"property": prop, "invariants": [name], "at_event": x["line"], "events": evs})
                violations.append({"replay": path, "what": "%s: the run is a behaviour of Pipeline.tla up to event %s and reaches a state that violates %s: txn=%s %s faults=%s" % (
                    name, x["line"], x["invariant"], hdr["txn"], "disk" if hdr["disk"] else "memory", hdr["faults"])})
        elif x["rejected_at"]:
            rejected.append("scenario %d (txn=%s %s faults=%s): event %d is no step of the specification: %s" % (
                hdr["id"], hdr["txn"], "disk" if hdr["disk"] else "memory", hdr["faults"], x["rejected_at"], json.dumps(evs[x["rejected_at"] - 1])[:300] if x["rejected_at"] <= len(evs) else "end"))
    if rejected:
        # the implementation did something the design specification does not allow although no property formula is violated:
        # drift between code and Pipeline.tla (or a specification that is too strict) - reported, never a verdict; the
        # verdict of these runs rests on TraceE2E.tla and on Pipeline.tla's invariants up to the rejected event
        print("SPEC-DRIFT: TracePipeline.tla rejected %d of %d runs:\n  %s" % (len(rejected), len(pres), "\n  ".join(rejected[:8])))
        for x in pres:
            if x["rejected_at"] and not x["invariant"]:
                vlib.save_replay(prop, "drift-%s" % os.path.basename(x["trace"]), {"rejected_at": x["rejected_at"], "events": [json.loads(l_) for l_ in open(x["trace"])]})
    nscen += e2e_scen
    cov = {"states": r["distinct"] + pdist, "transitions": r["generated"] + pgen, "traces_validated_against_impl": nscen, "samples": samples[:2], "exhaustive": False,
           "end_to_end_scenarios": e2e_scen, "end_to_end_faults": e2e_faults,
           "pipeline_design_runs": pruns, "pipeline_traces_replayed_on_Pipeline_tla": len(pres), "pipeline_trace_events": pevents, "pipeline_traces_rejected": len(rejected), "spec_drift": bool(rejected),
           "delivered_kinds": kinds,
           "explanation": "D: every combination of source (same id / failover with previous id and switch offset / new id; backlog window), stored position and cache shape "
                          "for offsets 0..%d, shared prefix %d (%d configurations). Real code: %d seeded combinations on disk and memory caches populated by real writers; %d end-to-end runs of the whole pipeline with up to two faults (connection drop, drop inside a command, fail-over to a new id, backlog loss, target crash)" % (mo, s, r["distinct"] // 2, nscen - e2e_scen, e2e_scen)}
    vlib.write_evidence(prop, tier, seed, "model_checking", cov,
                        ["the fake source implements masterTryPartialResynchronization's rule (replid, replid2 + second_replid_offset, backlog window) and FULLRESYNC with a length-prefixed snapshot",
                         "syncData's writer/reader wiring is reproduced by the decision driver (rdb writer, aof writer, reader at outSp); the run loop, its back-off, the output replay and reconnections are exercised by the end-to-end driver (RedisInput.Run + cache + RedisOutput between a fake master and the fake target; final lists judged by TraceE2E.tla)",
                         "histories: A, its promoted replica B (shared prefix S), unrelated C"],
                        time.time() - t0, len(violations))
    vlib.conclude(prop, violations, known)
