#!/usr/bin/env python3
"""Regenerates MANIFEST.json from the table below (single source of truth)."""
import json, os, subprocess
V = os.path.dirname(os.path.dirname(os.path.abspath(__file__)))

CLAIMED = {
 "C01": dict(tech="TLA+ design spec (Replay.tla) model-checked with TLC + TLC trace validation (TraceReplay.tla) of lockstep executions of the real RedisOutput.Send",
             text="TLC explores every interleaving of parser, sender, tickers and target for all well-formed streams up to the bound; every execution recorded from the real replay (seeded streams with binary arguments, DB maps, filters, tick schedules, blocking and pipelined) is validated event by event against the target model and the C01 formulas (order, no gap, no duplicate, no invented or filtered command, right DB, nothing lost at quiescence).",
             note="Trusted: TLC, the fake target's RESP/MULTI semantics (twin of the TLA+ target model), byte-wise projection of commands onto item indices in Go. Bounds in evidence.", ref="4 C01"),
 "C02": dict(tech="TLC on Replay.tla with Crash/Restart + TLC trace validation of real crash/restart runs (target dies after every k-th received request)",
             text="Crash points are enumerated on the real request sequence (every prefix incl. inside MULTI, between batch and checkpoint, after a barrier), 1-2 successive crashes, both checkpoint modes; each trace is checked for: stored position never covers an unapplied write/SELECT/bracket, resume DB right, no gap after resume, no repeat in transactional mode, everything applied at the end.",
             note="Process death only (connections closed, open MULTI discarded). Trusted as C01.", ref="4 C02"),
 "C07": dict(tech="TLC on Replay.tla (idle ticks enabled everywhere) + TLC trace validation of every checkpoint write of real runs",
             text="Every value written to <runid>_offset in every recorded run (idle ticks before the first item, random tick schedules, restarts, idle stop/start) must be a command boundary of the fed stream, non-decreasing, with a run id next to the newest position; StartPoint after each restart must not fall back to a full resync.",
             note="Trusted as C01; offsets < 2^31.", ref="4 C07"),
 "C10": dict(tech="TLA+ definitional filter semantics (env/Filter.tla) + TLC enumeration of slot-range configurations (FilterCases.tla) + TLC trace validation (TraceFilter.tla) of decisions recorded from the real filter and parser",
             text="TLC enumerates every white/black slot-range list over a point set (overlapping, nested, adjacent, unsorted) and checks the algebraic consequences of 'union of ranges'; every configuration is instantiated on the real RedisKeyFilter and probed at all boundaries with witness keys; seeded random configurations (binary prefixes, DB/command blacklists, 23 multi-key command templates) are run through FilterCmdKey/FilterKey/FilterSlot/FilterDb and end to end through parseAofCommand; TLC recomputes each decision (accept/withhold/projection, arguments intact) from the definition.",
             note="Key positions of exercised commands stated independently in the driver; snapshot-path filtering exercised by C03; bisync namespace by C13.", ref="4 C10"),
 "C11": dict(tech="TLA+ HASH_SLOT definition (env/Slot.tla, CRC16 via Bitwise) + TLC-checked one-pass scan algorithm (SlotScan.tla) + TLC trace validation (TraceSlot.tla) of observations from every real slot computation site",
             text="Exhaustive over all strings of length <= 6 (quick) / 7 (thorough) over the alphabet {'{','}',a,b}: TLC proves the scan algorithm equal to the definition and writes the strings; the driver evaluates redis.KeyToSlot, cluster.GetSlot, slot-filter decisions and bisync slot tags on them and on seeded random byte strings; TLC recomputes HASH_SLOT for each observation.",
             note="Definition transcribed from Redis cluster.c; CRC16/XMODEM check value asserted in the spec; long keys sampled.", ref="4 C11"),
 "C12": dict(tech="TLA+ RESP offset arithmetic (env/Resp.tla) validated against the concrete encoding by TLC (RespCases.tla) + TLC trace validation (TraceResp.tla) of the real Decoder / parseAofCommand / Writer",
             text="TLC builds every command sequence (<=2 commands x <=3 arguments, lengths crossing the digit boundaries, heartbeats) and checks that the per-command end offsets partition the byte stream; each is run through the real Decoder under fragmented reads and bufio sizes 16/64/4096, through parseAofCommand (offset attached to the forwarded command) and through Writer->Decoder; seeded random streams with arguments up to MBs. TLC judges command count, argument lengths, byte-identity flag and every reported offset.",
             note="Argument bytes compared in Go (patterns containing CR LF, RESP type bytes, 0x00, 0xFF); TLC judges lengths/offsets. Offsets < 2^31.", ref="4 C12"),
 "C15": dict(tech="TLA+ lease spec (Lease.tla + env/LeaseStore.tla) model-checked with TLC; TLC-generated operation sequences replayed on the real redisElection against a lease store that interprets the received Lua text; TLC trace validation (TraceLease.tla)",
             text="TLC explores all interleavings of campaign/renew/resign by 3 contenders with ticks, lost replies and failed calls (at most one acting leader, acting implies holder, holder ceases within one lease period); every operation sequence up to the history bound plus seeded random sequences is executed on the real election code; each reply, the store's holder and remaining time, and the leadership told to instances are judged against the intended compare-and-set semantics.",
             note="Mini Lua interpreter limited to the scripts' constructs (else exit 2); 1 s virtual clock ticks; etcd election not covered.", ref="4 C15"),
 "C05": dict(tech="TLA+ design model of the cache (Cache.tla: segments, rotation, reference-counted collection, readers) model-checked with TLC + TLC trace validation (TraceCache.tla) of seeded operation sequences on the real disk and memory channels",
             text="TLC checks the design (reader never loses its segment, valid implies readable, contiguous range, snapshot kept only with its continuation) over all interleavings of writer, collector and two readers within the bound. The real StoreChannel and MemoryChannel are driven with seeded operation sequences (snapshot writers incl. abort, log appends across rotation, collector passes, readers at arbitrary offsets, writer replacement, DelRunId, crc verification on); writers are fed byte = f(history, offset), so every delivered byte names its offset; TLC judges every range / validity / snapshot offer / delivery against what was written.",
             note="Operations are sequential at the harness; GC timing not prescribed; content compared in Go.", ref="4 C05"),
 "C08": dict(tech="TLC trace validation (TraceCacheCrash.tla) of the answers of a fresh disk channel reopened on directory images frozen before every file mutation of live writers (hook point store.fs), plus Cache.tla as design model",
             text="The disk cache directory is copied just before every file-system mutation (segment create/append/seal, snapshot tmp create/append/rename, per-file removal during reset and collector passes) of seeded write sequences; a fresh StoreChannel is opened on each image (and on a quarter of them with one byte of a closed segment altered, crc verification on); TLC judges: reported range fully readable, every served byte is the source byte of that offset, validity only inside range/snapshot, offered snapshot complete, altered segment never served.",
             note="Process death with coherent page cache; no reordering of unsynced writes.", ref="4 C08"),
 "C03": dict(tech="TLA+ design model of the snapshot pipeline (FullSync.tla) model-checked with TLC + TLC trace validation (TraceFullSync.tla) of real RedisOutput.Send runs on snapshots produced by an independent RDB encoder",
             text="An independent encoder (harness/rdbgen) serialises seeded abstract datasets in every list/set/zset/hash/string encoding of the property (ziplist and listpack integers of every width and sign, 5-byte prevlen, unknown-length ziplists, LZF, quicklist v1/v2 incl. plain nodes, intsets, zipmaps) for RDB versions 6-12; each snapshot is replayed by the real code into the fake target under restore on/off, bulk limits, parallelism, pipe sizes, chunking threshold, DB map/blacklist; TLC judges the final typed keyspace against the encoded dataset (type, content, order, scores, absolute expiry, expired keys gone, nothing invented) and that every RESTORE payload was serialisation+valid footer.",
             note="rdbgen is trusted base; streams/modules/functions/hash-field-TTL encodings not generated; 3 s expiry tolerance.", ref="4 C03"),
 "C04": dict(tech="TLC on FullSync.tla (parser/target errors and cancellation at every instant, pipe capacities) + TLC trace validation of real fault-injected snapshot replays and of a loader-level enumeration of damaged snapshots",
             text="TLC checks 'checkpoint implies every entry applied' over all interleavings of parser, distributor, workers, error and cancel events. On the real code: random truncations and byte alterations of checksummed snapshots, a target error at a random data request, and cancellation with the window held open (reply of a data request withheld until all bytes are parsed, then cancel); every truncation length and every k-th alteration of every byte is fed to the real parser. TLC judges: damaged input => error and no checkpoint, checkpoint or ok => complete dataset.",
             note="Single-byte alterations only; parser may allocate up to corrupted lengths (slowness retried, not reported).", ref="4 C04"),
 "C20": dict(tech="TLC trace validation (TraceFullSync.tla policy rules) of real snapshot replays into a pre-populated fake target, FullSync.tla as design model",
             text="Half of the snapshot keys pre-exist on the target with same-type or other-type values, with and without expiry; the three policies are run on both replay paths incl. chunked values; TLC judges replace (exactly the snapshot value and expiry), ignore (prior key untouched, nothing merged, replay succeeds) and error (replay stops, clashing keys unmodified).",
             note="Plain replay path only; the bidirectional snapshot path is exercised by C13/C14 checks.", ref="4 C20"),
 "C17": dict(tech="TLA+ model of UpdateCheckpoint per target request with stop/restart (CkptMaint.tla) model-checked with TLC + TLC trace validation (TraceCkpt.tla) of every request prefix of the real maintenance operations",
             text="TLC enumerates all initial layouts over 3-4 databases and every stop point of the rename / failover / combined procedure followed by the next start. On the real code every prefix of the requests issued by UpdateCheckpoint (three variants) and DelStaleCheckpoint is cut by the fake target on seeded initial layouts (several databases with checkpoints, equal offsets, stale and fresh entries, databases without checkpoint), then the next start runs; TLC judges that the resume position is not lost, not smaller and in the same database.",
             note="Bidirectional namespace/mode migration not exercised; Go map order sampled by repetition.", ref="4 C17"),
 "C06": dict(tech="TLA+ one-step model of syncMeta against the PSYNC admission rule (Resync.tla) checked exhaustively with TLC + TLC trace validation (TraceResync.tla) of the real syncMeta against a fake source implementing that rule",
             text="TLC enumerates every combination of source state (same id, failover with previous id and switch offset, new id, backlog window), stored target position and cache shape within the bound and checks that the decision yields a gap-free continuation from the stored position on the same history, a snapshot, or nothing. The real syncMeta is run against a fake PSYNC master, a fake output position and a real disk/memory cache populated by real writers in thousands of seeded combinations; writer and reader are wired as the run loop does and TLC judges what was delivered (continuation start, history prefix rule, grant, byte identity, snapshot of the current history, no gap).",
             note="Run loop, retries and output replay not included; histories A / B (shared prefix) / C.", ref="4 C06"),
 "C09": dict(tech="TLC on Replay.tla (TxnMode) + TLC trace validation of real transactional runs with crash enumeration",
             text="For every source MULTI/EXEC group the target must apply all of its data commands in one EXEC block that also carries a position >= the group's EXEC; no stored or returned resume position may lie inside a group, at any crash point.",
             note="Standalone target with real MULTI/EXEC semantics modelled in TLA+.", ref="4 C09"),
 "C14": dict(tech="TLA+ model of lanes, commit journal, frontier coordinator, crash and start-up recovery (BisyncFrontier.tla) model-checked with TLC + TLC trace validation (TraceBisync.tla) of the real bidirectional replay with crash enumeration on standalone and cluster fakes",
             text="TLC explores every completion order across lanes, every stop point (also between frontier save and each journal deletion, and inside start-up recovery) and repeated restarts within the bound. The real sendAofBisync / bisyncStartPoint run in sync, pipeline and parallel mode against a standalone fake and a two-node cluster fake (hash-tagged keys, one lane stalled so that the timer flushes the frontier below later committed units); the target dies after every k-th write request, restarts once, twice and twice without traffic; TLC judges every EXEC block (unit whole, with marker and recovery record), every stored frontier, every resume point (unit end, nothing uncommitted before it, never backwards, sync mode exact) and that a start on a healthy target does not fail.",
             note="Lane completion order on the real code is steered by delays, not enumerated; the D layer enumerates it.", ref="4 C14"),
 "C18": dict(tech="TLA+ model of the unit admission scan over the definitional HASH_SLOT (UnitRoute.tla) model-checked with TLC, every enumerated unit replayed into the real code + TLC trace validation (TraceBisync.tla) against a slot-checking cluster fake",
             text="TLC checks admit <=> (all keys determinable and one slot), nothing sent on refusal and single-slot transaction shape for every unit of 1-2 commands x 1-2 keys over nine key shapes (tags, empty tag, two tags, nested braces, non-ASCII bytes) and prints each unit with its verdict; each is fed through the real sendAofBisync against a two-node cluster fake. TLC then judges the raw requests: every MULTI/EXEC addresses one slot by an independent HASH_SLOT (business keys, marker, records, index), nothing of an unroutable unit is sent and Send returns an error, a routable unit is committed and not refused. Generated streams add seven kinds of unroutable last units and tags with UTF-8 / non-UTF-8 bytes.",
             note="No filter configured (filter-reduced transactions not covered); unknown commands always end in refusal because the fake's COMMAND GETKEYS reports no keys.", ref="4 C18"),
}

PENDING = {
 "C13": "check not built yet (Bisync.tla, DESIGN 4 C13)",
 "C14": "check not built yet (BisyncFrontier.tla, DESIGN 4 C14)",
 "C16": "check not built yet (Replica.tla, DESIGN 4 C16)",
 "C18": "check not built yet (Bisync.tla unit builder, DESIGN 4 C18)",
 "C19": "check not built yet (ClusterReplay.tla, DESIGN 4 C19)",
}

def commits():
    out = subprocess.run(["git", "-C", "/repo", "log", "--format=%h %s"], capture_output=True, text=True).stdout
    return [l.split()[0] for l in out.splitlines() if l.split(" ", 1)[1].startswith("verif:")]

m = {
 "version": 1,
 "setup_cmd": "bin/setup.sh",
 "hooks": {"guard": "verif (Go build tag)", "enable": "go build -tags verif (drivers are built by bin/check from /repo's working tree through harness/go.mod replace => /repo)",
           "baseline_off_cmd": "cd /repo && go build ./... && go test -vet=off -count=1 -timeout 25m ./...",
           "source_commits": commits(), "add_only": True},
 "engines": [{"name": "tlc", "path": "/opt/veriftools/tla/tla2tools.jar", "serves_properties": sorted(CLAIMED), "kind_free_text": "explicit-state model checker for the TLA+ specs under spec/ (exhaustive D-layer runs and monitor-style trace validation)"},
             {"name": "harness", "path": "harness/", "serves_properties": sorted(CLAIMED), "kind_free_text": "Go conformance drivers (fake peers, gates, crash injection) that record ndjson traces from the real code"}],
 "checks": [],
 "not_applicable": [{"property_id": k, "reason": v} for k, v in sorted(PENDING.items()) if k not in CLAIMED],
 "notes": "Verdicts come only from TLC evaluating property formulas on traces recorded from the real code (or on the abstract state after replaying a TLC behaviour). Design-level TLC counterexamples are never reported as violations. See DESIGN.md.",
}
for p, c in sorted(CLAIMED.items()):
    m["checks"].append({
        "property_id": p, "quick_cmd": "bin/check %s --tier quick" % p, "thorough_cmd": "bin/check %s --tier thorough" % p,
        "evidence_file": "evidence/%s.json" % p, "replay_cmd_template": "bin/check %s --replay {path}" % p, "engine": "tlc",
        "level_claimed": {"category": "model_checking", "text": c["text"], "design_ref": c["ref"]},
        "level_note": c["note"], "technique": c["tech"]})
json.dump(m, open(os.path.join(V, "MANIFEST.json"), "w"), indent=1)
print("MANIFEST.json: %d checks, %d not_applicable" % (len(m["checks"]), len(m["not_applicable"])))
