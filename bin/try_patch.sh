#!/bin/bash
# try_patch.sh <patch.diff> <prop> [<prop> ...] : apply a seeded change to /repo, run the quick checks, undo it.
set -u
patch=$(realpath "$1"); shift
cd /repo || exit 2
git apply "$patch" || { echo "patch does not apply"; exit 2; }
trap 'git -C /repo checkout -- . ; git -C /repo clean -fdq -- syncer pkg cmd config 2>/dev/null' EXIT
for p in "$@"; do
  echo "== $p"
  (cd /verif && timeout 3000 bin/check "$p" --tier quick 2>&1 | grep -E "^(VIOLATION|OK|KNOWN-FINDING|HARNESS-ERROR|  )" | head -8; echo "exit=${PIPESTATUS[0]}")
done
