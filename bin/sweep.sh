#!/bin/bash
# sweep.sh <tier> <seed...> : run every claimed check with several seeds; print one line per (check, seed).
tier=$1; shift
cd "$(dirname "$0")/.."
ids=$(python3 -c "import json; print(' '.join(c['property_id'] for c in json.load(open('MANIFEST.json'))['checks']))")
for seed in "$@"; do
  for id in $ids; do
    t0=$(date +%s)
    out=$(VERIF_SEED=$seed timeout 3600 bin/check $id --tier $tier 2>&1); rc=$?
    echo "seed=$seed $id rc=$rc $(( $(date +%s) - t0 ))s $(echo "$out" | grep -E '^(VIOLATION|HARNESS-ERROR)' | head -2 | cut -c1-200 | tr '\n' ' ')"
  done
done
