#!/usr/bin/env python3
import json, sys, glob, jsonschema
jsonschema.validate(json.load(open('MANIFEST.json')), json.load(open('/root/.vp/MANIFEST.schema.json')))
print('manifest valid')
es = json.load(open('/root/.vp/EVIDENCE.schema.json'))
for f in sorted(glob.glob('evidence/*.json')):
    jsonschema.validate(json.load(open(f)), es)
    print(f, 'valid')
