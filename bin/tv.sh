#!/bin/bash
# tv.sh <TraceModule> <trace.ndjson> : run one monitor-style trace spec on one trace file (development helper)
set -u
mod=$1; trace=$2
d=$(mktemp -d /verif/.work/tv.XXXXXX)
cp /verif/spec/trace/$mod.tla /verif/spec/*.tla /verif/spec/env/*.tla "$d"/ 2>/dev/null
cp "$trace" "$d/trace.ndjson"
printf 'SPECIFICATION Spec\nCONSTANT TraceFile = "trace.ndjson"\n%sPOSTCONDITION TraceAccepted\nCHECK_DEADLOCK FALSE\n' "${TV_CONSTANTS:-}" > "$d/$mod.cfg"
(cd "$d" && timeout 1200 /verif/bin/tlcx -workers 1 -metadir "$d/md" "$mod.tla" 2>&1 | grep -v '^Progress\|^$' | tail -${3:-25})
rm -rf "$d"
