------------------------------- MODULE Resync -------------------------------
(* D-layer prototype of syncer/input.go syncMeta + pkg/redis/psync.go against *)
(* a source that implements Redis' PSYNC admission rule.  Byte numbering:     *)
(* "offset X" = X bytes of the history are known; next wanted byte is X+1.    *)
EXTENDS Integers, Sequences, FiniteSets, TLC

CONSTANTS MaxOff, S      \* S = length of the prefix shared by histories A and B

Hist == {"A", "B", "C"}
None == "none"
\* content of byte n of history h (B is A's promoted replica: shares bytes 1..S)
Byte(h, n) == IF h = "B" /\ n <= S THEN <<"A", n>> ELSE <<h, n>>
SamePrefix(h1, h2, n) == \A k \in 1..n : Byte(h1, k) = Byte(h2, k)

VARIABLES src, out, cache, res, done
vars == <<src, out, cache, res, done>>

\* source: id1 current history, id2 previous (or none), second = second_replid_offset,
\* M = master_repl_offset, bl = first byte number still in the backlog
SrcStates ==
  {[id1 |-> "A", id2 |-> None, second |-> -1, M |-> m, bl |-> b] : m \in 1..MaxOff, b \in 1..(MaxOff + 1)}
  \cup {[id1 |-> "B", id2 |-> "A", second |-> S + 1, M |-> m, bl |-> b] : m \in S..MaxOff, b \in 1..(MaxOff + 1)}
  \cup {[id1 |-> "C", id2 |-> None, second |-> -1, M |-> m, bl |-> b] : m \in 1..MaxOff, b \in 1..(MaxOff + 1)}

\* target resume position: none, or (id, off) meaning the target applied Byte(id, 1..off)
OutStates == {[id |-> None, off |-> -1]} \cup {[id |-> h, off |-> o] : h \in Hist, o \in 0..MaxOff}

\* cache: label = directory name, hist = what the bytes really are, rdb = snapshot offset or -1,
\* [l, r] = range of log bytes held (bytes l+1..r), bound = storer already bound to the label
CacheStates ==
  {[label |-> None, hist |-> None, rdb |-> -1, l |-> -1, r |-> -1]}
  \cup {[label |-> h, hist |-> h, rdb |-> rd, l |-> l, r |-> r] :
          h \in Hist, l \in 0..MaxOff, r \in 0..MaxOff, rd \in {-1} \cup (0..MaxOff)}

WellFormedCache(c) ==
  c.label = None \/ (c.l <= c.r /\ (c.rdb = -1 \/ c.rdb = c.l) /\ c.r > 0)

Init == /\ src \in {s \in SrcStates : s.bl <= s.M + 1}
        /\ out \in OutStates
        /\ cache \in {c \in CacheStates : WellFormedCache(c)}
        /\ res = [kind |-> "pending"] /\ done = FALSE

InputIds == {src.id1, src.id2} \ {None}

(* --- source: replication.c masterTryPartialResynchronization --- *)
Psync(id, off) ==   \* request "psync id off+1"; off = -1 for "? -1"
  LET want == off + 1 IN
  IF id \notin Hist \/ off < 0 THEN [full |-> TRUE, id |-> src.id1, off |-> src.M]
  ELSE IF id # src.id1 /\ (id # src.id2 \/ want > src.second) THEN [full |-> TRUE, id |-> src.id1, off |-> src.M]
  ELSE IF want < src.bl \/ want > src.M + 1 THEN [full |-> TRUE, id |-> src.id1, off |-> src.M]
  ELSE [full |-> FALSE, id |-> src.id1, off |-> off]   \* +CONTINUE <id1>

(* --- channel answers (disk backend) --- *)
LocSp == IF cache.label \in InputIds /\ cache.r # 0 THEN [id |-> cache.label, off |-> cache.r]
         ELSE [id |-> "?", off |-> -1]
InRange(off) == cache.label # None /\
                ((cache.l <= off /\ off <= cache.r) \/ (cache.l >= off /\ cache.rdb # -1))
IsValidOffset(id, off) == IF id = "?" THEN ~InRange(-1) ELSE id = cache.label /\ InRange(off)
OutSp == IF out.id \in InputIds THEN out ELSE [id |-> "?", off |-> -1]  \* fields of other ids are invisible

(* --- syncMeta decision table (input.go 218-280) --- *)
Decide ==
  LET o == OutSp  loc == LocSp IN
  IF o.id \in InputIds /\ loc.id \in InputIds THEN
     \* (fix) the cache is trusted only when both positions carry the same replication id
     IF o.id = loc.id /\ IsValidOffset(loc.id, o.off)
     THEN LET p == Psync(loc.id, loc.off) IN [p |-> p, clear |-> FALSE, loc |-> loc, o |-> o, rdbLocal |-> FALSE, br |-> "1a"]
     ELSE LET p == Psync(o.id, o.off) IN
          [p |-> p, clear |-> TRUE, loc |-> IF p.full THEN loc ELSE [id |-> p.id, off |-> o.off], o |-> o, rdbLocal |-> FALSE, br |-> "1b"]
  ELSE IF o.id \in InputIds THEN
     LET p == Psync(o.id, o.off) IN
     [p |-> p, clear |-> TRUE, loc |-> IF p.full THEN loc ELSE [id |-> p.id, off |-> o.off], o |-> o, rdbLocal |-> FALSE, br |-> "2"]
  ELSE IF loc.id \in InputIds /\ o.id = "?" THEN
     IF cache.rdb # -1
     THEN LET p == Psync(loc.id, loc.off) IN
          [p |-> p, clear |-> FALSE, loc |-> loc, o |-> IF p.full THEN o ELSE [id |-> o.id, off |-> cache.rdb - 1],
           rdbLocal |-> ~p.full, br |-> "3a"]   \* off below the snapshot: reader picks the cached snapshot
     ELSE [p |-> Psync("?", -1), clear |-> FALSE, loc |-> loc, o |-> o, rdbLocal |-> FALSE, br |-> "3b"]
  ELSE [p |-> Psync("?", -1), clear |-> FALSE, loc |-> loc, o |-> o, rdbLocal |-> FALSE, br |-> "4"]

\* what the reader opened at readOff delivers from the cache as it is after ApplyMeta, followed
\* by the live bytes the source now sends (Byte(cur, w+1..)) appended at position w
Reconnect ==
  /\ ~done /\ done' = TRUE
  /\ LET d == Decide
         p == d.p
         cleared == p.full \/ d.clear
         c2 == IF cleared THEN [label |-> p.id, hist |-> p.id, rdb |-> -1, l |-> -1, r |-> -1]
               ELSE [cache EXCEPT !.label = p.id]            \* SetRunId: switch / rename
         writeAt == IF p.full THEN p.off ELSE d.loc.off       \* writer offset
         readAt == IF p.full THEN p.off - 1 ELSE d.o.off      \* reader start (snapshot: below its offset)
         \* bytes numbered readAt+1 .. writeAt come from the cache, the rest live
         fromCache == IF p.full \/ cleared THEN <<>>
                      ELSE [n \in 1..(IF writeAt > readAt THEN writeAt - readAt ELSE 0) |-> Byte(c2.hist, readAt + n)]
         inLog == ~cleared /\ c2.l <= readAt /\ readAt <= c2.r
         viaRdb == ~cleared /\ ~inLog /\ c2.rdb # -1 /\ readAt <= c2.rdb
         kind == IF p.full THEN "snapshot"
                 ELSE IF cleared THEN (IF readAt = writeAt THEN "continue" ELSE "error")
                 ELSE IF inLog THEN "continue" ELSE IF viaRdb THEN "cachedSnapshot" ELSE "error"
     IN res' = [kind |-> kind,
                br |-> d.br, full |-> p.full, cur |-> src.id1, readAt |-> readAt, writeAt |-> writeAt,
                snapOff |-> IF p.full THEN p.off ELSE IF viaRdb THEN c2.rdb ELSE -1,
                cached |-> IF kind = "continue" THEN fromCache ELSE <<>>,
                cacheHist |-> c2.hist, cacheL |-> c2.l, cacheR |-> c2.r,
                holeFree |-> cleared \/ writeAt = c2.r]
  /\ UNCHANGED <<src, out, cache>>

Next == Reconnect
Spec == Init /\ [][Next]_vars

(* ---------------- property C06 ---------------- *)
\* the target already holds Byte(out.id, 1..out.off) (nothing if none)
TargetPrefixOk == out.id = None \/ SamePrefix(out.id, src.id1, out.off)
C06 == done =>
  CASE res.kind = "snapshot" -> TRUE       \* complete snapshot of the current history + stream from its offset
    [] res.kind = "cachedSnapshot" ->      \* cached snapshot + cached log + live stream: all of the current history
         /\ SamePrefix(cache.hist, src.id1, cache.r)
         /\ res.holeFree
    [] res.kind = "error" -> TRUE          \* nothing is delivered; the run is retried
    [] res.kind = "continue" ->
         /\ out.id # None /\ out.id \in InputIds
         /\ res.readAt = out.off                                 \* exactly from the stored position
         /\ TargetPrefixOk                                       \* same replication history
         /\ res.holeFree                                         \* no gap between cache and live bytes
         /\ \A n \in 1..Len(res.cached) : res.cached[n] = Byte(src.id1, res.readAt + n)
         /\ res.writeAt >= res.readAt
    [] OTHER -> FALSE
=============================================================================
