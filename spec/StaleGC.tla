------------------------------- MODULE StaleGC -------------------------------
(* Design level of C17, the stale-checkpoint collector (cmd/syncer.go            *)
(* gcStaleCheckpoint + checkpoint.DelStaleCheckpoint) next to what it races      *)
(* with.  Source shards report a current and a previous replication id; the      *)
(* target holds entries (id, offset, aged?) and a register of ids.  An entry     *)
(* becomes "aged" at any time: the periodic position update rewrites the offset  *)
(* only, the modification stamp is written when an entry is created or moved.    *)
(*                                                                                *)
(* One pass of the collector is two steps with anything in between:               *)
(*   Collect   ask every source node for its ids.  A node that cannot be reached *)
(*             ends the pass (the code), or is skipped (SkipUnreachable - the    *)
(*             design of seeds C02-f / C07-f).                                   *)
(*   Sweep     for every registered id: known -> delete its aged entries except  *)
(*             the newest; unknown -> delete all its aged entries, and the id    *)
(*             from the register when nothing is left.                           *)
(* A fail-over gives a shard a new current id; the next start of its link moves   *)
(* the position to that id (Rekey) - with a fresh stamp (the code), or with the   *)
(* stamp of the entry it moves (FreshStamp = FALSE - the design of seed C17-e).   *)
(*                                                                                *)
(* Property: C17_LivePositionKept - the position the next start of a shard's     *)
(* link finds (greatest offset under its current or previous id) never goes      *)
(* back and is never lost.  TLC: holds for the code's design, refuted for each   *)
(* of the two variants (both controls run on every check).                       *)
EXTENDS Integers, FiniteSets, TLC

CONSTANTS Shards, SkipUnreachable, FreshStamp, MaxFailovers, MaxPasses

Ids == 0..(Cardinality(Shards) * (MaxFailovers + 1))     \* 0 = "no previous id"
Offs == 1..2

VARIABLES cur, prev,     \* ids a shard reports
          up,            \* the shard's nodes can be reached
          entries,       \* set of [id, off, aged]
          reg,           \* registered ids
          known, phase,  \* the collector: ids collected, "idle" | "sweep"
          nextId, fails, passes
vars == <<cur, prev, up, entries, reg, known, phase, nextId, fails, passes>>

Resume(s, es) == LET S == {e.off : e \in {x \in es : x.id \in {cur[s], prev[s]} \ {0}}} IN
                 IF S = {} THEN -1 ELSE CHOOSE o \in S : \A x \in S : x <= o

Init == /\ \E f \in [Shards -> 1..Cardinality(Shards)] :
              /\ \A a, b \in Shards : a # b => f[a] # f[b]
              /\ cur = f
        /\ prev = [s \in Shards |-> 0] /\ up = [s \in Shards |-> TRUE]
        /\ \E offs \in [Shards -> Offs], ag \in [Shards -> BOOLEAN] :
              entries = {[id |-> cur[s], off |-> offs[s], aged |-> ag[s]] : s \in Shards}
        /\ reg = {cur[s] : s \in Shards}
        /\ known = {} /\ phase = "idle" /\ nextId = Cardinality(Shards) + 1 /\ fails = 0 /\ passes = 0

\* (timing assumption: a pass of the collector - milliseconds - is short against the stale duration - hours: nothing
\* crosses the age limit between Collect and Sweep)
Age == /\ phase = "idle"
       /\ \E e \in entries : ~e.aged /\ entries' = (entries \ {e}) \cup {[e EXCEPT !.aged = TRUE]}
       /\ UNCHANGED <<cur, prev, up, reg, known, phase, nextId, fails, passes>>

\* the replay goes on: the offset of the live entry grows, its stamp does not change
Progress(s) ==
  /\ \E e \in entries : e.id = cur[s] /\ e.off = Resume(s, entries) /\ e.off < 2
        /\ entries' = (entries \ {e}) \cup {[e EXCEPT !.off = @ + 1]}
  /\ UNCHANGED <<cur, prev, up, reg, known, phase, nextId, fails, passes>>

Failover(s) == /\ fails < MaxFailovers /\ prev[s] = 0 /\ nextId \in Ids
               /\ prev' = [prev EXCEPT ![s] = cur[s]] /\ cur' = [cur EXCEPT ![s] = nextId]
               /\ nextId' = nextId + 1 /\ fails' = fails + 1
               /\ UNCHANGED <<up, entries, reg, known, phase, passes>>

\* the next start of the shard's link moves the position found under the previous id to the current one
Rekey(s) ==
  /\ prev[s] # 0 /\ \E e \in entries : e.id = prev[s]
  /\ LET old == {e \in entries : e.id = prev[s]}
         best == CHOOSE e \in old : \A x \in old : x.off <= e.off IN
     /\ entries' = (entries \ old) \cup {[id |-> cur[s], off |-> best.off, aged |-> IF FreshStamp THEN FALSE ELSE best.aged]}
     /\ reg' = (reg \ {prev[s]}) \cup {cur[s]}
  /\ UNCHANGED <<cur, prev, up, known, phase, nextId, fails, passes>>

Down(s) == up[s] /\ up' = [up EXCEPT ![s] = FALSE] /\ UNCHANGED <<cur, prev, entries, reg, known, phase, nextId, fails, passes>>
Up(s) == ~up[s] /\ up' = [up EXCEPT ![s] = TRUE] /\ UNCHANGED <<cur, prev, entries, reg, known, phase, nextId, fails, passes>>

Collect ==
  /\ phase = "idle" /\ passes < MaxPasses /\ passes' = passes + 1
  /\ LET reach == {s \in Shards : up[s]}
         ids == UNION {{cur[s], prev[s]} : s \in reach} IN
     IF reach = Shards \/ (SkipUnreachable /\ reach # {})
     THEN known' = ids /\ phase' = "sweep"
     ELSE known' = {} /\ phase' = "idle"                    \* the pass ends
  /\ UNCHANGED <<cur, prev, up, entries, reg, nextId, fails>>

Sweep ==
  /\ phase = "sweep" /\ phase' = "idle"
  /\ LET newest(i) == LET S == {e \in entries : e.id = i} IN
                      IF S = {} THEN {} ELSE {CHOOSE e \in S : \A x \in S : x.off <= e.off}
         gone == {e \in entries : e.id \in reg /\ e.aged /\ ~(e.id \in known /\ e \in newest(e.id))} IN
     /\ entries' = entries \ gone
     /\ reg' = {i \in reg : i \in known \/ \E e \in entries \ gone : e.id = i}
  /\ known' = {} /\ UNCHANGED <<cur, prev, up, nextId, fails, passes>>

Next == Age \/ Collect \/ Sweep \/ \E s \in Shards : Progress(s) \/ Failover(s) \/ Rekey(s) \/ Down(s) \/ Up(s)
Spec == Init /\ [][Next]_vars

TypeOK == /\ phase \in {"idle", "sweep"} /\ \A e \in entries : e.off \in Offs /\ e.aged \in BOOLEAN
C17_LivePositionKept == [][\A s \in Shards : Resume(s, entries') >= Resume(s, entries)]_vars
=============================================================================
