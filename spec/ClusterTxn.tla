----------------------------- MODULE ClusterTxn -----------------------------
(* Design level of C19, transactional mode on a cluster target.  The sender    *)
(* cuts the stream into batches of B commands and appends the write of the     *)
(* resume position ("checkpoint": the number of commands covered) to each.     *)
(* What reaches a node is, element by element, either executed (the node owns  *)
(* the key's slot) or refused (MOVED / ASK / TRYAGAIN); slots change owner at   *)
(* any moment, also between two elements of one batch.  A batch with a refused *)
(* element ends the run: the slot map is refreshed and the next run starts at  *)
(* the stored position.                                                        *)
(*                                                                              *)
(* RealMulti = FALSE is what pkg/redis/client/cluster does today: the batchers  *)
(* drop MULTI / EXEC, a "transaction" is a plain pipeline - every element is    *)
(* judged on its own, the checkpoint write (whose slot does not move) always    *)
(* executes.  RealMulti = TRUE is the design with a real MULTI ... EXEC per     *)
(* batch (what the bidirectional txn batcher does): ownership of all keys is    *)
(* judged at EXEC, all elements and the checkpoint take effect or none.         *)
(*                                                                              *)
(* Properties:                                                                  *)
(*   C19_NoSkip                     no command executes while an earlier         *)
(*                                  command of its key has never been executed   *)
(*   C19_StoredPositionIsExecuted   every command the stored position covers     *)
(*                                  has been executed                            *)
(*   C19_NoSilentLoss               a run that reaches the end of the stream     *)
(*                                  has executed every command                   *)
(*   C19_TxnOncePerRun              no command executes twice within one run     *)
(* TLC: all four hold for RealMulti = TRUE; for FALSE the first three are        *)
(* refuted (the recorded C19-cluster-txn findings), the traces being the          *)
(* histories clusterdrv observes on the real code.                               *)
EXTENDS Integers, Sequences, FiniteSets, TLC

CONSTANTS Keys, Nodes, N, B, MaxMig, MaxRuns, RealMulti

VARIABLES stream,   \* stream[i] : key of source command i
          owner,    \* owner[k]  : node that owns the slot of k
          map,      \* map[k]    : node the sender believes owns it (refreshed at every restart)
          cp,       \* stored resume position: commands 1..cp are covered
          pos,      \* the current batch is pos+1 .. End(pos)
          e,        \* next element of the batch to reach its node (End(pos)-pos+1 = the checkpoint write)
          ref,      \* an element of the current batch was refused
          log,      \* source indices in execution order
          runlog,   \* the same, for the current run only
          migs, runs, skipped
vars == <<stream, owner, map, cp, pos, e, ref, log, runlog, migs, runs, skipped>>

End(p) == IF p + B < N THEN p + B ELSE N
Executed == {log[i] : i \in 1..Len(log)}

Init == /\ stream \in [1..N -> Keys] /\ owner \in [Keys -> Nodes] /\ map = owner
        /\ cp = 0 /\ pos = 0 /\ e = 1 /\ ref = FALSE /\ log = <<>> /\ runlog = <<>> /\ migs = 0 /\ runs = 1 /\ skipped = FALSE

Restart == /\ runs < MaxRuns /\ runs' = runs + 1 /\ map' = owner /\ pos' = cp /\ ref' = FALSE /\ e' = 1 /\ runlog' = <<>>

\* ---- today's code: a plain pipeline -------------------------------------------------------------------------------
Deliver ==
  /\ ~RealMulti /\ pos < N /\ pos + e <= End(pos)
  /\ LET i == pos + e IN
     IF map[stream[i]] = owner[stream[i]]
     THEN /\ log' = Append(log, i) /\ runlog' = Append(runlog, i) /\ ref' = ref
          /\ skipped' = (skipped \/ \E j \in 1..(i - 1) : stream[j] = stream[i] /\ j \notin Executed)
     ELSE /\ ref' = TRUE /\ UNCHANGED <<log, runlog, skipped>>
  /\ e' = e + 1 /\ UNCHANGED <<stream, owner, map, cp, pos, migs, runs>>

\* the checkpoint write is one more element of the pipeline; its slot never moves
DeliverCheckpoint ==
  /\ ~RealMulti /\ pos < N /\ pos + e = End(pos) + 1
  /\ cp' = End(pos) /\ e' = e + 1
  /\ UNCHANGED <<stream, owner, map, pos, ref, log, runlog, migs, runs, skipped>>

EndBatch ==
  /\ ~RealMulti /\ pos < N /\ pos + e = End(pos) + 2
  /\ IF ref THEN Restart /\ UNCHANGED <<stream, owner, cp, log, migs, skipped>>
     ELSE /\ pos' = End(pos) /\ e' = 1 /\ UNCHANGED <<stream, owner, map, cp, ref, log, runlog, migs, runs, skipped>>

\* ---- a real transaction per batch ---------------------------------------------------------------------------------
ExecAtomic ==
  /\ RealMulti /\ pos < N
  /\ LET idx == (pos + 1)..End(pos) IN
     IF \A i \in idx : map[stream[i]] = owner[stream[i]]
     THEN /\ log' = log \o [j \in 1..(End(pos) - pos) |-> pos + j]
          /\ runlog' = runlog \o [j \in 1..(End(pos) - pos) |-> pos + j]
          /\ skipped' = (skipped \/ \E i \in idx : \E j \in 1..(i - 1) : stream[j] = stream[i] /\ j \notin Executed /\ j \notin idx)
          /\ cp' = End(pos) /\ pos' = End(pos)
          /\ UNCHANGED <<stream, owner, map, e, ref, migs, runs>>
     ELSE Restart /\ UNCHANGED <<stream, owner, cp, log, migs, skipped>>

Migrate(k, n) ==
  /\ migs < MaxMig /\ owner[k] # n
  /\ owner' = [owner EXCEPT ![k] = n] /\ migs' = migs + 1
  /\ UNCHANGED <<stream, map, cp, pos, e, ref, log, runlog, runs, skipped>>

Next == Deliver \/ DeliverCheckpoint \/ EndBatch \/ ExecAtomic \/ \E k \in Keys, n \in Nodes : Migrate(k, n)
Spec == Init /\ [][Next]_vars

TypeOK == /\ cp \in 0..N /\ pos \in 0..N /\ e \in 1..(B + 2) /\ runs \in 1..MaxRuns /\ migs \in 0..MaxMig
C19_NoSkip == ~skipped
C19_StoredPositionIsExecuted == \A i \in 1..cp : i \in Executed
C19_NoSilentLoss == (pos = N) => Executed = 1..N
C19_TxnOncePerRun == \A i, j \in 1..Len(runlog) : i # j => runlog[i] # runlog[j]
=============================================================================
