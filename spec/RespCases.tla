------------------------------ MODULE RespCases ------------------------------
(* Small-scope input space for C12: command sequences described by their      *)
(* argument lengths (crossing the digit-count boundaries of the length        *)
(* prefixes) with bare-newline heartbeats between them, built incrementally.  *)
(* Invariants tie the offset arithmetic of env/Resp.tla to the concrete byte  *)
(* encoding; every reachable stream is printed as a case for the driver.      *)
EXTENDS Resp, FiniteSets, TLC, Json, SequencesExt

CONSTANTS Lens, MaxArgs, MaxCmds, MaxHb

VARIABLES cmds, hb
vars == <<cmds, hb>>
Init == cmds = <<>> /\ hb = <<>>
AddCmd(h, n) == /\ Len(cmds) < MaxCmds
                /\ cmds' = Append(cmds, <<n>>) /\ hb' = Append(hb, h)
AddArg(n) == /\ cmds # <<>> /\ Len(cmds[Len(cmds)]) < MaxArgs
             /\ cmds' = [cmds EXCEPT ![Len(cmds)] = Append(@, n)] /\ UNCHANGED hb
Next == (\E h \in 0..MaxHb, n \in Lens : AddCmd(h, n)) \/ (\E n \in Lens : AddArg(n))
Spec == Init /\ [][Next]_vars

EncLenIsConcreteLength == \A i \in 1..Len(cmds) : EncLen(cmds[i]) = Len(Enc(cmds[i]))
OffsetsPartitionTheStream ==
  /\ \A i \in 1..Len(cmds) : EndOff(0, hb, cmds, i) > EndOff(0, hb, cmds, i - 1)
  /\ EndOff(0, hb, cmds, Len(cmds)) = FoldSeq(LAMBDA c, acc : acc + Len(Enc(c)), 0, cmds) + FoldSeq(LAMBDA h, acc : acc + h, 0, hb)
EmitCase == cmds = <<>> \/ PrintT("CASE " \o ToJson([cmds |-> cmds, hb |-> hb]))
=============================================================================
