------------------------------- MODULE Bisync -------------------------------
(* Design level of C13: two sites, each with a replication stream, and two     *)
(* bidirectional links.  Link i reads the stream of site i and writes to site  *)
(* 1-i.  What a link writes lands in the target's stream as a mirrored          *)
(* transaction (first command = marker key in the reserved namespace) plus      *)
(* stand-alone bookkeeping commands; the opposite link has to recognise both    *)
(* and must forward everything else - also client writes whose *values* look    *)
(* like markers, and client transactions.                                        *)
(*                                                                                *)
(* RecogniseBy = "key" is the tool's rule (syncer/bisync.go                      *)
(* isBisyncMirroredTransaction / isBisyncControlCommand); "value" is the broken  *)
(* variant a seeded change could introduce (TLC then violates NoSwallow).        *)
EXTENDS Integers, Sequences, FiniteSets, TLC

CONSTANTS MaxWrites,     \* client writes per site
          RecogniseBy    \* "key" | "value"

Sites == {0, 1}
Other(s) == 1 - s

VARIABLES stream,   \* stream[s] : sequence of records of site s's replication stream
          pos,      \* pos[i]    : records of stream[i] consumed by link i
          applied,  \* applied[s]: <<origin, id>> of the units links applied at s, in order
          nclient   \* nclient[s]: client writes made at s so far
vars == <<stream, pos, applied, nclient>>

Rec(k, o, id, look) == [k |-> k, origin |-> o, id |-> id, look |-> look]

Init == /\ stream = [s \in Sites |-> <<>>] /\ pos = [s \in Sites |-> 0]
        /\ applied = [s \in Sites |-> <<>>] /\ nclient = [s \in Sites |-> 0]

\* a client writes a command or transaction; its values may look like a marker
ClientWrite(s, look) ==
  /\ nclient[s] < MaxWrites
  /\ nclient' = [nclient EXCEPT ![s] = @ + 1]
  /\ stream' = [stream EXCEPT ![s] = Append(@, Rec("client", s, nclient[s] + 1, look))]
  /\ UNCHANGED <<pos, applied>>

Mirrored(r) == r.k = "mirror" \/ (RecogniseBy = "value" /\ r.look)

\* link i handles the next record of stream[i]
LinkStep(i, withCtl) ==
  /\ pos[i] < Len(stream[i])
  /\ LET r == stream[i][pos[i] + 1]
         t == Other(i) IN
     /\ pos' = [pos EXCEPT ![i] = @ + 1]
     /\ IF Mirrored(r) \/ r.k = "ctl"
        THEN UNCHANGED <<stream, applied>>                 \* suppressed / skipped
        ELSE /\ applied' = [applied EXCEPT ![t] = Append(@, <<r.origin, r.id>>)]
             /\ stream' = [stream EXCEPT ![t] =
                   @ \o <<Rec("mirror", r.origin, r.id, r.look)>> \o (IF withCtl THEN <<Rec("ctl", r.origin, r.id, FALSE)>> ELSE <<>>)]
  /\ UNCHANGED nclient

Next == \/ \E s \in Sites, look \in BOOLEAN : ClientWrite(s, look)
        \/ \E i \in Sites, c \in BOOLEAN : LinkStep(i, c)
Spec == Init /\ [][Next]_vars /\ \A i \in Sites : WF_vars(\E c \in BOOLEAN : LinkStep(i, c))

ClientsOf(s) == [j \in 1..nclient[s] |-> <<s, j>>]
Idle == \A i \in Sites : pos[i] = Len(stream[i])

C13_NoEcho == \A s \in Sites : \A j \in 1..Len(applied[s]) : applied[s][j][1] # s
C13_AtMostOnce == \A s \in Sites : \A j, k \in 1..Len(applied[s]) : j # k => applied[s][j] # applied[s][k]
\* what arrived is always a prefix of what the other site's clients wrote; once idle it is all of it
C13_NoSwallow == \A s \in Sites : /\ Len(applied[s]) <= nclient[Other(s)]
                                  /\ applied[s] = SubSeq(ClientsOf(Other(s)), 1, Len(applied[s]))
                                  /\ (Idle => Len(applied[s]) = nclient[Other(s)])
\* the exchange is bounded: every client write costs the peer's stream at most one mirror and one bookkeeping record
C13_Bounded == \A s \in Sites : Len(stream[s]) <= nclient[s] + 2 * nclient[Other(s)]
\* and it goes quiet
C13_Quiesces == <>[]Idle
=============================================================================
