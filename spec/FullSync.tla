------------------------------ MODULE FullSync ------------------------------
(* D-layer prototype for C04: parser -> rdbPipe -> distributor -> per-worker  *)
(* pipes -> workers -> errChan -> checkpoint  (syncer/output.go 344-590).     *)
(* Faults: parser error at any entry, target error at any entry, cancel of    *)
(* the parent context at any instant.                                         *)
EXTENDS Integers, Sequences, FiniteSets, TLC

CONSTANTS NEntries, W, PipeCap, WPipeCap, FixCancel

Entries == 1..NEntries
Workers == 1..W
WorkerOf(e) == (e % W) + 1           \* FNV(key) mod W: one key -> one worker

VARIABLES
  parsed,        \* number of entries the parser has emitted (NEntries+1 = Done emitted)
  perr,          \* entry index at which the parser emits Err (0 = none)
  rdbPipe,       \* sequence of entries; 0 = Done, -1 = Err
  wpipe,         \* [Workers -> sequence]
  closed,        \* worker pipes closed by the distributor's deferred close
  dist,          \* distributor result: "run" | "nil" | "err"
  wres,          \* [Workers -> "run" | "nil" | "err"]
  terr,          \* entry at which the target answers with an error (0 = none)
  applied,       \* set of entries applied to the target
  cancelled,     \* parent context cancelled
  ictx,          \* inner context cancelled (by parent or by cancel() on first error)
  ret            \* "run" | "ok" | "error"; "ok" => checkpoint written

vars == <<parsed, perr, rdbPipe, wpipe, closed, dist, wres, terr, applied, cancelled, ictx, ret>>

Init ==
  /\ parsed = 0 /\ perr \in 0..NEntries /\ rdbPipe = <<>>
  /\ wpipe = [w \in Workers |-> <<>>] /\ closed = FALSE /\ dist = "run"
  /\ wres = [w \in Workers |-> "run"] /\ terr \in 0..NEntries /\ applied = {}
  /\ cancelled = FALSE /\ ictx = FALSE /\ ret = "run"

Parse ==
  /\ parsed <= NEntries /\ Len(rdbPipe) < PipeCap
  /\ IF perr # 0 /\ parsed + 1 = perr
     THEN rdbPipe' = Append(rdbPipe, -1) /\ parsed' = NEntries + 1
     ELSE IF parsed = NEntries THEN rdbPipe' = Append(rdbPipe, 0) /\ parsed' = parsed + 1
     ELSE rdbPipe' = Append(rdbPipe, parsed + 1) /\ parsed' = parsed + 1
  /\ UNCHANGED <<perr, wpipe, closed, dist, wres, terr, applied, cancelled, ictx, ret>>

\* distributeTask: select over rdbPipe and ctx.Done (either may win when both are ready)
Distribute ==
  /\ dist = "run"
  /\ \/ /\ rdbPipe # <<>>
        /\ LET e == Head(rdbPipe) IN
           IF e = -1 THEN dist' = "err" /\ closed' = TRUE /\ rdbPipe' = Tail(rdbPipe) /\ UNCHANGED wpipe
           ELSE IF e = 0 THEN dist' = "nil" /\ closed' = TRUE /\ rdbPipe' = Tail(rdbPipe) /\ UNCHANGED wpipe
           ELSE \/ /\ Len(wpipe[WorkerOf(e)]) < WPipeCap
                   /\ wpipe' = [wpipe EXCEPT ![WorkerOf(e)] = Append(@, e)]
                   /\ rdbPipe' = Tail(rdbPipe) /\ UNCHANGED <<dist, closed>>
                \/ /\ ictx /\ dist' = "err" /\ closed' = TRUE /\ UNCHANGED <<rdbPipe, wpipe>>
     \/ /\ ictx /\ dist' = "err" /\ closed' = TRUE /\ UNCHANGED <<rdbPipe, wpipe>>
  /\ UNCHANGED <<parsed, perr, wres, terr, applied, cancelled, ictx, ret>>

\* rdbReplay: select over pipe and ctx.Done
Work(w) ==
  /\ wres[w] = "run"
  /\ \/ /\ wpipe[w] # <<>>
        /\ LET e == Head(wpipe[w]) IN
           /\ wpipe' = [wpipe EXCEPT ![w] = Tail(@)]
           /\ IF e = terr THEN wres' = [wres EXCEPT ![w] = "err"] /\ UNCHANGED applied
              ELSE applied' = applied \cup {e} /\ UNCHANGED wres
     \/ /\ wpipe[w] = <<>> /\ closed /\ wres' = [wres EXCEPT ![w] = "nil"] /\ UNCHANGED <<wpipe, applied>>
     \* rdbReplay returns nil when the replay context is done (queued entries are dropped)
     \/ /\ ictx /\ wres' = [wres EXCEPT ![w] = "nil"] /\ UNCHANGED <<wpipe, applied>>
  /\ UNCHANGED <<parsed, perr, rdbPipe, closed, dist, terr, cancelled, ictx, ret>>

\* the collector cancels the inner context at the first non-nil result
ErrCancel == /\ ~ictx /\ (dist = "err" \/ \E w \in Workers : wres[w] = "err") /\ ictx' = TRUE
             /\ UNCHANGED <<parsed, perr, rdbPipe, wpipe, closed, dist, wres, terr, applied, cancelled, ret>>
Cancel == /\ ~cancelled /\ ret = "run" /\ cancelled' = TRUE /\ ictx' = TRUE
          /\ UNCHANGED <<parsed, perr, rdbPipe, wpipe, closed, dist, wres, terr, applied, ret>>

Collect ==
  /\ ret = "run" /\ dist # "run" /\ \A w \in Workers : wres[w] # "run"
  \* sendRdb: any error => error; (fix) parent context cancelled => interrupted, no checkpoint
  /\ ret' = IF dist = "err" \/ \E w \in Workers : wres[w] = "err" THEN "error"
            ELSE IF FixCancel /\ cancelled THEN "error" ELSE "ok"
  /\ UNCHANGED <<parsed, perr, rdbPipe, wpipe, closed, dist, wres, terr, applied, cancelled, ictx>>

Next == Parse \/ Distribute \/ (\E w \in Workers : Work(w)) \/ ErrCancel \/ Cancel \/ Collect
Spec == Init /\ [][Next]_vars

C04_CheckpointImpliesComplete == ret = "ok" => applied = Entries
\* without faults the replay completes with every entry applied exactly by its key's worker
C03_NoFaultCompletes == (ret = "ok") => (\A e \in Entries : e \in applied)
TypeOK == ret \in {"run", "ok", "error"} /\ applied \subseteq Entries
=============================================================================
