--------------------------- MODULE ClusterReplay ---------------------------
(* Design level of C19: a sender replays a stream of single-key commands into  *)
(* a cluster whose slots change owner while it runs.  The sender routes each    *)
(* command by its (possibly stale) slot map and keeps up to Window commands in  *)
(* flight (Window = 1: blocking batches, pkg/redis/client/cluster/batch.go;     *)
(* Window > 1: pipelined batches, batch_pipe.go + the dispatch-ahead loop of    *)
(* syncer/output.go).  A node executes a command only if it owns the key's slot *)
(* and answers MOVED otherwise.  Replies are consumed in dispatch order; a      *)
(* MOVED reply is handled when it is consumed: the command is executed at the   *)
(* owner and a refresh of the slot map is requested, which takes effect at any  *)
(* later moment (cluster.inform / handleUpdate are asynchronous).               *)
(*                                                                               *)
(* DeferRefresh = TRUE is a candidate repair: the refreshed map is only adopted  *)
(* while nothing is in flight.                                                   *)
(* Properties: C19_PerKeyOrder (the executed commands of a key are in source     *)
(* order), C19_NoSilentLoss (at the end every command was executed once).        *)
EXTENDS Integers, Sequences, FiniteSets, TLC

CONSTANTS Keys, Nodes, N, Window, MaxMig, DeferRefresh

VARIABLES stream,    \* stream[i] : key of source command i
          nxt,       \* next command to dispatch
          inflight,  \* sequence of [idx, reply] awaiting consumption, reply \in {"ok","moved"}
          log,       \* source indices in execution order (cluster-wide)
          owner,     \* owner[k]  : node that owns the slot of k
          map,       \* map[k]    : node the sender believes owns it
          refresh,   \* a map refresh has been requested
          migs
vars == <<stream, nxt, inflight, log, owner, map, refresh, migs>>

Init == /\ stream \in [1..N -> Keys] /\ nxt = 1 /\ inflight = <<>> /\ log = <<>>
        /\ owner \in [Keys -> Nodes] /\ map = owner /\ refresh = FALSE /\ migs = 0

Dispatch ==
  /\ nxt <= N /\ Len(inflight) < Window
  /\ LET k == stream[nxt] IN
     IF map[k] = owner[k]
     THEN log' = Append(log, nxt) /\ inflight' = Append(inflight, [idx |-> nxt, reply |-> "ok"])
     ELSE log' = log /\ inflight' = Append(inflight, [idx |-> nxt, reply |-> "moved"])
  /\ nxt' = nxt + 1 /\ UNCHANGED <<stream, owner, map, refresh, migs>>

\* the oldest reply is consumed; a MOVED one is re-executed at the owner (handleMove -> do(newNode))
Consume ==
  /\ inflight # <<>>
  /\ LET h == Head(inflight) IN
     IF h.reply = "ok" THEN UNCHANGED <<log, refresh>>
     ELSE log' = Append(log, h.idx) /\ refresh' = TRUE
  /\ inflight' = Tail(inflight) /\ UNCHANGED <<stream, nxt, owner, map, migs>>

AdoptMap ==
  /\ refresh /\ (DeferRefresh => inflight = <<>>)
  /\ map' = owner /\ refresh' = FALSE /\ UNCHANGED <<stream, nxt, inflight, log, owner, migs>>

Migrate(k, n) ==
  /\ migs < MaxMig /\ owner[k] # n
  /\ owner' = [owner EXCEPT ![k] = n] /\ migs' = migs + 1
  /\ UNCHANGED <<stream, nxt, inflight, log, map, refresh>>

Next == Dispatch \/ Consume \/ AdoptMap \/ \E k \in Keys, n \in Nodes : Migrate(k, n)
Spec == Init /\ [][Next]_vars

C19_PerKeyOrder == \A i, j \in 1..Len(log) : (i < j /\ stream[log[i]] = stream[log[j]]) => log[i] < log[j]
Finished == nxt > N /\ inflight = <<>>
C19_NoSilentLoss == Finished => ({log[i] : i \in 1..Len(log)} = 1..N /\ Len(log) = N)
=============================================================================
