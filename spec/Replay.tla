------------------------------- MODULE Replay -------------------------------
(* D-layer prototype of syncer/output.go sendAof: parser -> sendBuf -> sender  *)
(* loop -> target, with crash / restart through the checkpoint hash.           *)
EXTENDS Integers, Sequences, FiniteSets, TLC

CONSTANTS MaxLen, TxnMode, BatchCount, Tickers, MaxCrashes, DBs, Blacklist, FixBarrier, FixIdle, FixRunId, MaxTicks

Kinds == {"cmd", "sel", "multi", "exec", "ping", "flt"}
Absent == -2

VARIABLES
  stream, srcInTxn,                         \* source side (grows nondeterministically)
  running, crashes, fullResync, hadGood,    \* run control
  startOff, startDb, ppos, pcurDB, bypass, sendBuf,          \* parser
  queue, lastOff, txnSt, inTxn, cpDbs, sentDb,  \* sender
  wire, tSel, tInMulti, tQ, blk,            \* target connection
  log, cpOff, cpRun,                        \* target durable state
  cpWrites,                                 \* history: <<last value, sawNegative, sawDecrease>>
  ticks

vars == <<stream, srcInTxn, running, crashes, fullResync, hadGood, startOff, startDb, ppos,
          pcurDB, bypass, sendBuf, queue, lastOff, txnSt, inTxn, cpDbs, sentDb, wire, tSel, tInMulti,
          tQ, blk, log, cpOff, cpRun, cpWrites, ticks>>

Map(d) == d   \* database map (identity in this configuration)

(* ---------------- source: emits any well-formed stream ---------------- *)
SourceEmit ==
  /\ Len(stream) < MaxLen
  /\ \/ /\ ~srcInTxn
        /\ \E it \in ({[k |-> "cmd", d |-> 0], [k |-> "ping", d |-> 0], [k |-> "flt", d |-> 0], [k |-> "multi", d |-> 0]}
                      \cup {[k |-> "sel", d |-> x] : x \in DBs}) :
             /\ stream' = Append(stream, it)
             /\ srcInTxn' = (it.k = "multi")
     \/ /\ srcInTxn
        \* (a source transaction that touches two databases carries the SELECT inside the group)
        \* (and commands the filter removes - the bookkeeping writes of an upstream instance of the tool are the last
        \* command of each of its transactions)
        /\ \E it \in {[k |-> "cmd", d |-> 0], [k |-> "exec", d |-> 0], [k |-> "flt", d |-> 0]} \cup {[k |-> "sel", d |-> x] : x \in DBs} :
             /\ stream' = Append(stream, it)
             /\ srcInTxn' = (it.k # "exec")
  /\ UNCHANGED <<running, crashes, fullResync, hadGood, startOff, startDb, ppos, pcurDB, bypass,
                 sendBuf, queue, lastOff, txnSt, inTxn, cpDbs, sentDb, wire, tSel, tInMulti, tQ, blk, log,
                 cpOff, cpRun, cpWrites, ticks>>

(* source database context after item o *)
RECURSIVE SrcDbAt(_)
SrcDbAt(o) == IF o = 0 THEN 0 ELSE IF stream[o].k = "sel" THEN stream[o].d ELSE SrcDbAt(o - 1)
RECURSIVE InSrcTxnAt(_)   \* TRUE iff offset o lies strictly inside MULTI..EXEC
InSrcTxnAt(o) == IF o = 0 THEN FALSE ELSE IF stream[o].k = "multi" THEN TRUE
                 ELSE IF stream[o].k = "exec" THEN FALSE ELSE InSrcTxnAt(o - 1)
\* the MULTI that opened the transaction offset o lies in (0 = none)
RECURSIVE OpenMultiAt(_)
OpenMultiAt(o) == IF o = 0 THEN 0 ELSE IF stream[o].k = "multi" THEN o ELSE IF stream[o].k = "exec" THEN 0 ELSE OpenMultiAt(o - 1)
\* a bracket read while a configured-out database is selected is dropped with the rest of that database's traffic, so the
\* tool never learns of that transaction: only transactions whose MULTI it forwards are transactions to it
SeenTxnAt(o) == OpenMultiAt(o) # 0 /\ SrcDbAt(OpenMultiAt(o)) \notin Blacklist
IsData(i) == stream[i].k = "cmd" /\ SrcDbAt(i) \notin Blacklist
DataIdx == {i \in 1..Len(stream) : IsData(i)}

(* ---------------- parser (parseAofCommand) ---------------- *)
Push(it) == sendBuf' = Append(sendBuf, it)
Parse ==
  /\ running /\ ppos <= Len(stream) /\ Len(sendBuf) < 3
  /\ LET it == stream[ppos] off == ppos IN
     /\ ppos' = ppos + 1
     /\ CASE it.k = "ping" ->
               \* (output.go: a keep-alive read while a black-listed database is selected is dropped with the rest)
               IF bypass THEN UNCHANGED <<pcurDB, bypass, sendBuf>>
               ELSE Push([k |-> "ping", off |-> off, db |-> pcurDB]) /\ UNCHANGED <<pcurDB, bypass>>
          [] it.k = "sel" ->
               IF it.d \in Blacklist
               THEN bypass' = TRUE /\ UNCHANGED <<pcurDB, sendBuf>>
               ELSE /\ bypass' = FALSE
                    /\ IF Map(it.d) # pcurDB
                       THEN pcurDB' = Map(it.d) /\ Push([k |-> "sel", off |-> off, db |-> Map(it.d)])
                       ELSE UNCHANGED <<pcurDB, sendBuf>>
          [] it.k = "flt" -> UNCHANGED <<pcurDB, bypass, sendBuf>>
          [] OTHER -> IF bypass THEN UNCHANGED <<pcurDB, bypass, sendBuf>>
                      ELSE Push([k |-> it.k, off |-> off, db |-> pcurDB]) /\ UNCHANGED <<pcurDB, bypass>>
  /\ UNCHANGED <<stream, srcInTxn, running, crashes, fullResync, hadGood, startOff, startDb, queue,
                 lastOff, txnSt, inTxn, cpDbs, sentDb, wire, tSel, tInMulti, tQ, blk, log, cpOff, cpRun, cpWrites, ticks>>

(* ---------------- sender (sendCmdsBatch) ---------------- *)
TxnStatus(cmd, prev) ==
  IF prev \in {"no", "barrier", "commit"}
  THEN CASE cmd = "sel" -> <<"barrier", TRUE>> [] cmd = "multi" -> <<"begin", TRUE>>
         [] cmd = "exec" -> <<"commit", TRUE>> [] OTHER -> <<"no", FALSE>>
  ELSE IF cmd = "exec" THEN <<"commit", TRUE>> ELSE <<"in", FALSE>>

ReqOf(it) == IF it.k = "sel" THEN [t |-> "sel", v |-> it.db]
             ELSE IF it.k = "ping" THEN [t |-> "ping", v |-> 0] ELSE [t |-> "cmd", v |-> it.off]
RECURSIVE Reqs(_)
Reqs(q) == IF q = <<>> THEN <<>> ELSE <<ReqOf(Head(q))>> \o Reqs(Tail(q))

\* requests produced by sendFuncOnce(txnBatch, updCP, off) for queue q, given the set cds of
\* databases that already hold the run id and sdb = database of the last command sent.
\* Result: <<requests, cds', sdb'>>
Flush(q, txnBatch, updCP0, off, cds, sdb) ==
  LET updCP == updCP0 /\ (~FixIdle \/ off >= 0) IN
  IF q = <<>> /\ txnBatch /\ ~updCP THEN <<<<>>, cds, sdb>>
  ELSE LET lastReal == q # <<>> /\ q[Len(q)].k # "ping"
           cpDb == IF FixRunId THEN (IF lastReal THEN q[Len(q)].db ELSE sdb)
                   ELSE (IF q = <<>> THEN -9 ELSE q[Len(q)].db)
           needRun == updCP /\ (FixRunId \/ q # <<>>) /\ cpDb \notin cds
           body == (IF txnBatch THEN <<[t |-> "multi", v |-> 0]>> ELSE <<>>) \o Reqs(q)
                   \o (IF needRun THEN <<[t |-> "cprun", v |-> 0]>> ELSE <<>>)
                   \o (IF updCP THEN <<[t |-> "cpoff", v |-> off]>> ELSE <<>>)
                   \o (IF txnBatch THEN <<[t |-> "exec", v |-> 0]>> ELSE <<>>)
       IN <<body, IF needRun THEN cds \cup {cpDb} ELSE cds, IF lastReal THEN q[Len(q)].db ELSE sdb>>

SenderIdle == running /\ wire = <<>>

Consume ==
  /\ SenderIdle /\ sendBuf # <<>>
  /\ LET it == Head(sendBuf)
         prevOff == lastOff
         st == TxnStatus(it.k, txnSt) IN
     /\ sendBuf' = Tail(sendBuf)
     /\ lastOff' = it.off
     /\ IF it.k = "ping"
        THEN UNCHANGED <<queue, txnSt, inTxn, cpDbs, sentDb, wire>>
        ELSE
          /\ txnSt' = st[1]
          /\ IF TxnMode
             THEN LET f1 == IF st[2] THEN Flush(queue, TRUE, TRUE, IF FixBarrier /\ st[1] # "commit" THEN prevOff ELSE it.off, cpDbs, sentDb)
                                     ELSE <<<<>>, cpDbs, sentDb>>
                      q1 == IF st[2] THEN <<>> ELSE queue
                      q2 == IF st[1] \notin {"begin", "commit"} THEN Append(q1, it) ELSE q1
                      in2 == IF st[2] THEN (st[1] = "begin") ELSE (inTxn \/ st[1] = "begin")
                      size == ~in2 /\ Len(q2) >= BatchCount
                      f2 == IF size THEN Flush(q2, TRUE, TRUE, it.off, f1[2], f1[3]) ELSE <<<<>>, f1[2], f1[3]>>
                  IN /\ wire' = f1[1] \o f2[1]
                     /\ queue' = IF size THEN <<>> ELSE q2
                     /\ inTxn' = IF size THEN FALSE ELSE in2
                     /\ cpDbs' = f2[2] /\ sentDb' = f2[3]
             ELSE \* non transactional
               IF st[1] = "begin" THEN UNCHANGED <<queue, inTxn, cpDbs, sentDb, wire>>
               ELSE LET q2 == IF st[1] = "commit" THEN queue ELSE Append(queue, it)
                        nf == st[2] \/ Len(q2) >= BatchCount
                        f == IF nf THEN Flush(q2, FALSE, FALSE, it.off, cpDbs, sentDb) ELSE <<<<>>, cpDbs, sentDb>>
                    IN /\ wire' = f[1] /\ queue' = IF nf THEN <<>> ELSE q2
                       /\ inTxn' = FALSE /\ cpDbs' = f[2] /\ sentDb' = f[3]
  /\ UNCHANGED <<stream, srcInTxn, running, crashes, fullResync, hadGood, startOff, startDb, ppos,
                 pcurDB, bypass, tSel, tInMulti, tQ, blk, log, cpOff, cpRun, cpWrites, ticks>>

TickCommon(q, txnBatch, updCP) ==
  LET f == Flush(q, txnBatch, updCP, lastOff, cpDbs, sentDb) IN
  /\ ticks < MaxTicks /\ ticks' = ticks + 1
  /\ wire' = f[1] /\ queue' = <<>> /\ inTxn' = FALSE /\ cpDbs' = f[2] /\ sentDb' = f[3]
  /\ UNCHANGED <<stream, srcInTxn, running, crashes, fullResync, hadGood, startOff, startDb, ppos,
                 pcurDB, bypass, sendBuf, lastOff, txnSt, tSel, tInMulti, tQ, blk, log, cpOff, cpRun, cpWrites>>

BatchTick == /\ "batch" \in Tickers /\ SenderIdle /\ ~inTxn /\ queue # <<>>
             /\ TickCommon(queue, TxnMode, TxnMode)
KeepaliveTick ==
  /\ "keepalive" \in Tickers /\ SenderIdle /\ ~inTxn
  /\ IF queue = <<>>
     THEN TickCommon(<<[k |-> "ping", off |-> lastOff, db |-> 0]>>, FALSE, TxnMode)
     ELSE TickCommon(queue, TxnMode, TxnMode)
CpTick == /\ "cp" \in Tickers /\ SenderIdle /\ ~inTxn /\ ~TxnMode
          /\ TickCommon(queue, FALSE, TRUE)

(* ---------------- target ---------------- *)
Apply(r, sel, lg, co, cr, cw, b) ==  \* returns <<sel, log, cpOff, cpRun, cpWrites, ticks>>
  CASE r.t = "sel"   -> <<r.v, lg, co, cr, cw>>
    [] r.t = "cmd"   -> <<sel, Append(lg, [i |-> r.v, db |-> sel, blk |-> b]), co, cr, cw>>
    [] r.t = "cprun" -> <<sel, lg, co, [cr EXCEPT ![sel] = TRUE], cw>>
    [] r.t = "cpoff" -> <<sel, lg, [co EXCEPT ![sel] = r.v], cr, <<r.v, cw[2] \/ r.v < 0, cw[3] \/ r.v < cw[1]>>>>
    [] OTHER         -> <<sel, lg, co, cr, cw>>
RECURSIVE ApplyAll(_, _, _, _, _, _, _)
ApplyAll(rs, sel, lg, co, cr, cw, b) ==
  IF rs = <<>> THEN <<sel, lg, co, cr, cw>>
  ELSE LET x == Apply(Head(rs), sel, lg, co, cr, cw, b) IN ApplyAll(Tail(rs), x[1], x[2], x[3], x[4], x[5], b)

TargetExec ==
  /\ wire # <<>>
  /\ LET r == Head(wire) IN
     /\ wire' = Tail(wire)
     /\ IF r.t = "multi" THEN tInMulti' = TRUE /\ tQ' = <<>> /\ UNCHANGED <<tSel, log, cpOff, cpRun, cpWrites, blk>>
        ELSE IF r.t = "exec"
        THEN LET x == ApplyAll(tQ, tSel, log, cpOff, cpRun, cpWrites, Len(log)) IN
             /\ tInMulti' = FALSE /\ tQ' = <<>> /\ blk' = blk
             /\ tSel' = x[1] /\ log' = x[2] /\ cpOff' = x[3] /\ cpRun' = x[4] /\ cpWrites' = x[5]
        ELSE IF tInMulti THEN tQ' = Append(tQ, r) /\ UNCHANGED <<tInMulti, tSel, log, cpOff, cpRun, cpWrites, blk>>
        ELSE LET x == Apply(r, tSel, log, cpOff, cpRun, cpWrites, Len(log)) IN
             /\ blk' = blk /\ UNCHANGED <<tInMulti, tQ>>
             /\ tSel' = x[1] /\ log' = x[2] /\ cpOff' = x[3] /\ cpRun' = x[4] /\ cpWrites' = x[5]
  /\ hadGood' = (hadGood \/ \E d \in DBs : cpOff'[d] >= 0 /\ cpRun'[d])
  /\ UNCHANGED <<stream, srcInTxn, running, crashes, fullResync, startOff, startDb, ppos, pcurDB,
                 bypass, sendBuf, queue, lastOff, txnSt, inTxn, cpDbs, sentDb, ticks>>

(* ---------------- crash / restart ---------------- *)
Crash ==
  /\ running /\ crashes < MaxCrashes
  /\ running' = FALSE /\ crashes' = crashes + 1
  /\ wire' = <<>> /\ tInMulti' = FALSE /\ tQ' = <<>>
  /\ sendBuf' = <<>> /\ queue' = <<>>
  /\ UNCHANGED <<stream, srcInTxn, fullResync, hadGood, startOff, startDb, ppos, pcurDB, bypass, lastOff,
                 txnSt, inTxn, cpDbs, sentDb, tSel, blk, log, cpOff, cpRun, cpWrites, ticks>>

MaxCp == LET S == {cpOff[d] : d \in DBs} IN CHOOSE m \in S : \A x \in S : x <= m
Restart ==
  /\ ~running /\ ~fullResync
  /\ IF MaxCp < 0
     THEN /\ fullResync' = TRUE
          /\ UNCHANGED <<running, startOff, startDb, ppos, pcurDB, bypass, sendBuf, queue, lastOff, txnSt,
                         inTxn, cpDbs, sentDb, tSel>>
     ELSE \E d \in {x \in DBs : cpOff[x] = MaxCp} :   \* tie: map order
          IF ~cpRun[d]
          THEN /\ fullResync' = TRUE
               /\ UNCHANGED <<running, startOff, startDb, ppos, pcurDB, bypass, sendBuf, queue, lastOff,
                              txnSt, inTxn, cpDbs, sentDb, tSel>>
          ELSE /\ running' = TRUE /\ fullResync' = FALSE
               /\ startOff' = MaxCp /\ startDb' = d /\ ppos' = MaxCp + 1
               /\ pcurDB' = -1 /\ bypass' = FALSE
               /\ sendBuf' = IF d > 0 THEN <<[k |-> "sel", off |-> MaxCp, db |-> d]>> ELSE <<>>
               /\ queue' = <<>> /\ lastOff' = -1 /\ txnSt' = "no" /\ inTxn' = FALSE /\ cpDbs' = {} /\ sentDb' = -2
               /\ tSel' = 0
  /\ ticks' = 0
  /\ UNCHANGED <<stream, srcInTxn, crashes, hadGood, wire, tInMulti, tQ, blk, log, cpOff, cpRun, cpWrites>>

Init ==
  /\ stream = <<>> /\ srcInTxn = FALSE
  /\ running = TRUE /\ crashes = 0 /\ fullResync = FALSE /\ hadGood = TRUE
  /\ startOff = 0 /\ startDb = 0 /\ ppos = 1 /\ pcurDB = -1 /\ bypass = FALSE /\ sendBuf = <<>>
  /\ queue = <<>> /\ lastOff = -1 /\ txnSt = "no" /\ inTxn = FALSE /\ cpDbs = {} /\ sentDb = -2
  /\ wire = <<>> /\ tSel = 0 /\ tInMulti = FALSE /\ tQ = <<>> /\ blk = 0
  /\ log = <<>>
  /\ cpOff = [d \in DBs |-> IF d = 0 THEN 0 ELSE Absent]   \* full sync finished: position 0 in DB 0
  /\ cpRun = [d \in DBs |-> d = 0]
  /\ cpWrites = <<0, FALSE, FALSE>>
  /\ ticks = 0

Next == SourceEmit \/ Parse \/ Consume \/ BatchTick \/ KeepaliveTick \/ CpTick \/ TargetExec \/ Crash \/ Restart
Spec == Init /\ [][Next]_vars

(* ---------------- properties ---------------- *)
LogIdx == [j \in 1..Len(log) |-> log[j].i]
Applied(i) == \E j \in 1..Len(log) : log[j].i = i /\ log[j].db = Map(SrcDbAt(i))
\* C01: without crashes the executed log is a duplicate-free, ordered, right-DB prefix of the data items
C01_Prefix == crashes = 0 =>
   /\ \A j \in 1..Len(log) : log[j].i \in DataIdx /\ log[j].db = Map(SrcDbAt(log[j].i))
   /\ \A j \in 1..Len(log) : \A i \in DataIdx : i < log[j].i => \E j2 \in 1..(j-1) : log[j2].i = i
   /\ \A j1, j2 \in 1..Len(log) : j1 < j2 => log[j1].i < log[j2].i
\* every executed command is in the database the source intended (also after restarts)
C02_RightDb == \A j \in 1..Len(log) : log[j].i \in DataIdx /\ log[j].db = Map(SrcDbAt(log[j].i))
\* the stored resume position never covers something the target has not absorbed
ResumeDbs == {d \in DBs : cpOff[d] = MaxCp}
C02_CpCovers == (MaxCp >= 0 /\ MaxCp <= Len(stream)) =>
   /\ \A i \in DataIdx : i <= MaxCp => Applied(i)
   /\ \A d \in ResumeDbs : cpRun[d] => d = Map(SrcDbAt(MaxCp)) \/ SrcDbAt(MaxCp) \in Blacklist
   /\ TxnMode => ~SeenTxnAt(MaxCp)
C02_NoRepeatTxn == TxnMode => \A j1, j2 \in 1..Len(log) : j1 # j2 => log[j1].i # log[j2].i
\* C07
C07_Values == ~cpWrites[2]
C07_Monotone == ~cpWrites[3]
C07_NoNeedlessFull == ~(fullResync /\ hadGood)
\* C09: a source transaction is in one target block
GroupOf(i) == CHOOSE m \in 1..i : stream[m].k = "multi" /\ \A x \in (m+1)..i : stream[x].k # "multi"
InGroup(i) == SeenTxnAt(i) /\ stream[i].k = "cmd"
\* Known finding (C09, recorded in known_findings.json): TLC refutes the same two formulas with InSrcTxnAt in place of
\* SeenTxnAt when Blacklist # {} - SELECT 1 (configured out), MULTI (dropped with it), SELECT 0, a tick: the position of
\* the SELECT is stored inside the source transaction, and the rest of the group is flushed like plain commands.
C09_AnyTxn_NoPositionInside == TxnMode /\ MaxCp >= 0 /\ MaxCp <= Len(stream) => ~InSrcTxnAt(MaxCp)
C09_Atomic == TxnMode =>
   \A j1, j2 \in 1..Len(log) :
      (InGroup(log[j1].i) /\ InGroup(log[j2].i) /\ GroupOf(log[j1].i) = GroupOf(log[j2].i)) => log[j1].blk = log[j2].blk

View == <<stream, srcInTxn, running, crashes, fullResync, hadGood, startOff, startDb, ppos, pcurDB, bypass,
          sendBuf, queue, lastOff, txnSt, inTxn, cpDbs, sentDb, wire, tSel, tInMulti, tQ, log, cpOff, cpRun, cpWrites, ticks>>
=============================================================================
