------------------------------ MODULE CkptMaint ------------------------------
(* D layer for C17: checkpoint.UpdateCheckpoint (rename of the checkpoint key   *)
(* and/or move to a new replication id after a failover) as the sequence of     *)
(* target requests it issues, with a stop after any request, followed by the    *)
(* next start (the same procedure run to completion, then the resume lookup).   *)
(* Bookkeeping: index[id] = checkpoint key name (database 0); cp[name][db][id]   *)
(* = offset or None.                                                            *)
EXTENDS Integers, Sequences, FiniteSets, TLC

CONSTANTS DBs, Rename, Failover, FixDb

None == -1
Names == {"K1", "K2"}
Ids == {"old", "new"}
Local == IF Rename THEN "K2" ELSE "K1"
Id1 == IF Failover THEN "new" ELSE "old"
Given == IF Failover THEN <<"new", "old">> ELSE <<"old">>

VARIABLES index, cp, pc, tmp, crashed, before, phase
\* tmp: local variables of the running procedure [name, rid, off, db, old]
vars == <<index, cp, pc, tmp, crashed, before, phase>>

\* ---- lookups as GetCheckpointHash / GetCheckpoint perform them ----
HashLookup(idx) == IF idx[Given[1]] # "" THEN <<idx[Given[1]], Given[1]>>
                   ELSE IF Len(Given) > 1 /\ idx[Given[2]] # "" THEN <<idx[Given[2]], Given[2]>>
                   ELSE <<"", Given[1]>>
\* per database: the offset found under any of the given ids (the later id field wins; same value in this model)
Found(c, name, db) == LET S == {c[name][db][Given[i]] : i \in 1..Len(Given)} \ {None} IN
                      IF S = {} THEN None ELSE CHOOSE o \in S : \A x \in S : x <= o
BestOff(c, name) == LET S == {Found(c, name, d) : d \in DBs} IN CHOOSE o \in S : \A x \in S : x <= o
\* offsets are distinct per database in the initial states, so the best database is unique
BestDb(c, name) == IF BestOff(c, name) = None THEN None ELSE CHOOSE d \in DBs : Found(c, name, d) = BestOff(c, name)
Resume(idx, c) == LET h == HashLookup(idx) IN
                  IF h[1] = "" THEN <<None, None>> ELSE <<BestOff(c, h[1]), BestDb(c, h[1])>>

Empty == [n \in Names |-> [d \in DBs |-> [i \in Ids |-> None]]]

Init ==
  /\ index = [i \in Ids |-> IF i = "old" THEN "K1" ELSE ""]
  /\ \E offs \in [DBs -> {None, 10, 20, 30}] :
        /\ \E d \in DBs : offs[d] # None
        /\ \A d1, d2 \in DBs : (d1 # d2 /\ offs[d1] # None) => offs[d1] # offs[d2]
        /\ cp = [Empty EXCEPT !["K1"] = [d \in DBs |-> [i \in Ids |-> IF i = "old" THEN offs[d] ELSE None]]]
  /\ pc = "start" /\ tmp = [name |-> "", rid |-> "", off |-> None, db |-> None, old |-> ""]
  /\ crashed = FALSE /\ phase = "op"
  /\ before = <<None, None>>

\* ---- UpdateCheckpoint, one action per target request ----
ReadIndex ==
  /\ pc = "start"
  /\ before' = IF phase = "op" THEN Resume(index, cp) ELSE before
  /\ LET h == HashLookup(index) IN
     IF h[1] = Local /\ h[2] = Id1
     THEN pc' = "done" /\ UNCHANGED tmp
     ELSE /\ tmp' = [tmp EXCEPT !.name = h[1], !.rid = h[2]]
          /\ pc' = IF h[1] = "" THEN "write" ELSE "scan"
  /\ UNCHANGED <<index, cp, crashed, phase>>
Scan ==   \* GetCheckpoint over every database (reads only); the connection ends in the last one scanned
  /\ pc = "scan"
  /\ \E lastDb \in DBs :
       tmp' = [tmp EXCEPT !.off = BestOff(cp, tmp.name), !.old = IF BestOff(cp, tmp.name) = None THEN "" ELSE tmp.rid,
                          !.db = IF FixDb /\ BestDb(cp, tmp.name) # None THEN BestDb(cp, tmp.name) ELSE lastDb]
  /\ pc' = "write" /\ UNCHANGED <<index, cp, crashed, before, phase>>
WriteNew ==   \* SetCheckpoint(local, id1) in the connection's database
  /\ pc = "write"
  /\ LET d == IF tmp.db = None THEN CHOOSE x \in DBs : TRUE ELSE tmp.db IN
     cp' = [cp EXCEPT ![Local][d][Id1] = tmp.off]
  /\ pc' = "repoint" /\ UNCHANGED <<index, tmp, crashed, before, phase>>
Repoint ==    \* SetCheckpointHash(id1 -> local)
  /\ pc = "repoint"
  /\ index' = [index EXCEPT ![Id1] = Local]
  /\ pc' = IF tmp.old # "" THEN "delold" ELSE "done"
  /\ UNCHANGED <<cp, tmp, crashed, before, phase>>
DelOld ==     \* DelCheckpoint(old name, old id): one HDEL per database (any order); modelled per database
  /\ pc = "delold"
  /\ \E d \in DBs :
       /\ cp[tmp.name][d][tmp.old] # None \/ \A x \in DBs : cp[tmp.name][x][tmp.old] = None \/ (tmp.name = Local /\ tmp.old = Id1)
       /\ IF tmp.name = Local /\ tmp.old = Id1 THEN UNCHANGED cp
          ELSE cp' = [cp EXCEPT ![tmp.name][d][tmp.old] = None]
  /\ pc' = IF (tmp.name = Local /\ tmp.old = Id1) \/ \A x \in DBs : cp'[tmp.name][x][tmp.old] = None
           THEN (IF tmp.old # Id1 THEN "delidx" ELSE "done") ELSE "delold"
  /\ UNCHANGED <<index, tmp, crashed, before, phase>>
DelIdx ==     \* DelCheckpointHash(old id)
  /\ pc = "delidx"
  /\ index' = [index EXCEPT ![tmp.old] = ""]
  /\ pc' = "done" /\ UNCHANGED <<cp, tmp, crashed, before, phase>>

\* the tool stops after any request; the next start runs the procedure from the top
Crash ==
  /\ phase = "op" /\ pc \notin {"start", "done"} /\ ~crashed
  /\ crashed' = TRUE /\ phase' = "restart" /\ pc' = "start"
  /\ tmp' = [name |-> "", rid |-> "", off |-> None, db |-> None, old |-> ""]
  /\ UNCHANGED <<index, cp, before>>
Finish == /\ phase = "op" /\ pc = "done" /\ phase' = "restart" /\ pc' = "start"
          /\ tmp' = [name |-> "", rid |-> "", off |-> None, db |-> None, old |-> ""]
          /\ UNCHANGED <<index, cp, crashed, before>>

Next == ReadIndex \/ Scan \/ WriteNew \/ Repoint \/ DelOld \/ DelIdx \/ Crash \/ Finish
Spec == Init /\ [][Next]_vars

\* after the next start completed, the resume position is not smaller and sits in the same database
ResumeNotLost ==
  (phase = "restart" /\ pc = "done" /\ before[1] # None) =>
     LET r == Resume(index, cp) IN r[1] # None /\ r[1] >= before[1] /\ r[2] = before[2]
TypeOK == pc \in {"start", "scan", "write", "repoint", "delold", "delidx", "done"}
=============================================================================
