------------------------------- MODULE Replica -------------------------------
(* Design level of C16: a follower copies the leader's cached stream.           *)
(* Histories: 1 = the leader's, 2 = an unrelated one.  Offsets 0..MaxOff.        *)
(* The follower's cache is a label (fid) plus, per offset, the history the byte  *)
(* stored there really comes from (0 = nothing stored).  The protocol is         *)
(* syncer/replica.go: handshake (the leader tells id and newest offset),         *)
(* prepare (adopt the leader's id - which only relabels what is stored unless    *)
(* it is discarded first: FixDiscardForeign), meta (hand-over when the           *)
(* follower's offset is beyond the leader's, fall-back to the newest offset when *)
(* the requested one is gone, the follower clears when the leader's data starts  *)
(* beyond its own, a writer refuses a position that is not its end), transfer    *)
(* byte by byte, interruption after any step, appends at the leader meanwhile.   *)
EXTENDS Integers, FiniteSets, TLC

CONSTANTS MaxOff, FixDiscardForeign

Off == 0..MaxOff
VARIABLES lleft, lright,     \* leader holds history 1 on [lleft, lright)
          fid, fb,           \* follower label; fb[o] = history of the byte stored at o (0 none)
          st, lsp, req, pos, \* protocol state, leader position learnt, requested offset, transfer position
          offered            \* leadership was offered to the follower
vars == <<lleft, lright, fid, fb, st, lsp, req, pos, offered>>

Held == {o \in Off : fb[o] # 0}
FEnd == IF Held = {} THEN -1 ELSE (CHOOSE o \in Held : \A p \in Held : p <= o) + 1
Interval(S) == \A a, b \in S : \A o \in Off : (a <= o /\ o <= b) => o \in S

TypeOK == /\ lleft \in Off /\ lright \in Off /\ lleft <= lright /\ fid \in 0..2 /\ fb \in [Off -> 0..2]
          /\ st \in {"shake", "pre", "meta", "xfer", "done"}

\* the follower starts empty, or with an interval of one history under that history's id
Init == /\ lleft \in Off /\ lright \in Off /\ lleft <= lright
        /\ \E h \in 0..2, a \in Off, b \in Off :
              /\ a <= b
              /\ fid = (IF a = b THEN 0 ELSE h) /\ (h = 0 => a = b)
              /\ fb = [o \in Off |-> IF a <= o /\ o < b THEN h ELSE 0]
        /\ st = "shake" /\ lsp = 0 /\ req = 0 /\ pos = 0 /\ offered = FALSE

Shake == /\ st = "shake" /\ lsp' = lright /\ st' = "pre"
         /\ UNCHANGED <<lleft, lright, fid, fb, req, pos, offered>>

\* preSync: foreign or no data -> adopt the leader's id and ask for its newest offset; same id -> ask for the own end
Pre == /\ st = "pre"
       /\ IF fid # 1
          THEN /\ fb' = IF FixDiscardForeign THEN [o \in Off |-> 0] ELSE fb   \* SetRunId alone relabels
               /\ fid' = 1 /\ req' = lsp
          ELSE /\ req' = FEnd /\ UNCHANGED <<fid, fb>>
       /\ st' = "meta" /\ UNCHANGED <<lleft, lright, lsp, pos, offered>>

\* the leader's answer and the follower's preparation of its writer
Meta == /\ st = "meta"
        /\ IF req > lright
           THEN /\ offered' = TRUE /\ st' = "done" /\ UNCHANGED <<fb, pos>>
           ELSE LET m == IF lleft <= req THEN req ELSE lright       \* requested offset gone: newest offset
                    cleared == IF Held # {} /\ m > FEnd THEN [o \in Off |-> 0] ELSE fb
                    end == IF Held # {} /\ m > FEnd THEN -1 ELSE FEnd IN
                /\ fb' = cleared /\ offered' = offered
                /\ IF end = -1 \/ end = m THEN st' = "xfer" /\ pos' = m
                   ELSE st' = "done" /\ pos' = pos          \* the writer refuses a position that is not its end
        /\ UNCHANGED <<lleft, lright, fid, lsp, req>>

Xfer == /\ st = "xfer" /\ pos < lright
        /\ fb' = [fb EXCEPT ![pos] = 1] /\ pos' = pos + 1
        /\ UNCHANGED <<lleft, lright, fid, st, lsp, req, offered>>

\* transport failure or stop after any step; the next round starts with a new handshake
Interrupt == /\ st \in {"pre", "meta", "xfer", "done"} /\ st' = "shake"
             /\ UNCHANGED <<lleft, lright, fid, fb, lsp, req, pos, offered>>

LeaderAppend == /\ lright < MaxOff /\ lright' = lright + 1
                /\ UNCHANGED <<lleft, fid, fb, st, lsp, req, pos, offered>>
LeaderCollect == /\ lleft < lright /\ lleft' = lleft + 1
                 /\ UNCHANGED <<lright, fid, fb, st, lsp, req, pos, offered>>

Next == Shake \/ Pre \/ Meta \/ Xfer \/ Interrupt \/ LeaderAppend \/ LeaderCollect
Spec == Init /\ [][Next]_vars

\* every byte stored under an id is a byte of that id's history
C16_FollowerIsCopy == \A o \in Off : fb[o] # 0 => fb[o] = fid
C16_Contiguous == Interval(Held)
\* leadership is only offered to a follower whose data is the leader's own history
C16_NoHandoverToForeign == offered => \A o \in Held : fb[o] = 1
=============================================================================
