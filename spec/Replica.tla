------------------------------- MODULE Replica -------------------------------
(* Design level of C16: a follower copies the leader's cached stream.           *)
(* Histories: 1 = the leader's, 2 = an unrelated one.  Offsets 0..MaxOff.        *)
(* The follower's cache is a label (fid) plus, per offset, the history the byte  *)
(* stored there really comes from (0 = nothing stored).  The protocol is         *)
(* syncer/replica.go: handshake (the leader tells id and newest offset),         *)
(* prepare (adopt the leader's id - which only relabels what is stored unless    *)
(* it is discarded first: FixDiscardForeign), meta (hand-over when the           *)
(* follower's offset is beyond the leader's, fall-back to the newest offset when *)
(* the requested one is gone, the follower clears when the leader's data starts  *)
(* beyond its own, a writer refuses a position that is not its end), transfer    *)
(* byte by byte, interruption after any step, appends at the leader meanwhile.   *)
(* The leader itself may go through a full resynchronisation (LeaderSwitch): its *)
(* cache is reset and refilled under history 3 at any range - also one that      *)
(* covers the offsets a transfer opened under history 1 has still to send; a     *)
(* reader opened on the old history ends there (ReaderEndsAtReset; FALSE is the   *)
(* design in which it falls through into whatever is cached at its position).    *)
EXTENDS Integers, FiniteSets, TLC

CONSTANTS MaxOff, FixDiscardForeign, ReaderEndsAtReset

Off == 0..MaxOff
VARIABLES lid, lleft, lright, \* leader holds history lid (1, after a full resync 3) on [lleft, lright)
          xid,               \* history the running transfer's reader was opened on
          fid, fb,           \* follower label; fb[o] = history of the byte stored at o (0 none)
          st, lsp, req, pos, \* protocol state, leader position learnt, requested offset, transfer position
          offered            \* leadership was offered to the follower
vars == <<lid, lleft, lright, xid, fid, fb, st, lsp, req, pos, offered>>

Held == {o \in Off : fb[o] # 0}
FEnd == IF Held = {} THEN -1 ELSE (CHOOSE o \in Held : \A p \in Held : p <= o) + 1
Interval(S) == \A a, b \in S : \A o \in Off : (a <= o /\ o <= b) => o \in S

TypeOK == /\ lleft \in Off /\ lright \in Off /\ lleft <= lright /\ fid \in 0..3 /\ fb \in [Off -> 0..3] /\ lid \in {1, 3} /\ xid \in {0, 1, 3}
          /\ st \in {"shake", "pre", "meta", "xfer", "done"}

\* the follower starts empty, or with an interval of one history under that history's id
Init == /\ lleft \in Off /\ lright \in Off /\ lleft <= lright /\ lid = 1 /\ xid = 0
        /\ \E h \in 0..2, a \in Off, b \in Off :
              /\ a <= b
              /\ fid = (IF a = b THEN 0 ELSE h) /\ (h = 0 => a = b)
              /\ fb = [o \in Off |-> IF a <= o /\ o < b THEN h ELSE 0]
        /\ st = "shake" /\ lsp = [id |-> 1, off |-> 0] /\ req = [id |-> 1, off |-> 0] /\ pos = 0 /\ offered = FALSE

Shake == /\ st = "shake" /\ lsp' = [id |-> lid, off |-> lright] /\ st' = "pre"
         /\ UNCHANGED <<lid, lleft, lright, xid, fid, fb, req, pos, offered>>

\* preSync: foreign or no data -> adopt the leader's id and ask for its newest offset; same id -> ask for the own end
Pre == /\ st = "pre"
       /\ IF fid # lsp.id
          THEN /\ fb' = IF FixDiscardForeign THEN [o \in Off |-> 0] ELSE fb   \* SetRunId alone relabels
               /\ fid' = lsp.id /\ req' = lsp
          ELSE /\ req' = [id |-> fid, off |-> FEnd] /\ UNCHANGED <<fid, fb>>
       /\ st' = "meta" /\ UNCHANGED <<lid, lleft, lright, xid, lsp, pos, offered>>

\* the leader's answer and the follower's preparation of its writer
Meta == /\ st = "meta"
        /\ IF req.id # lid
           THEN /\ st' = "done" /\ UNCHANGED <<fb, pos, offered, xid>>      \* the leader refuses an id that is not its own
           ELSE IF req.off > lright
           THEN /\ offered' = TRUE /\ st' = "done" /\ UNCHANGED <<fb, pos, xid>>
           ELSE LET m == IF lleft <= req.off THEN req.off ELSE lright       \* requested offset gone: newest offset
                    cleared == IF Held # {} /\ m > FEnd THEN [o \in Off |-> 0] ELSE fb
                    end == IF Held # {} /\ m > FEnd THEN -1 ELSE FEnd IN
                /\ fb' = cleared /\ offered' = offered
                /\ IF end = -1 \/ end = m THEN st' = "xfer" /\ pos' = m /\ xid' = lid
                   ELSE st' = "done" /\ pos' = pos /\ xid' = xid         \* the writer refuses a position that is not its end
        /\ UNCHANGED <<lid, lleft, lright, fid, lsp, req>>

\* one more byte of the transfer: the reader hands out what the leader's cache holds at its position - under the
\* history it was opened on, or (the design without ReaderEndsAtReset) whatever is cached there now
Xfer == /\ st = "xfer" /\ pos < lright
        /\ (ReaderEndsAtReset => xid = lid) /\ (xid # lid => lleft <= pos)
        /\ fb' = [fb EXCEPT ![pos] = lid] /\ pos' = pos + 1
        /\ UNCHANGED <<lid, lleft, lright, xid, fid, st, lsp, req, offered>>

\* transport failure or stop after any step; the next round starts with a new handshake
Interrupt == /\ st \in {"pre", "meta", "xfer", "done"} /\ st' = "shake"
             /\ UNCHANGED <<lid, lleft, lright, xid, fid, fb, lsp, req, pos, offered>>

LeaderAppend == /\ lright < MaxOff /\ lright' = lright + 1
                /\ UNCHANGED <<lid, lleft, xid, fid, fb, st, lsp, req, pos, offered>>
LeaderCollect == /\ lleft < lright /\ lleft' = lleft + 1
                 /\ UNCHANGED <<lid, lright, xid, fid, fb, st, lsp, req, pos, offered>>
\* full resynchronisation of the leader: cache reset, new history at any range (once)
LeaderSwitch == /\ lid = 1 /\ lid' = 3
                /\ \E a \in Off, b \in Off : a <= b /\ lleft' = a /\ lright' = b
                /\ UNCHANGED <<xid, fid, fb, st, lsp, req, pos, offered>>

Next == Shake \/ Pre \/ Meta \/ Xfer \/ Interrupt \/ LeaderAppend \/ LeaderCollect \/ LeaderSwitch
Spec == Init /\ [][Next]_vars

\* every byte stored under an id is a byte of that id's history
C16_FollowerIsCopy == \A o \in Off : fb[o] # 0 => fb[o] = fid
C16_Contiguous == Interval(Held)
\* leadership is only offered to a follower whose data is the leader's own history
C16_NoHandoverToForeign == offered => \A o \in Held : fb[o] \in {1, 3}
=============================================================================
