------------------------------ MODULE Pipeline ------------------------------
(* Design level of the whole per-source pipeline, as one run after another:    *)
(*                                                                              *)
(*   source (history ids, backlog)  --PSYNC-->  input  -->  cache  -->  output  *)
(*                                                            |          |      *)
(*                                               (survives a run)   target + cp *)
(*                                                                              *)
(* One "run" of syncer/input.go run() is: syncMeta (decide the PSYNC request    *)
(* from the target's stored position and the cache, ask the source, adjust the  *)
(* cache), open a cache reader at the position the decision yields, replay      *)
(* (a snapshot first if one is due) until the run ends - source connection      *)
(* lost, target error, stop.  Then the next run starts from what is stored.     *)
(* The decision table and the source's admission rule are those of Resync.tla   *)
(* (bound to the code by resyncdrv); replay and checkpointing are those of      *)
(* Replay.tla reduced to what matters across runs: ticker-driven mode stores a  *)
(* position that lags, transactional mode stores it with the data.              *)
(*                                                                              *)
(* Offsets count commands: "offset n" = n commands of the stream are known.     *)
(* The stream is 1, 2, 3, ...; a fail-over keeps the data and the numbering     *)
(* (Redis: replid2 / second_replid_offset).  A snapshot taken at offset m holds *)
(* 1..m.  tgt is the list the target holds.                                     *)
(*                                                                              *)
(* The step logic is written as operators over a state record (xF with guard    *)
(* xE) so that the trace specification (trace/TracePipeline.tla) can compose    *)
(* steps the implementation does not log (bytes arriving, a run ending).        *)
EXTENDS Integers, Sequences, FiniteSets, TLC

CONSTANTS MaxLen,        \* commands the source writes
          MaxFailovers,  \* 0..2
          MaxLose,       \* backlog losses
          MaxEnds,       \* run ends without another cause
          Txn            \* TRUE: position stored with the data; FALSE: ticker-driven

Ids == <<"A", "B", "C">>
None == "none"

VARIABLES src, cache, cp, run, tgt, cnt
vars == <<src, cache, cp, run, tgt, cnt>>

St == [src |-> src, cache |-> cache, cp |-> cp, run |-> run, tgt |-> tgt, cnt |-> cnt]
Become(s) == /\ src' = s.src /\ cache' = s.cache /\ cp' = s.cp /\ run' = s.run /\ tgt' = s.tgt /\ cnt' = s.cnt

Init ==
  /\ src = [id1 |-> "A", id2 |-> None, second |-> -1, len |-> 0, bl |-> 1, gen |-> 1]
  /\ cache = [id |-> None, l |-> -1, r |-> -1, snap |-> FALSE]
  /\ cp = [id |-> None, off |-> -1]
  /\ run = [up |-> FALSE, phase |-> "idle", rd |-> -1, last |-> [kind |-> "none"]]
  /\ tgt = <<>>
  /\ cnt = [lose |-> 0, ends |-> 0]

(* ---------------------------- the source ---------------------------- *)
WriteE(s) == s.src.len < MaxLen
WriteF(s) == [s EXCEPT !.src.len = @ + 1]

FailoverE(s) == s.src.gen <= MaxFailovers
FailoverF(s) == [s EXCEPT !.src = [@ EXCEPT !.id2 = s.src.id1, !.second = s.src.len + 1, !.id1 = Ids[s.src.gen + 1], !.gen = @ + 1],
                          !.run.up = FALSE, !.run.phase = "idle"]     \* the old master's connections die

LoseE(s) == s.cnt.lose < MaxLose
LoseF(s) == [s EXCEPT !.src.bl = s.src.len + 2, !.cnt.lose = @ + 1]

\* replication.c masterTryPartialResynchronization: request (id, off) = "off commands known, send from off+1"
Psync(sr, id, off) ==
  LET want == off + 1
      fullReply == [full |-> TRUE, id |-> sr.id1, off |-> sr.len] IN
  IF id = "?" \/ off < 0 THEN fullReply
  ELSE IF id # sr.id1 /\ (id # sr.id2 \/ want > sr.second) THEN fullReply
  ELSE IF want < sr.bl \/ want > sr.len + 1 THEN fullReply
  ELSE [full |-> FALSE, id |-> sr.id1, off |-> off]

(* ----------------------------- one run ------------------------------ *)
InputIds(s) == {s.src.id1, s.src.id2} \ {None}
LocSp(s) == IF s.cache.id \in InputIds(s) THEN [id |-> s.cache.id, off |-> s.cache.r] ELSE [id |-> "?", off |-> -1]
InRange(s, off) == s.cache.id # None /\
                   ((s.cache.l <= off /\ off <= s.cache.r) \/ (s.cache.l >= off /\ s.cache.snap))
OutSp(s) == IF s.cp.id \in InputIds(s) THEN s.cp ELSE [id |-> "?", off |-> -1]

\* syncMeta (input.go): which request is sent and what becomes of the cache
Decide(s) ==
  LET o == OutSp(s)  loc == LocSp(s) IN
  IF o.id # "?" /\ loc.id # "?" THEN
     IF o.id = loc.id /\ InRange(s, o.off)
     THEN [req |-> loc, clear |-> FALSE, readAt |-> o.off, local |-> FALSE, br |-> "1a"]
     ELSE [req |-> o, clear |-> TRUE, readAt |-> o.off, local |-> FALSE, br |-> "1b"]
  ELSE IF o.id # "?" THEN [req |-> o, clear |-> TRUE, readAt |-> o.off, local |-> FALSE, br |-> "2"]
  ELSE IF loc.id # "?" THEN
     IF s.cache.snap THEN [req |-> loc, clear |-> FALSE, readAt |-> s.cache.l - 1, local |-> TRUE, br |-> "3a"]
     ELSE [req |-> [id |-> "?", off |-> -1], clear |-> FALSE, readAt |-> -1, local |-> FALSE, br |-> "3b"]
  ELSE [req |-> [id |-> "?", off |-> -1], clear |-> FALSE, readAt |-> -1, local |-> FALSE, br |-> "4"]

ConnectE(s) == ~s.run.up
ConnectF(s) ==
  LET d == Decide(s)
      p == Psync(s.src, d.req.id, d.req.off)
      c2 == IF p.full THEN [id |-> p.id, l |-> p.off, r |-> p.off, snap |-> TRUE]
            ELSE IF d.clear THEN [id |-> p.id, l |-> d.req.off, r |-> d.req.off, snap |-> FALSE]
            ELSE [s.cache EXCEPT !.id = p.id]
      inLog == c2.l <= d.readAt /\ d.readAt <= c2.r
      kind == IF p.full THEN "snapshot"
              ELSE IF inLog THEN "continue"
              ELSE IF c2.snap /\ d.readAt <= c2.l THEN "cachedSnapshot" ELSE "error"
      note == [kind |-> kind, br |-> d.br, req |-> d.req, full |-> p.full, readAt |-> d.readAt, cpBefore |-> s.cp, cacheBefore |-> s.cache]
  IN [s EXCEPT !.cache = c2,
               !.run = CASE kind \in {"snapshot", "cachedSnapshot"} -> [up |-> TRUE, phase |-> "snap", rd |-> c2.l, last |-> note]
                         [] kind = "continue" -> [up |-> TRUE, phase |-> "stream", rd |-> d.readAt, last |-> note]
                         [] OTHER -> [up |-> FALSE, phase |-> "idle", rd |-> -1, last |-> note]]

\* a command arrives from the source and is cached
RecvE(s) == s.run.up /\ s.cache.r < s.src.len
RecvF(s, n) == [s EXCEPT !.cache.r = n]          \* n in (cache.r, src.len]

\* the snapshot is replayed (replace policy) and its offset stored
ApplySnapE(s) == s.run.up /\ s.run.phase = "snap"
ApplySnapF(s) == [s EXCEPT !.tgt = [i \in 1..s.cache.l |-> i], !.cp = [id |-> s.cache.id, off |-> s.cache.l],
                           !.run.phase = "stream", !.run.rd = s.cache.l]

\* ticker-driven mode: a command is applied; the stored position follows at the next tick
ApplyE(s) == s.run.up /\ s.run.phase = "stream" /\ s.run.rd < s.cache.r
ApplyF(s) == [s EXCEPT !.tgt = Append(@, s.run.rd + 1), !.run.rd = @ + 1]
TickE(s) == s.run.up /\ s.run.phase = "stream" /\ s.run.rd >= 0
TickF(s) == [s EXCEPT !.cp = [id |-> s.cache.id, off |-> s.run.rd]]

\* transactional mode: n commands and the position in one target transaction
BatchE(s, n) == s.run.up /\ s.run.phase = "stream" /\ n >= 0 /\ s.run.rd + n <= s.cache.r
BatchF(s, n) == [s EXCEPT !.tgt = @ \o [i \in 1..n |-> s.run.rd + i], !.run.rd = @ + n,
                          !.cp = [id |-> s.cache.id, off |-> s.run.rd + n]]

\* the run ends (connection lost, target error, stop): nothing but the cache and the target survive
RunEndE(s) == s.run.up
RunEndF(s) == [s EXCEPT !.run.up = FALSE, !.run.phase = "idle"]

Write == WriteE(St) /\ Become(WriteF(St))
Failover == FailoverE(St) /\ Become(FailoverF(St))
Lose == LoseE(St) /\ Become(LoseF(St))
Connect == ConnectE(St) /\ Become(ConnectF(St))
Recv == RecvE(St) /\ Become(RecvF(St, cache.r + 1))
ApplySnap == ApplySnapE(St) /\ Become(ApplySnapF(St))
Apply == ~Txn /\ ApplyE(St) /\ Become(ApplyF(St))
Tick == ~Txn /\ TickE(St) /\ Become(TickF(St))
Batch == Txn /\ \E n \in 0..2 : BatchE(St, n) /\ Become(BatchF(St, n))
RunEnd == RunEndE(St) /\ cnt.ends < MaxEnds /\ Become([RunEndF(St) EXCEPT !.cnt.ends = @ + 1])

Next == Write \/ Failover \/ Lose \/ Connect \/ Recv \/ ApplySnap \/ Apply \/ Tick \/ Batch \/ RunEnd
Spec == Init /\ [][Next]_vars
FairSpec == Spec /\ WF_vars(Connect) /\ WF_vars(Recv) /\ WF_vars(ApplySnap) /\ WF_vars(Apply) /\ WF_vars(Batch)

(* ----------------------------- properties ---------------------------- *)
Last(q) == IF q = <<>> THEN 0 ELSE q[Len(q)]

TypeOK == /\ src.len \in 0..MaxLen /\ cache.r <= src.len /\ cache.l <= cache.r
          /\ run.rd <= cache.r

\* C01/C02 across runs: the target's list is the stream without a hole: it starts at 1 and every element is the
\* successor of, or a repetition from behind, the one before it
E2E_NoGap == /\ (tgt # <<>> => tgt[1] = 1)
             /\ \A i \in 1..(Len(tgt) - 1) : tgt[i + 1] <= tgt[i] + 1 /\ tgt[i + 1] >= 1
\* nothing the source has not written
E2E_NothingInvented == \A i \in 1..Len(tgt) : tgt[i] <= src.len
\* transactional mode repeats nothing
E2E_TxnExactlyOnce == Txn => tgt = [i \in 1..Len(tgt) |-> i]
\* the stored position never claims more than the target holds, and names a history whose prefix the target holds
E2E_PositionTruthful == cp.id # None => (cp.off <= Last(tgt) /\ cp.off <= src.len)
\* C06: a run continues exactly from the stored position on the same data, or replays a snapshot
C06_ContinueFromStored ==
  (run.last.kind = "continue") =>
     /\ run.last.cpBefore.id # None /\ run.last.readAt = run.last.cpBefore.off
     /\ run.last.readAt >= cache.l
C06_SnapshotOtherwise ==
  (run.last.kind \in {"snapshot", "cachedSnapshot"} /\ run.phase = "snap") => cache.snap /\ run.rd = cache.l
\* the reader never runs ahead of what the target holds (a gap in the making)
E2E_ReaderNotAhead == (run.up /\ run.phase = "stream") => run.rd <= Last(tgt)

\* liveness (FairSpec, faults bounded by the constants): everything written arrives
E2E_Delivery == <>[](Last(tgt) = src.len /\ src.len = MaxLen)
=============================================================================
