------------------------------ MODULE Pipeline ------------------------------
(* Design level of the whole per-source pipeline, as one run after another:    *)
(*                                                                              *)
(*   source (history ids, backlog)  --PSYNC-->  input  -->  cache  -->  output  *)
(*                                                            |          |      *)
(*                                               (survives a run)   target + cp *)
(*                                                                              *)
(* One "run" of syncer/input.go run() is: syncMeta (decide the PSYNC request    *)
(* from the target's stored position and the cache, ask the source, adjust the  *)
(* cache), open a cache reader at the position the decision yields, replay      *)
(* (a snapshot first if one is due) until the run ends - source connection      *)
(* lost, target error, stop.  Then the next run starts from what is stored.     *)
(* The decision table and the source's admission rule are those of Resync.tla   *)
(* (bound to the code by resyncdrv); replay and checkpointing are those of      *)
(* Replay.tla reduced to what matters across runs: ticker-driven mode stores a  *)
(* position that lags, transactional mode stores it with the data.              *)
(*                                                                              *)
(* Offsets count commands: "offset n" = n commands of the stream are known.     *)
(* Command n written under history id w is the element <<n, w>>.  A fail-over   *)
(* promotes a replica that has the first k commands (k may be smaller than what *)
(* the old master had sent to the tool): the numbering continues, the previous  *)
(* id stays valid up to k (Redis: replid2 / second_replid_offset), and what the *)
(* old master wrote beyond k is not part of the new history.  A snapshot taken  *)
(* at offset m holds the elements 1..m of the history at that moment.  tgt is   *)
(* the list the target holds.                                                   *)
(*                                                                              *)
(* The step logic is written as operators over a state record (xF with guard    *)
(* xE) so that the trace specification (trace/TracePipeline.tla) can compose    *)
(* steps the implementation does not log (bytes arriving, a run ending).        *)
EXTENDS Integers, Sequences, FiniteSets, TLC

CONSTANTS MaxLen,        \* commands the source writes
          MaxFailovers,  \* 0..2
          MaxLose,       \* backlog losses
          MaxEnds,       \* run ends without another cause
          Txn,           \* TRUE: position stored with the data; FALSE: ticker-driven
          FixSameId,     \* TRUE: the cache is trusted only when it carries the id of the stored position (88be5eb)
          FixVoid,       \* TRUE: the stored position is void while a snapshot is replayed (d612a69)
          MaxCacheLoss   \* process restarts that lose the cache (memory cache, incomplete rdb file)

Ids == <<"A", "B", "C">>
None == "none"

VARIABLES src, cache, cp, run, tgt, cnt
vars == <<src, cache, cp, run, tgt, cnt>>

St == [src |-> src, cache |-> cache, cp |-> cp, run |-> run, tgt |-> tgt, cnt |-> cnt]
Is(s) == /\ src = s.src /\ cache = s.cache /\ cp = s.cp /\ run = s.run /\ tgt = s.tgt /\ cnt = s.cnt
Become(s) == /\ src' = s.src /\ cache' = s.cache /\ cp' = s.cp /\ run' = s.run /\ tgt' = s.tgt /\ cnt' = s.cnt

Init ==
  /\ src = [id1 |-> "A", id2 |-> None, id3 |-> None, second |-> -1, len |-> 0, bl |-> 1, gen |-> 1, log |-> <<>>]
  /\ cache = [id |-> None, l |-> -1, r |-> -1, snap |-> FALSE, w |-> <<>>, sw |-> <<>>]
  /\ cp = [id |-> None, off |-> -1]
  /\ run = [up |-> FALSE, link |-> FALSE, phase |-> "idle", rd |-> -1, from |-> 0, last |-> [kind |-> "none"]]
  /\ tgt = <<>>
  /\ cnt = [lose |-> 0, ends |-> 0, closs |-> 0]

(* ---------------------------- the source ---------------------------- *)
WriteE(s) == s.src.len < MaxLen
WriteF(s) == [s EXCEPT !.src.len = @ + 1, !.src.log = Append(@, s.src.id1)]

\* the promoted replica holds the first k commands
FailoverE(s, k) == s.src.gen <= MaxFailovers /\ k \in 0..s.src.len
FailoverF(s, k) == [s EXCEPT !.src = [@ EXCEPT !.id2 = s.src.id1, !.id3 = s.src.id2, !.second = k + 1, !.id1 = Ids[s.src.gen + 1], !.gen = @ + 1,
                                               !.len = k, !.log = SubSeq(s.src.log, 1, k)],
                             !.run.link = FALSE]     \* the old master's connections die; the output works on with what is cached

LoseE(s) == s.cnt.lose < MaxLose
LoseF(s) == [s EXCEPT !.src.bl = s.src.len + 2, !.cnt.lose = @ + 1]

\* replication.c masterTryPartialResynchronization: request (id, off) = "off commands known, send from off+1"
Psync(sr, id, off) ==
  LET want == off + 1
      fullReply == [full |-> TRUE, id |-> sr.id1, off |-> sr.len] IN
  IF id = "?" \/ off < 0 THEN fullReply
  ELSE IF id # sr.id1 /\ (id # sr.id2 \/ want > sr.second) THEN fullReply
  ELSE IF want < sr.bl \/ want > sr.len + 1 THEN fullReply
  ELSE [full |-> FALSE, id |-> sr.id1, off |-> off]

(* ----------------------------- one run ------------------------------ *)
\* syncMeta asks the source for its ids (INFO) first and sends PSYNC afterwards: a fail-over in between leaves it with
\* the ids of the old master (info) while the answer comes from the new one
Infos(s) == {[id1 |-> s.src.id1, id2 |-> s.src.id2]}
            \cup (IF s.src.id2 # None THEN {[id1 |-> s.src.id2, id2 |-> s.src.id3]} ELSE {})
InputIds(info) == {info.id1, info.id2} \ {None}
LocSp(s, info) == IF s.cache.id \in InputIds(info) THEN [id |-> s.cache.id, off |-> s.cache.r] ELSE [id |-> "?", off |-> -1]
InRange(s, off) == s.cache.id # None /\
                   ((s.cache.l <= off /\ off <= s.cache.r) \/ (s.cache.l >= off /\ s.cache.snap))
OutSp(s, info) == IF s.cp.id \in InputIds(info) THEN s.cp ELSE [id |-> "?", off |-> -1]

\* syncMeta (input.go): which request is sent and what becomes of the cache
Decide(s, info) ==
  LET o == OutSp(s, info)  loc == LocSp(s, info) IN
  IF o.id # "?" /\ loc.id # "?" THEN
     IF (FixSameId => o.id = loc.id) /\ InRange(s, o.off)
     THEN [req |-> loc, clear |-> FALSE, readAt |-> o.off, local |-> FALSE, br |-> "1a"]
     ELSE [req |-> o, clear |-> TRUE, readAt |-> o.off, local |-> FALSE, br |-> "1b"]
  ELSE IF o.id # "?" THEN [req |-> o, clear |-> TRUE, readAt |-> o.off, local |-> FALSE, br |-> "2"]
  ELSE IF loc.id # "?" THEN
     IF s.cache.snap THEN [req |-> loc, clear |-> FALSE, readAt |-> s.cache.l - 1, local |-> TRUE, br |-> "3a"]
     ELSE [req |-> [id |-> "?", off |-> -1], clear |-> FALSE, readAt |-> -1, local |-> FALSE, br |-> "3b"]
  ELSE [req |-> [id |-> "?", off |-> -1], clear |-> FALSE, readAt |-> -1, local |-> FALSE, br |-> "4"]

ConnectE(s) == ~s.run.up
ConnectF(s, info) ==
  LET d == Decide(s, info)
      p == Psync(s.src, d.req.id, d.req.off)
      \* the id everything is labelled with: the answer's for a full sync, the first id INFO reported when the stream continues
      label == IF p.full THEN p.id ELSE info.id1
      c2 == IF p.full THEN [id |-> label, l |-> p.off, r |-> p.off, snap |-> TRUE, w |-> <<>>, sw |-> s.src.log]
            ELSE IF d.clear THEN [id |-> label, l |-> d.req.off, r |-> d.req.off, snap |-> FALSE, w |-> <<>>, sw |-> <<>>]
            ELSE [s.cache EXCEPT !.id = label]
      inLog == c2.l <= d.readAt /\ d.readAt <= c2.r
      kind == IF p.full THEN "snapshot"
              ELSE IF inLog THEN "continue"
              ELSE IF c2.snap /\ d.readAt <= c2.l THEN "cachedSnapshot" ELSE "error"
      \* the stored position lies on the current history: under the current id, or under the previous one up to the switch
      sameHist == s.cp.id = s.src.id1 \/ (s.cp.id = s.src.id2 /\ s.cp.off + 1 <= s.src.second)
      note == [kind |-> kind, br |-> d.br, req |-> d.req, full |-> p.full, readAt |-> d.readAt, cpBefore |-> s.cp, cacheBefore |-> s.cache,
               sameHist |-> sameHist]
      \* syncMeta re-keys the stored position to that id. It keeps the offset when the stream
      \* continues; before a full sync it stores "none yet" in the same write (FixVoid; the defect kept the offset)
      cp2 == IF p.full /\ FixVoid THEN [id |-> label, off |-> -1]
             ELSE IF s.cp.id # None /\ s.cp.id # label THEN [id |-> label, off |-> s.cp.off] ELSE s.cp
  IN [s EXCEPT !.cache = c2, !.cp = cp2,
               !.run = CASE kind \in {"snapshot", "cachedSnapshot"} -> [up |-> TRUE, link |-> TRUE, phase |-> "snap", rd |-> c2.l, from |-> Len(s.tgt), last |-> note]
                         [] kind = "continue" -> [up |-> TRUE, link |-> TRUE, phase |-> "stream", rd |-> d.readAt, from |-> Len(s.tgt), last |-> note]
                         [] OTHER -> [up |-> FALSE, link |-> FALSE, phase |-> "idle", rd |-> -1, from |-> Len(s.tgt), last |-> note]]

\* a command arrives from the source and is cached
RecvE(s) == s.run.up /\ s.run.link /\ s.cache.r < s.src.len
RecvF(s, n) == [s EXCEPT !.cache.r = n,           \* n in (cache.r, src.len]
                         !.cache.w = @ \o [i \in 1..(n - s.cache.r) |-> s.src.log[s.cache.r + i]]]

\* the snapshot replay begins: the stored position is void from here on
SnapBeginE(s) == s.run.up /\ s.run.phase = "snap" /\ s.cp # [id |-> s.cache.id, off |-> -1]
SnapBeginF(s) == [s EXCEPT !.cp = [id |-> s.cache.id, off |-> -1]]
\* the snapshot is replayed (replace policy) and its offset stored
ApplySnapE(s) == s.run.up /\ s.run.phase = "snap" /\ (FixVoid => s.cp = [id |-> s.cache.id, off |-> -1])
ApplySnapF(s) == [s EXCEPT !.tgt = [i \in 1..s.cache.l |-> <<i, s.cache.sw[i]>>], !.cp = [id |-> s.cache.id, off |-> s.cache.l],
                           !.run.phase = "stream", !.run.rd = s.cache.l, !.run.from = 0]

\* ticker-driven mode: a command is applied; the stored position follows at the next tick
ApplyE(s) == s.run.up /\ s.run.phase = "stream" /\ s.run.rd < s.cache.r
CacheElem(s, n) == <<n, s.cache.w[n - s.cache.l]>>      \* the cached command number n (l < n <= r)
ApplyF(s) == [s EXCEPT !.tgt = Append(@, CacheElem(s, s.run.rd + 1)), !.run.rd = @ + 1]
TickE(s) == s.run.up /\ s.run.phase = "stream" /\ s.run.rd >= 0
TickF(s) == [s EXCEPT !.cp = [id |-> s.cache.id, off |-> s.run.rd]]

\* transactional mode: n commands and the position in one target transaction
BatchE(s, n) == s.run.up /\ s.run.phase = "stream" /\ n >= 0 /\ s.run.rd + n <= s.cache.r
BatchF(s, n) == [s EXCEPT !.tgt = @ \o [i \in 1..n |-> CacheElem(s, s.run.rd + i)], !.run.rd = @ + n,
                          !.cp = [id |-> s.cache.id, off |-> s.run.rd + n]]

\* the run ends (connection lost, target error, stop): nothing but the cache and the target survive
RunEndE(s) == s.run.up
RunEndF(s) == [s EXCEPT !.run.up = FALSE, !.run.link = FALSE, !.run.phase = "idle"]
\* the process restarts and the cache does not survive it (memory cache; disk cache with an incomplete rdb file)
CacheLostE(s) == s.cnt.closs < MaxCacheLoss
CacheLostF(s) == [RunEndF(s) EXCEPT !.cache = [id |-> None, l |-> -1, r |-> -1, snap |-> FALSE, w |-> <<>>, sw |-> <<>>],
                                    !.cnt.closs = @ + 1]
\* the connection to the source is lost; the output goes on with what is cached until the run ends
LinkDownE(s) == s.run.up /\ s.run.link
LinkDownF(s) == [s EXCEPT !.run.link = FALSE]

Write == WriteE(St) /\ Become(WriteF(St))
Failover == \E k \in 0..src.len : FailoverE(St, k) /\ Become(FailoverF(St, k))
Lose == LoseE(St) /\ Become(LoseF(St))
Connect == ConnectE(St) /\ \E info \in Infos(St) : Become(ConnectF(St, info))
Recv == RecvE(St) /\ Become(RecvF(St, cache.r + 1))
SnapBegin == FixVoid /\ SnapBeginE(St) /\ Become(SnapBeginF(St))
ApplySnap == ApplySnapE(St) /\ Become(ApplySnapF(St))
CacheLost == CacheLostE(St) /\ Become(CacheLostF(St))
Apply == ~Txn /\ ApplyE(St) /\ Become(ApplyF(St))
Tick == ~Txn /\ TickE(St) /\ Become(TickF(St))
Batch == Txn /\ \E n \in 0..2 : BatchE(St, n) /\ Become(BatchF(St, n))
\* a run whose connection is gone ends by itself; other run ends (target error, stop) are bounded
RunEnd == RunEndE(St) /\ (run.link => cnt.ends < MaxEnds) /\ Become([RunEndF(St) EXCEPT !.cnt.ends = IF run.link THEN @ + 1 ELSE @])
LinkDown == LinkDownE(St) /\ cnt.ends < MaxEnds /\ Become([LinkDownF(St) EXCEPT !.cnt.ends = @ + 1])

Next == Write \/ Failover \/ Lose \/ Connect \/ Recv \/ SnapBegin \/ CacheLost \/ ApplySnap \/ Apply \/ Tick \/ Batch \/ RunEnd \/ LinkDown
Spec == Init /\ [][Next]_vars
FairSpec == Spec /\ WF_vars(Connect) /\ WF_vars(Recv) /\ WF_vars(SnapBegin) /\ WF_vars(ApplySnap) /\ WF_vars(Apply) /\ WF_vars(Batch)
                 /\ WF_vars(RunEndE(St) /\ ~run.link /\ Become(RunEndF(St)))

(* ----------------------------- properties ---------------------------- *)
Num(q) == [i \in 1..Len(q) |-> q[i][1]]
Last(q) == IF q = <<>> THEN 0 ELSE q[Len(q)][1]
SrcElem(n) == <<n, src.log[n]>>

TypeOK == /\ src.len \in 0..MaxLen /\ Len(src.log) = src.len /\ cache.l <= cache.r
          /\ (cache.id # None => Len(cache.w) = cache.r - cache.l)
          /\ (cache.snap => Len(cache.sw) = cache.l)
          /\ (run.up => run.rd <= cache.r)

\* C01/C02 across runs: the target's list is the stream without a hole: it starts at 1 and every element is the
\* successor of, or a repetition from behind, the one before it
E2E_NoGap == LET q == Num(tgt) IN
             /\ (q # <<>> => q[1] = 1)
             /\ \A i \in 1..(Len(q) - 1) : q[i + 1] <= q[i] + 1 /\ q[i + 1] >= 1
\* C06: what a run delivers belongs to the history of the source it is connected to (nothing of another history,
\* no cached bytes the current source never had)
C06_DeliveredIsCurrentHistory ==
  (run.up /\ run.link) => \A i \in (run.from + 1)..Len(tgt) : tgt[i][1] <= src.len /\ tgt[i] = SrcElem(tgt[i][1])
\* ... and so is what the cache will deliver next
C06_CacheIsCurrentHistory ==
  (run.up /\ run.link /\ run.phase = "stream") =>
     \A n \in (run.rd + 1)..cache.r : n <= src.len /\ CacheElem(St, n) = SrcElem(n)
\* transactional mode repeats nothing and the target is a prefix of the source's history whenever a run is connected
E2E_TxnExactlyOnce == Txn => Num(tgt) = [i \in 1..Len(tgt) |-> i]
E2E_TxnPrefix == (Txn /\ run.up /\ run.link /\ run.phase = "stream") => \A i \in 1..Len(tgt) : i <= src.len /\ tgt[i] = SrcElem(i)
\* the stored position never claims more than the target holds
E2E_PositionTruthful == cp.id # None => cp.off <= Last(tgt)
\* C06: a run continues exactly from the stored position, or replays a snapshot
C06_ContinueFromStored ==
  (run.last.kind = "continue") =>
     /\ run.last.cpBefore.id # None /\ run.last.readAt = run.last.cpBefore.off
     /\ run.last.readAt >= cache.l
C06_ContinuedSameHistory == (run.last.kind = "continue") => run.last.sameHist
\* ... judged by content (an id can be re-keyed): transactional mode, whose stored position is exact - when a run continues
\* the stream, everything the target holds up to that position is the connected source's history
C06_ContinuedOnSameData ==
  (Txn /\ run.up /\ run.link /\ run.phase = "stream" /\ run.last.kind = "continue") =>
     \A i \in 1..Len(tgt) : i <= src.len /\ tgt[i] = SrcElem(i)
C06_SnapshotOtherwise ==
  (run.last.kind \in {"snapshot", "cachedSnapshot"} /\ run.phase = "snap") => cache.snap /\ run.rd = cache.l
\* the reader never runs ahead of what the target holds (a gap in the making)
E2E_ReaderNotAhead == (run.up /\ run.phase = "stream") => run.rd <= Last(tgt)

\* liveness (FairSpec, faults bounded by the constants): once the source is quiet, everything of its history is at the target
AllDelivered == \A n \in 1..src.len : \E i \in 1..Len(tgt) : tgt[i] = SrcElem(n)
E2E_Delivery == <>[]AllDelivered
=============================================================================
