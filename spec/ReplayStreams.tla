---------------------------- MODULE ReplayStreams ----------------------------
(* Small-scope input space of the replay family: every well-formed replication *)
(* stream of at most MaxLen items over the item kinds (the same streams        *)
(* Replay.tla's SourceEmit can produce, with transactions closed).  One TLC    *)
(* state per stream prefix; Shapes writes the complete streams for the         *)
(* lockstep driver, which replays each of them through the real code.          *)
EXTENDS Integers, Sequences, FiniteSets, TLC, Json, SequencesExt

CONSTANTS MaxLen, ShapesFile

Kinds == {"cmd", "sel0", "sel1", "multi", "exec", "ping", "flt"}

VARIABLES stream, inTxn
vars == <<stream, inTxn>>

Init == stream = <<>> /\ inTxn = FALSE
Emit(k) ==
  /\ Len(stream) < MaxLen
  \* (a transaction that touches two databases carries the database switch inside the group)
  /\ IF inTxn THEN k \in {"cmd", "exec", "sel0", "sel1", "flt"} ELSE k # "exec"
  \* a transaction must still be closable within the bound
  /\ (k = "multi") => Len(stream) + 3 <= MaxLen
  /\ (inTxn /\ k \in {"cmd", "sel0", "sel1", "flt"}) => Len(stream) + 2 <= MaxLen
  /\ (inTxn /\ k = "exec") => stream[Len(stream)] # "multi"
  /\ stream' = Append(stream, k)
  /\ inTxn' = IF k = "multi" THEN TRUE ELSE IF k = "exec" THEN FALSE ELSE inTxn
Next == \E k \in Kinds : Emit(k)
Spec == Init /\ [][Next]_vars

TypeOK == Len(stream) <= MaxLen /\ inTxn \in BOOLEAN
\* brackets are balanced exactly when not inside a transaction
RECURSIVE Depth(_, _)
Depth(s, i) == IF i = 0 THEN 0 ELSE Depth(s, i - 1) + (IF s[i] = "multi" THEN 1 ELSE IF s[i] = "exec" THEN -1 ELSE 0)
Balanced == Depth(stream, Len(stream)) = (IF inTxn THEN 1 ELSE 0)

\* all complete streams (computed independently of the transition relation)
WellFormed(s) ==
  /\ \A i \in 1..Len(s) : Depth(s, i) \in {0, 1}
  /\ Depth(s, Len(s)) = 0
  /\ \A i \in 1..Len(s) : (Depth(s, i - 1) = 1) => s[i] \in {"cmd", "exec", "sel0", "sel1", "flt"}
  /\ \A i \in 1..Len(s) : (Depth(s, i - 1) = 0) => s[i] # "exec"
  /\ \A i \in 2..Len(s) : (s[i] = "exec") => s[i - 1] # "multi"
All == {s \in UNION {[1..n -> Kinds] : n \in 1..MaxLen} : WellFormed(s)}
Shapes == TLCGet("stats").diameter >= 0 /\ ndJsonSerialize(ShapesFile, SetToSeq({[s |-> x] : x \in All}))
=============================================================================
