------------------------------ MODULE SlotScan ------------------------------
(* Design-level statement for C11: the one-pass routing algorithm (scan to    *)
(* the first '{', then to the first '}', fall back to the whole key when the  *)
(* tag is missing or empty, CRC computed byte by byte) computes the           *)
(* definitional HASH_SLOT of env/Slot.tla for every string over Alphabet up   *)
(* to MaxLen.  One transition = one byte consumed, so TLC's graph also lists  *)
(* every (string, slot) case; Cases writes them for the conformance driver.   *)
EXTENDS Slot, TLC, FiniteSets, Json, SequencesExt

CONSTANTS Alphabet, MaxLen, CasesFile

Strings == UNION {[1..n -> Alphabet] : n \in 0..MaxLen}

VARIABLES key, pos, phase, open, crcAll, crcTag, result
vars == <<key, pos, phase, open, crcAll, crcTag, result>>

Init == /\ key \in Strings /\ pos = 1 /\ phase = "seekOpen" /\ open = 0
        /\ crcAll = 0 /\ crcTag = 0 /\ result = -1

Finish == IF phase = "tagDone" THEN crcTag % 16384 ELSE crcAll % 16384

Step ==
  /\ phase # "done"
  /\ IF pos > Len(key)
     THEN /\ phase' = "done" /\ result' = Finish /\ UNCHANGED <<key, pos, open, crcAll, crcTag>>
     ELSE LET b == key[pos] IN
          /\ pos' = pos + 1 /\ crcAll' = ByteStep(crcAll, b) /\ UNCHANGED <<key, result>>
          /\ CASE phase = "seekOpen" /\ b = LB -> phase' = "inTag" /\ open' = pos /\ crcTag' = 0
               [] phase = "inTag" /\ b = RB ->
                    \* an empty tag means "hash the whole key" (no later tag is considered)
                    /\ phase' = IF pos = open + 1 THEN "whole" ELSE "tagDone"
                    /\ UNCHANGED <<open, crcTag>>
               [] phase = "inTag" /\ b # RB -> crcTag' = ByteStep(crcTag, b) /\ UNCHANGED <<phase, open>>
               [] OTHER -> UNCHANGED <<phase, open, crcTag>>

Next == Step
Spec == Init /\ [][Next]_vars

ScanAgreesWithDefinition == phase = "done" => result = HashSlot(key)
SlotInRange == result \in -1..16383

\* evaluated once (ASSUME-style through a constant expression in the cfg): writes the cases
Cases == TLCGet("stats").diameter >= 0 /\ ndJsonSerialize(CasesFile, SetToSeq({[k |-> s, slot |-> HashSlot(s)] : s \in Strings}))
=============================================================================
