----------------------------- MODULE FilterCases -----------------------------
(* Small-scope enumeration for C10: every white list of <= MaxWhite ranges     *)
(* and black list of <= MaxBlack ranges with end points in Points (all orders: *)
(* overlapping, nested, adjacent, single-slot, unsorted), each evaluated on    *)
(* every slot of interest.  One TLC state per (configuration, slot); the       *)
(* invariants are algebraic consequences of the definition; Cases writes the   *)
(* configurations for the conformance driver.                                  *)
EXTENDS Filter, TLC, Json, SequencesExt

CONSTANTS Points, MaxWhite, MaxBlack, CasesFile

Ranges == {<<a, b>> : a \in Points, b \in Points} \cap {r \in Points \X Points : r[1] <= r[2]}
Lists(n) == UNION {[1..m -> Ranges] : m \in 0..n}
Probe == {s \in 0..16383 : \E p \in Points : s \in {p - 1, p, p + 1}}

VARIABLES white, black, slot
vars == <<white, black, slot>>
Init == white \in Lists(MaxWhite) /\ black \in Lists(MaxBlack) /\ slot \in Probe
Next == UNCHANGED vars
Spec == Init /\ [][Next]_vars

\* consequences of "the union of the configured ranges"
OrderIrrelevant ==
  \A i, j \in 1..Len(white) :
     LET sw == [white EXCEPT ![i] = white[j], ![j] = white[i]] IN SlotOk(sw, black, slot) = SlotOk(white, black, slot)
BlackWins == InRanges(black, slot) => ~SlotOk(white, black, slot)
WhiteUnion == (Len(white) > 0 /\ ~InRanges(black, slot)) =>
              (SlotOk(white, black, slot) <=> \E i \in 1..Len(white) : SlotOk(<<white[i]>>, <<>>, slot))

Cases == TLCGet("stats").diameter >= 0 /\
         ndJsonSerialize(CasesFile, SetToSeq({[white |-> w, black |-> b] : w \in Lists(MaxWhite), b \in Lists(MaxBlack)}))
=============================================================================
