-------------------------------- MODULE Cache --------------------------------
(* D layer for C05: the disk cache as designed - one optional snapshot taken   *)
(* at offset snap.l, a chain of log segments (the last one being written),     *)
(* rotation when a segment exceeds LogSize, a collector that frees space from  *)
(* the oldest end (snapshot first, then unreferenced segments, never past a    *)
(* referenced one), and readers that hold a reference on the segment they are  *)
(* reading and follow the writer across rotations.                             *)
EXTENDS Integers, Sequences, FiniteSets, TLC

CONSTANTS MaxRight, LogSize, MaxSize, Readers, Chunks

NoSnap == [l |-> -1, done |-> FALSE]
Off == [st |-> "off", pos |-> 0, seg |-> -1, start |-> 0]

VARIABLES snap, segs, writing, rd
\* segs : sequence of [left, len]; the last one is open iff writing
vars == <<snap, segs, writing, rd>>

Right == IF segs = <<>> THEN (IF snap.l >= 0 THEN snap.l ELSE -1) ELSE segs[Len(segs)].left + segs[Len(segs)].len
Left == IF snap.l >= 0 THEN snap.l ELSE IF segs = <<>> THEN -1 ELSE segs[1].left
Covers(s, o) == s.left <= o /\ o <= s.left + s.len
InRange(o) == (segs # <<>> /\ segs[1].left <= o /\ o <= Right) \/ (snap.l >= 0 /\ snap.done /\ o <= snap.l)
\* newest segment containing o (the reader opens the newest candidate, as IndexAof does)
SegOf(o) == LET S == {i \in 1..Len(segs) : Covers(segs[i], o)} IN IF S = {} THEN 0 ELSE CHOOSE i \in S : \A j \in S : j <= i
Refs(i) == {r \in Readers : rd[r].st = "aof" /\ rd[r].seg = segs[i].left}
SnapRefs == {r \in Readers : rd[r].st = "snap"}

Init == snap = NoSnap /\ segs = <<>> /\ writing = FALSE /\ rd = [r \in Readers |-> Off]

\* a new snapshot voids everything cached; readers of the old data end
NewSnapshot(l) ==
  /\ Right < l /\ l <= MaxRight - 2
  /\ snap' = [l |-> l, done |-> FALSE] /\ segs' = <<>> /\ writing' = FALSE
  /\ rd' = [r \in Readers |-> Off]
SnapDone == /\ snap.l >= 0 /\ ~snap.done /\ snap' = [snap EXCEPT !.done = TRUE] /\ UNCHANGED <<segs, writing, rd>>

StartWriter ==
  /\ ~writing /\ (snap.l < 0 \/ snap.done)
  /\ LET at == IF segs = <<>> THEN (IF snap.l >= 0 THEN snap.l ELSE 1) ELSE Right IN
     \* an empty trailing segment is trimmed when its writer is replaced
     segs' = Append(IF segs # <<>> /\ segs[Len(segs)].len = 0 THEN SubSeq(segs, 1, Len(segs) - 1) ELSE segs, [left |-> at, len |-> 0])
  /\ writing' = TRUE /\ UNCHANGED <<snap, rd>>
StopWriter == /\ writing /\ writing' = FALSE /\ UNCHANGED <<snap, segs, rd>>

AppendBytes(n) ==
  /\ writing /\ Right + n <= MaxRight
  /\ LET k == Len(segs)
         grown == [segs EXCEPT ![k].len = @ + n] IN
     segs' = IF grown[k].len > LogSize THEN Append(grown, [left |-> grown[k].left + grown[k].len, len |-> 0]) ELSE grown
  /\ UNCHANGED <<snap, writing, rd>>

\* one collector pass (gcLogs): keep the newest segments that fit, then free from the oldest end
RECURSIVE KeepFrom(_, _)
KeepFrom(i, acc) == IF i = 0 THEN 0 ELSE IF acc + segs[i].len > MaxSize THEN i ELSE KeepFrom(i - 1, acc + segs[i].len)
RECURSIVE DropWhileFree(_, _)
DropWhileFree(i, last) == IF i > last \/ Refs(i) # {} THEN i ELSE DropWhileFree(i + 1, last)
Collect ==
  /\ segs # <<>>
  /\ LET last == KeepFrom(Len(segs), 0)            \* segments 1..last are beyond the budget
         over == last > 0
         snapGone == over /\ snap.l >= 0 /\ SnapRefs = {}
         blocked == over /\ snap.l >= 0 /\ SnapRefs # {}
         first == IF ~over \/ blocked THEN 1 ELSE DropWhileFree(1, last) IN
     /\ snap' = IF snapGone THEN NoSnap ELSE snap
     /\ segs' = SubSeq(segs, first, Len(segs))
  /\ UNCHANGED <<writing, rd>>

Open(r, o) ==
  /\ rd[r].st = "off" /\ InRange(o)
  /\ IF SegOf(o) # 0
     THEN rd' = [rd EXCEPT ![r] = [st |-> "aof", pos |-> o, seg |-> segs[SegOf(o)].left, start |-> o]]
     ELSE rd' = [rd EXCEPT ![r] = [st |-> "snap", pos |-> 0, seg |-> -1, start |-> 0]]
  /\ UNCHANGED <<snap, segs, writing>>
\* deliver one byte, following rotation to the segment that starts where this one ends
Read(r) ==
  /\ rd[r].st = "aof" /\ rd[r].pos < Right
  /\ LET i == CHOOSE j \in 1..Len(segs) : segs[j].left = rd[r].seg
         s == segs[i] IN
     IF rd[r].pos < s.left + s.len
     THEN rd' = [rd EXCEPT ![r].pos = @ + 1]
     ELSE /\ i < Len(segs) /\ rd' = [rd EXCEPT ![r].seg = segs[i + 1].left]
  /\ UNCHANGED <<snap, segs, writing>>
Close(r) == /\ rd[r].st # "off" /\ rd' = [rd EXCEPT ![r] = Off] /\ UNCHANGED <<snap, segs, writing>>

Next == (\E l \in 1..MaxRight : NewSnapshot(l)) \/ SnapDone \/ StartWriter \/ StopWriter \/ (\E n \in Chunks : AppendBytes(n))
        \/ Collect \/ (\E r \in Readers : (\E o \in 0..MaxRight : Open(r, o)) \/ Read(r) \/ Close(r))
Spec == Init /\ [][Next]_vars

TypeOK == /\ \A i \in 1..Len(segs) : segs[i].len >= 0
          /\ \A r \in Readers : rd[r].st \in {"off", "aof", "snap"}
\* a reader's segment is never collected under it, and it only ever delivered start..pos
ReaderFaithful ==
  \A r \in Readers : rd[r].st = "aof" =>
     /\ \E i \in 1..Len(segs) : segs[i].left = rd[r].seg
     /\ rd[r].start <= rd[r].pos /\ rd[r].pos <= Right
ValidImpliesReadable == \A o \in 0..MaxRight : InRange(o) => (SegOf(o) # 0 \/ (snap.l >= 0 /\ snap.done /\ o <= snap.l))
RangeContiguous == \A i \in 1..(Len(segs) - 1) : segs[i + 1].left = segs[i].left + segs[i].len
\* a snapshot is only kept while the log that continues it is kept
SnapshotHasContinuation == (snap.l >= 0 /\ segs # <<>>) => segs[1].left = snap.l
=============================================================================
