-------------------------------- MODULE Lease --------------------------------
(* D layer for C15: contenders calling Campaign / Renew / Resign on the lease  *)
(* store, time passing, calls that fail before reaching the store, calls whose  *)
(* reply is lost and calls whose reply arrives after the deadline the caller    *)
(* set (the caller either waited for it or gave up with an error).  An instance acts as leader from a "leader" answer     *)
(* until one lease period after the call was ISSUED, a failed renewal, or its  *)
(* own resignation.                                                            *)
EXTENDS LeaseStore, Sequences, FiniteSets, TLC, Json

CONSTANTS Ids, TTL, MaxTime, MaxHist, EmitCases
MaxLate == 1     \* late replies per emitted history

VARIABLES store, now, acts, hist
\* acts[i] = time until which i acts as leader (0 = not leader)
vars == <<store, now, acts, hist>>

Init == store = [holder |-> None, exp |-> 0] /\ now = 0 /\ acts = [i \in Ids |-> 0] /\ hist = <<>>

Rec(op) == hist' = IF EmitCases THEN Append(hist, op) ELSE hist
Room == ~EmitCases \/ Len(hist) < MaxHist

\* executed, reply delivered
Campaign(i, renew) ==
  /\ Room
  /\ LET r == CampaignAt(store, now, i, TTL) IN
     /\ store' = r[1]
     /\ acts' = [acts EXCEPT ![i] = IF r[2] = 1 THEN now + TTL ELSE 0]
  /\ Rec([op |-> IF renew THEN "renew" ELSE "campaign", i |-> i, f |-> "ok"])
  /\ UNCHANGED now
\* executed at the store, reply lost: the caller sees an error and stops acting as leader
CampaignLost(i) ==
  /\ Room
  /\ store' = CampaignAt(store, now, i, TTL)[1]
  /\ acts' = [acts EXCEPT ![i] = 0]
  /\ Rec([op |-> "campaign", i |-> i, f |-> "lost"])
  /\ UNCHANGED now
\* never reaches the store
CampaignFail(i) ==
  /\ Room
  /\ acts' = [acts EXCEPT ![i] = 0]
  /\ Rec([op |-> "campaign", i |-> i, f |-> "fail"])
  /\ UNCHANGED <<store, now>>
\* executed at the store, reply after the caller's deadline: the caller waited (and is told the truth) or gave up
NoLateYet == ~EmitCases \/ Len(SelectSeq(hist, LAMBDA o : o.f = "late")) < MaxLate
CampaignLate(i, renew, gaveUp) ==
  /\ Room /\ NoLateYet
  /\ LET r == CampaignAt(store, now, i, TTL) IN
     /\ store' = r[1]
     /\ acts' = [acts EXCEPT ![i] = IF r[2] = 1 /\ ~gaveUp THEN now + TTL ELSE 0]
  /\ Rec([op |-> IF renew THEN "renew" ELSE "campaign", i |-> i, f |-> "late"])
  /\ UNCHANGED now
ResignLate(i) ==
  /\ Room /\ NoLateYet
  /\ store' = ResignAt(store, now, i)[1]
  /\ acts' = [acts EXCEPT ![i] = 0]
  /\ Rec([op |-> "resign", i |-> i, f |-> "late"])
  /\ UNCHANGED now
Resign(i) ==
  /\ Room
  /\ store' = ResignAt(store, now, i)[1]
  /\ acts' = [acts EXCEPT ![i] = 0]
  /\ Rec([op |-> "resign", i |-> i, f |-> "ok"])
  /\ UNCHANGED now
Tick ==
  /\ Room /\ now < MaxTime
  /\ now' = now + 1
  /\ Rec([op |-> "tick", i |-> "none", f |-> "ok"])
  /\ UNCHANGED <<store, acts>>

Next == (\E i \in Ids : Campaign(i, FALSE) \/ Campaign(i, TRUE) \/ CampaignLost(i) \/ CampaignFail(i) \/ Resign(i)
                          \/ (\E g \in BOOLEAN : CampaignLate(i, FALSE, g) \/ CampaignLate(i, TRUE, g)) \/ ResignLate(i)) \/ Tick
Spec == Init /\ [][Next]_vars

Acting(i) == acts[i] > now
AtMostOneActingLeader == \A i, j \in Ids : (Acting(i) /\ Acting(j)) => i = j
ActingImpliesHolder == \A i \in Ids : Acting(i) => (HolderOf(store, now) = i /\ store.exp >= acts[i])
\* a holder that stops renewing is gone one lease period after its last successful renewal
HolderCeases == \A i \in Ids : (HolderOf(store, now) = i) => store.exp <= now + TTL
TypeOK == now \in 0..MaxTime /\ store.holder \in Ids \cup {None}

View == <<store, now, acts>>
EmitCase == ~EmitCases \/ hist = <<>> \/ PrintT("CASE " \o ToJson([ops |-> hist]))
=============================================================================
