-------------------------------- MODULE Lease --------------------------------
(* D layer for C15: contenders calling Campaign / Renew / Resign on the lease  *)
(* store, time passing, calls that fail before reaching the store and calls    *)
(* whose reply is lost.  An instance acts as leader from a "leader" answer     *)
(* until one lease period after the call was ISSUED, a failed renewal, or its  *)
(* own resignation.                                                            *)
EXTENDS LeaseStore, Sequences, FiniteSets, TLC, Json

CONSTANTS Ids, TTL, MaxTime, MaxHist, EmitCases

VARIABLES store, now, acts, hist
\* acts[i] = time until which i acts as leader (0 = not leader)
vars == <<store, now, acts, hist>>

Init == store = [holder |-> None, exp |-> 0] /\ now = 0 /\ acts = [i \in Ids |-> 0] /\ hist = <<>>

Rec(op) == hist' = IF EmitCases THEN Append(hist, op) ELSE hist
Room == ~EmitCases \/ Len(hist) < MaxHist

\* executed, reply delivered
Campaign(i, renew) ==
  /\ Room
  /\ LET r == CampaignAt(store, now, i, TTL) IN
     /\ store' = r[1]
     /\ acts' = [acts EXCEPT ![i] = IF r[2] = 1 THEN now + TTL ELSE 0]
  /\ Rec([op |-> IF renew THEN "renew" ELSE "campaign", i |-> i, f |-> "ok"])
  /\ UNCHANGED now
\* executed at the store, reply lost: the caller sees an error and stops acting as leader
CampaignLost(i) ==
  /\ Room
  /\ store' = CampaignAt(store, now, i, TTL)[1]
  /\ acts' = [acts EXCEPT ![i] = 0]
  /\ Rec([op |-> "campaign", i |-> i, f |-> "lost"])
  /\ UNCHANGED now
\* never reaches the store
CampaignFail(i) ==
  /\ Room
  /\ acts' = [acts EXCEPT ![i] = 0]
  /\ Rec([op |-> "campaign", i |-> i, f |-> "fail"])
  /\ UNCHANGED <<store, now>>
Resign(i) ==
  /\ Room
  /\ store' = ResignAt(store, now, i)[1]
  /\ acts' = [acts EXCEPT ![i] = 0]
  /\ Rec([op |-> "resign", i |-> i, f |-> "ok"])
  /\ UNCHANGED now
Tick ==
  /\ Room /\ now < MaxTime
  /\ now' = now + 1
  /\ Rec([op |-> "tick", i |-> "none", f |-> "ok"])
  /\ UNCHANGED <<store, acts>>

Next == (\E i \in Ids : Campaign(i, FALSE) \/ Campaign(i, TRUE) \/ CampaignLost(i) \/ CampaignFail(i) \/ Resign(i)) \/ Tick
Spec == Init /\ [][Next]_vars

Acting(i) == acts[i] > now
AtMostOneActingLeader == \A i, j \in Ids : (Acting(i) /\ Acting(j)) => i = j
ActingImpliesHolder == \A i \in Ids : Acting(i) => (HolderOf(store, now) = i /\ store.exp >= acts[i])
\* a holder that stops renewing is gone one lease period after its last successful renewal
HolderCeases == \A i \in Ids : (HolderOf(store, now) = i) => store.exp <= now + TTL
TypeOK == now \in 0..MaxTime /\ store.holder \in Ids \cup {None}

View == <<store, now, acts>>
EmitCase == ~EmitCases \/ hist = <<>> \/ PrintT("CASE " \o ToJson([ops |-> hist]))
=============================================================================
