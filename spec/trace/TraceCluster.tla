----------------------------- MODULE TraceCluster -----------------------------
(* P layer for C19: the cluster-wide execution order of the business commands  *)
(* a three-node cluster fake executed (each by the node owning the key's slot  *)
(* at that moment - the fake refuses everything else with MOVED / ASK), while   *)
(* slots migrated under the real replay.  Exec carries the source index of the  *)
(* command (0 = none) and its key; Mig records a migration step (informative);  *)
(* Return is the end of RedisOutput.Send.  Monitor style.                       *)
EXTENDS Integers, Sequences, FiniteSets, TLC, Json

CONSTANT TraceFile
Trace == ndJsonDeserialize(TraceFile)

VARIABLES l, meta, last, execd, ever
\* last[k]  : per-key ordinal of the command of key k executed most recently (0 = none yet)
\* execd    : source indices executed in the current run (no-duplicate rule of transactional mode)
\* ever     : source indices executed in any run
vars == <<l, meta, last, execd, ever>>

\* keysOf[i] : the keys (1..nkeys) command i touches - one for RPUSH, several for a multi-key DEL
KeysOf(i) == {meta.keysOf[i][j] : j \in 1..Len(meta.keysOf[i])}
N == Len(meta.keysOf)
\* ordinal of source command i among the commands that touch key k
OrdK(i, k) == Cardinality({j \in 1..i : k \in KeysOf(j)})
Total(k) == Cardinality({j \in 1..N : k \in KeysOf(j)})

Init == /\ l = 1 /\ meta = [id |-> 0, keysOf |-> <<>>, nkeys |-> 0, txn |-> FALSE, mode |-> ""] /\ last = <<>> /\ execd = {} /\ ever = {}
IsEvent(e) == l <= Len(Trace) /\ Trace[l].ev = e /\ l' = l + 1
Report(bad) == IF bad = {} THEN TRUE ELSE PrintT(<<"VIOL", meta.id, l, bad>>)

Reset == /\ IsEvent("Reset") /\ meta' = Trace[l] /\ last' = [k \in 1..Trace[l].nkeys |-> 0] /\ execd' = {} /\ ever' = {}

Exec ==
  /\ IsEvent("Exec")
  /\ LET r == Trace[l] IN
     IF r.idx = 0 THEN Report({"C19_UnknownCommand"}) /\ UNCHANGED <<last, execd, ever>>
     ELSE \* source order with rewinds only, for every key the command touches: the next command of a key is the
          \* successor of the previous one, or a restart from an earlier one; never a jump over a command that has
          \* not run in this pass
          /\ Report((IF \E k \in KeysOf(r.idx) : OrdK(r.idx, k) > last[k] + 1 THEN {"C19_PerKeyOrderBroken"} ELSE {})
                    \* (outside transactional mode a failed batch is sent again as a whole inside the run - "a retried batch may
                    \* repeat a suffix" -, so a repeat is judged in transactional mode only)
                    \cup (IF meta.txn /\ r.idx \in execd THEN {"C19_TxnCommandExecutedTwice"} ELSE {}))
          /\ last' = [k \in 1..meta.nkeys |-> IF k \in KeysOf(r.idx) THEN OrdK(r.idx, k) ELSE last[k]]
          /\ execd' = execd \cup {r.idx} /\ ever' = ever \cup {r.idx}
  /\ UNCHANGED meta

Mig == IsEvent("Mig") /\ UNCHANGED <<meta, last, execd, ever>>

\* a (re)start: the stored position is a command boundary and nothing before it is still unexecuted
Resume ==
  /\ IsEvent("Resume")
  /\ LET r == Trace[l] IN
     Report((IF ~r.boundary THEN {"C19_ResumePointLost"} ELSE {})
            \cup (IF r.boundary /\ \E i \in 1..r.from : i \notin ever THEN {"C19_ResumeSkipsUnexecutedCommand"} ELSE {}))
  /\ execd' = {} /\ UNCHANGED <<meta, last, ever>>

\* Send returned: either everything ran or an error / restart is reported
Return ==
  /\ IsEvent("Return")
  /\ LET r == Trace[l]
         complete == ever = 1..N IN
     \* nothing is missing when no error is reported, and every key ends on its last command (a command that
     \* was retried after its successors ran is an inversion, not a rewind)
     Report((IF ~r.err /\ (r.stalled \/ ~complete) THEN {"C19_SilentLoss"} ELSE {})
            \cup (IF ~r.err /\ complete /\ \E k \in 1..meta.nkeys : last[k] # Total(k) THEN {"C19_PerKeyOrderBroken"} ELSE {}))
  /\ UNCHANGED <<meta, last, execd, ever>>

Next == Reset \/ Exec \/ Mig \/ Return \/ Resume
Spec == Init /\ [][Next]_vars
TraceAccepted ==
  LET d == TLCGet("stats").diameter IN
  IF d - 1 = Len(Trace) THEN TRUE ELSE Print(<<"TRACE-NOT-CONSUMED", d - 1, Len(Trace)>>, FALSE)
=============================================================================
