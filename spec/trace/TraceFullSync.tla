---------------------------- MODULE TraceFullSync ----------------------------
(* P layer for the snapshot replay family (C03 C04 C20).  One event per        *)
(* scenario: the abstract dataset the generator encoded (expect), the prior    *)
(* target contents, the configured policy, the injected fault, what            *)
(* RedisOutput.Send returned, whether the completion checkpoint was written    *)
(* and the final target keyspace (typed values in canonical form).  Loader     *)
(* events summarise the damaged-input enumeration at parser level.             *)
EXTENDS Integers, Sequences, FiniteSets, TLC, Json

CONSTANT TraceFile
Trace == ndJsonDeserialize(TraceFile)
VARIABLE l
vars == <<l>>

Tol == 3000     \* ms: relative TTLs are converted with two different clocks (tool and target)
Abs(x) == IF x < 0 THEN -x ELSE x

Find(S, db, key) == LET I == {i \in 1..Len(S) : S[i].db = db /\ S[i].key = key} IN IF I = {} THEN 0 ELSE CHOOSE i \in I : TRUE
Expired(e) == e.exp < -1
SameValue(a, b) == a.t = b.t /\ a.v = b.v
ExpiryOk(e, f) == IF e.exp = -1 THEN f.exp = -1 ELSE f.exp # -1 /\ Abs(f.exp - e.exp) <= Tol

\* the key of expected entry e is on the target exactly as the snapshot holds it
Reproduced(r, e) == LET i == Find(r.final, e.db, e.key) IN i # 0 /\ SameValue(e, r.final[i]) /\ ExpiryOk(e, r.final[i])
Absent(r, e) == Find(r.final, e.db, e.key) = 0
Untouched(r, p) == LET i == Find(r.final, p.db, p.key) IN i # 0 /\ SameValue(p, r.final[i]) /\ r.final[i].exp = p.exp
PriorOf(r, e) == Find(r.prior, e.db, e.key)

Live(r) == {i \in 1..Len(r.expect) : ~r.expect[i].filtered /\ ~Expired(r.expect[i])}
Complete(r) == \A i \in Live(r) : Reproduced(r, r.expect[i])

SyncBad(r) ==
  (IF r.ret # "ok" THEN {"C03_ReplayFailed"} ELSE {})
  \cup (IF r.ret = "ok" /\ \E i \in Live(r) : ~Reproduced(r, r.expect[i]) THEN {"C03_KeyMissingOrDifferent"} ELSE {})
  \cup (IF \E i \in 1..Len(r.expect) : Expired(r.expect[i]) /\ ~r.expect[i].filtered /\ ~Absent(r, r.expect[i]) THEN {"C03_ExpiredKeyPresent"} ELSE {})
  \cup (IF \E i \in 1..Len(r.expect) : r.expect[i].filtered /\ ~Absent(r, r.expect[i]) THEN {"C03_FilteredKeyPresent"} ELSE {})
  \cup (IF \E j \in 1..Len(r.final) : Find(r.expect, r.final[j].db, r.final[j].key) = 0 THEN {"C03_InventedKey"} ELSE {})
  \cup (IF r.badpayload > 0 THEN {"C03_RestorePayloadNotExact"} ELSE {})

FaultBad(r) ==
  LET damaged == r.fault \in {"trunc", "flip"} IN
  (IF damaged /\ r.ret = "ok" THEN {"C04_DamagedInputAccepted"} ELSE {})
  \cup (IF r.cp = r.left /\ (damaged \/ ~Complete(r)) THEN {"C04_CheckpointWithoutCompleteReplay"} ELSE {})
  \cup (IF r.ret = "ok" /\ ~Complete(r) THEN {"C04_IncompleteReportedAsDone"} ELSE {})

PolicyBad(r) ==
  LET clash == {i \in 1..Len(r.expect) : ~r.expect[i].filtered /\ PriorOf(r, r.expect[i]) # 0}
      fresh == {i \in 1..Len(r.expect) : ~r.expect[i].filtered /\ PriorOf(r, r.expect[i]) = 0}
      asSnapshot(i) == IF Expired(r.expect[i]) THEN Absent(r, r.expect[i]) ELSE Reproduced(r, r.expect[i])
  IN CASE r.policy = "replace" ->
            (IF r.ret # "ok" THEN {"C20_ReplaceFailed"} ELSE {})
            \cup (IF r.ret = "ok" /\ \E i \in clash \cup fresh : ~asSnapshot(i) THEN {"C20_ReplaceLeftOldOrMergedValue"} ELSE {})
       [] r.policy = "ignore" ->
            (IF r.ret # "ok" THEN {"C20_IgnoreFailed"} ELSE {})
            \cup (IF \E i \in clash : ~Untouched(r, r.prior[PriorOf(r, r.expect[i])]) THEN {"C20_IgnoredKeyModified"} ELSE {})
            \cup (IF r.ret = "ok" /\ \E i \in fresh : ~asSnapshot(i) THEN {"C20_FreshKeyNotReplayed"} ELSE {})
       [] r.policy = "error" ->
            (IF clash # {} /\ r.ret = "ok" THEN {"C20_ErrorPolicyDidNotStop"} ELSE {})
            \cup (IF \E i \in clash : ~Untouched(r, r.prior[PriorOf(r, r.expect[i])]) THEN {"C20_ErrorPolicyModifiedKey"} ELSE {})
            \cup (IF clash = {} /\ (r.ret # "ok" \/ \E i \in fresh : ~asSnapshot(i)) THEN {"C20_ErrorPolicyWithoutClash"} ELSE {})
       [] OTHER -> {"HARNESS_UnknownPolicy"}

LoaderBad(r) ==
  (IF r.intactErr \/ ~r.intactDone \/ r.intactEntries < r.keys THEN {"HARNESS_IntactSnapshotRejected"} ELSE {})
  \cup (IF Len(r.silent) > 0 THEN {"C04_DamagedInputAccepted"} ELSE {})
  \cup (IF Len(r.hangs) > 0 THEN {"C04_DamagedInputHangs"} ELSE {})

Bad(r) == IF r.ev = "Loader" THEN LoaderBad(r)
          ELSE CASE r.kind = "sync" -> SyncBad(r)
                 [] r.kind = "fault" -> FaultBad(r)
                 [] r.kind = "policy" -> PolicyBad(r)
                 [] OTHER -> {"HARNESS_UnknownKind"}

Init == l = 1
Next == /\ l <= Len(Trace) /\ l' = l + 1
        /\ LET b == Bad(Trace[l]) IN IF b = {} THEN TRUE ELSE PrintT(<<"VIOL", Trace[l].id, l, b>>)
Spec == Init /\ [][Next]_vars
TraceAccepted ==
  LET d == TLCGet("stats").diameter IN
  IF d - 1 = Len(Trace) THEN TRUE ELSE Print(<<"TRACE-NOT-CONSUMED", d - 1, Len(Trace)>>, FALSE)
=============================================================================
