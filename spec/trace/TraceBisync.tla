----------------------------- MODULE TraceBisync -----------------------------
(* P layer for C14 (and the shape clauses of C13/C18): the raw requests the    *)
(* fake target received from the real bidirectional replay, projected onto      *)
(* replay units (biz: unit index u, command index ci), markers, recovery        *)
(* records (latest / commit journal), journal index, frontier snapshot and      *)
(* journal deletions.  MULTI/EXEC is modelled per connection; EXEC applies its  *)
(* block atomically.  Crash = every connection and open block lost.  Resume =  *)
(* RedisOutput.StartPoint() of the next start.  Monitor style.                  *)
EXTENDS Integers, Sequences, FiniteSets, TLC, Json

CONSTANT TraceFile
Trace == ndJsonDeserialize(TraceFile)

VARIABLES l, meta, conns, applied, lastResume, crashes
\* applied[u] = number of times the whole business content of unit u was committed on the target
vars == <<l, meta, conns, applied, lastResume, crashes>>

Units == meta.units
N == Len(Units)
Ends == {meta.start} \cup {Units[u].e : u \in 1..N}
\* every unit ending at or before offset o has been committed
CoveredUpTo(o, app) == \A u \in 1..N : Units[u].e <= o => app[u] >= 1

Init == /\ l = 1 /\ meta = [id |-> 0, mode |-> "sync", start |-> 0, units |-> <<>>, cluster |-> FALSE, filter |-> FALSE] /\ conns = <<>>
        /\ applied = <<>> /\ lastResume = -1 /\ crashes = 0
IsEvent(e) == l <= Len(Trace) /\ Trace[l].ev = e /\ l' = l + 1
Report(bad) == IF bad = {} THEN TRUE ELSE PrintT(<<"VIOL", meta.id, l, bad>>)
ConnOf(c) == IF c \in DOMAIN conns THEN conns[c] ELSE [inMulti |-> FALSE, q |-> <<>>]
SetConn(c, r) == [x \in (DOMAIN conns) \cup {c} |-> IF x = c THEN r ELSE conns[x]]

Reset == /\ IsEvent("Reset") /\ meta' = Trace[l] /\ conns' = <<>>
         /\ applied' = [u \in 1..Len(Trace[l].units) |-> 0] /\ lastResume' = -1 /\ crashes' = 0

\* judge one atomically applied block (sequence of projected requests)
BlockBad(q, inExec, app) ==
  LET biz == {i \in 1..Len(q) : q[i].t = "biz"}
      us == {q[i].u : i \in biz}
      recs == {i \in 1..Len(q) : q[i].t = "rec"}
      whole(u) == u >= 1 /\ u <= N /\ \A ci \in 1..Units[u].n : \E i \in biz : q[i].u = u /\ q[i].ci = ci
      recFor(u) == \E i \in recs : q[i].off = Units[u].e
  IN (IF \E i \in biz : q[i].u = 0 THEN {"C13_UnknownBusinessCommand"} ELSE {})
     \* C10: with a key filter configured the units hold the commands restricted to their accepted keys; anything else
     \* that arrives is not the projection the filter owes the target
     \cup (IF meta.filter /\ \E i \in biz : q[i].u = 0 THEN {"C10_ForwardedOtherThanProjection"} ELSE {})
     \cup (IF biz # {} /\ ~inExec THEN {"C14_BusinessOutsideTransaction"} ELSE {})
     \cup (IF \E u \in us : u >= 1 /\ ~whole(u) THEN {"C14_UnitSplit"} ELSE {})
     \cup (IF Cardinality(us) > 1 THEN {"C14_TwoUnitsInOneTransaction"} ELSE {})
     \cup (IF \E u \in us : u >= 1 /\ whole(u) /\ ~recFor(u) THEN {"C14_DataWithoutRecoveryRecord"} ELSE {})
     \cup (IF biz # {} /\ q[1].t # "marker" THEN {"C13_MarkerNotFirst"} ELSE {})
     \cup (IF biz = {} /\ recs # {} /\ inExec /\ \E i \in recs : \E u \in 1..N : Units[u].e = q[i].off /\ app[u] = 0
           THEN {"C14_RecordWithoutData"} ELSE {})
     \cup (IF meta.mode = "sync" /\ \E u \in us : u >= 1 /\ whole(u) /\ app[u] >= 1 THEN {"C14_SyncModeRepeatedUnit"} ELSE {})
     \* a stored frontier / latest position never passes a unit that is not committed
     \cup (IF \E i \in 1..Len(q) : q[i].t = "frontier" /\ q[i].off >= meta.start /\
              ~CoveredUpTo(q[i].off, [u \in 1..N |-> IF u \in us THEN app[u] + 1 ELSE app[u]])
           THEN {"C14_FrontierPassesUncommittedUnit"} ELSE {})
     \cup (IF \E i \in 1..Len(q) : q[i].t = "frontier" /\ q[i].off \notin Ends THEN {"C14_FrontierNotAtUnitEnd"} ELSE {})
     \* C18: on a cluster target everything inside one MULTI/EXEC addresses one slot (slots by the oracle's HASH_SLOT)
     \cup (IF meta.cluster /\ inExec /\ (\E i \in 1..Len(q) : q[i].sl = -2 \/
                 \E j \in 1..Len(q) : q[i].sl >= 0 /\ q[j].sl >= 0 /\ q[i].sl # q[j].sl)
           THEN {"C18_MultiSlotTransaction"} ELSE {})
     \cup (IF meta.cluster /\ ~inExec /\ q[1].sl = -2 THEN {"C18_MultiSlotCommand"} ELSE {})
     \* C18: nothing of an unroutable unit is ever sent
     \cup (IF \E i \in biz : q[i].u >= 1 /\ q[i].u <= N /\ ~Units[q[i].u].ok THEN {"C18_UnroutableUnitSent"} ELSE {})

ApplyBlock(q, app) ==
  LET us == {q[i].u : i \in {j \in 1..Len(q) : q[j].t = "biz"}} \ {0}
      whole(u) == \A ci \in 1..Units[u].n : \E i \in 1..Len(q) : q[i].t = "biz" /\ q[i].u = u /\ q[i].ci = ci
  IN [u \in 1..N |-> IF u \in us /\ whole(u) THEN app[u] + 1 ELSE app[u]]

Req ==
  /\ IsEvent("Req")
  /\ LET r == Trace[l]
         c == ConnOf(r.c) IN
     IF r.t = "multi" THEN
        /\ conns' = SetConn(r.c, [inMulti |-> TRUE, q |-> <<>>]) /\ UNCHANGED <<meta, applied, lastResume, crashes>>
     ELSE IF r.t = "exec" THEN
        /\ Report(BlockBad(c.q, TRUE, applied))
        /\ applied' = ApplyBlock(c.q, applied)
        /\ conns' = SetConn(r.c, [inMulti |-> FALSE, q |-> <<>>]) /\ UNCHANGED <<meta, lastResume, crashes>>
     ELSE IF c.inMulti THEN
        \* C18 "before anything of it is sent": a queued command of an unroutable unit is already a violation
        /\ Report(IF r.t = "biz" /\ r.u >= 1 /\ r.u <= N /\ ~Units[r.u].ok THEN {"C18_UnroutableUnitSent"} ELSE {})
        /\ conns' = SetConn(r.c, [c EXCEPT !.q = Append(c.q, r)]) /\ UNCHANGED <<meta, applied, lastResume, crashes>>
     ELSE
        /\ Report(BlockBad(<<r>>, FALSE, applied))
        /\ applied' = ApplyBlock(<<r>>, applied)
        /\ UNCHANGED <<meta, conns, lastResume, crashes>>

Crash == /\ IsEvent("Crash") /\ conns' = <<>> /\ crashes' = crashes + 1 /\ UNCHANGED <<meta, applied, lastResume>>

Resume ==
  /\ IsEvent("Resume")
  /\ LET r == Trace[l]
         bad == (IF r.rid = "!" THEN {"C14_RestartFails"} ELSE {})
                \cup (IF r.rid = "?" \/ (r.rid = "A" /\ r.off < meta.start) THEN {"C14_ResumePointLost"} ELSE {})
                \cup (IF r.rid = "A" /\ r.off >= meta.start /\ r.off \notin Ends THEN {"C14_ResumeNotAtUnitEnd"} ELSE {})
                \cup (IF r.rid = "A" /\ r.off \in Ends /\ ~CoveredUpTo(r.off, applied) THEN {"C14_ResumeSkipsUncommittedUnit"} ELSE {})
                \cup (IF r.rid = "A" /\ lastResume >= 0 /\ r.off < lastResume THEN {"C14_ResumeWentBack"} ELSE {})
                \cup (IF meta.mode = "sync" /\ r.rid = "A" /\ r.off \in Ends /\
                         \E u \in 1..N : Units[u].e > r.off /\ applied[u] >= 1 THEN {"C14_SyncModeResumeBeforeCommitted"} ELSE {})
     IN /\ Report(bad) /\ lastResume' = IF r.rid = "A" THEN r.off ELSE lastResume
  /\ conns' = <<>> /\ UNCHANGED <<meta, applied, crashes>>

AllOk == \A u \in 1..N : Units[u].ok

\* Send returned.  An unroutable unit has to end the run with an error; a stream of routable units
\* on a healthy target must not (its end is the end of the fed stream).
Return ==
  /\ IsEvent("Return")
  /\ LET r == Trace[l] IN
     Report((IF ~AllOk /\ ~r.died /\ ~r.err THEN {"C18_UnroutableUnitNotRefused"} ELSE {})
            \cup (IF AllOk /\ ~r.died /\ r.err THEN {"C18_RoutableUnitRefused"} ELSE {}))
  /\ UNCHANGED <<meta, conns, applied, lastResume, crashes>>

Quiesce ==
  /\ IsEvent("Quiesce")
  /\ Report((IF AllOk /\ \E u \in 1..N : applied[u] = 0 THEN {"C14_UnitNeverCommitted"} ELSE {})
            \cup (IF meta.filter /\ AllOk /\ \E u \in 1..N : applied[u] = 0 THEN {"C10_WithheldAcceptedCommand"} ELSE {}))
  /\ UNCHANGED <<meta, conns, applied, lastResume, crashes>>

\* a full resynchronisation completed: the units up to the snapshot's offset are on the target as part of the snapshot
SnapshotApplied ==
  /\ IsEvent("SnapshotApplied")
  /\ applied' = [u \in 1..N |-> IF Units[u].e <= Trace[l].off /\ applied[u] = 0 THEN 1 ELSE applied[u]]
  /\ UNCHANGED <<meta, conns, lastResume, crashes>>

\* a slot of the cluster target was handed over (scenarios with hand-overs list what took effect, in execution order, one
\* multi ... exec per applied block - a request a node refused has not happened); the rules are the same
Mig == IsEvent("Mig") /\ UNCHANGED <<meta, conns, applied, lastResume, crashes>>

Next == Reset \/ Req \/ Crash \/ Resume \/ Quiesce \/ Return \/ SnapshotApplied \/ Mig
Spec == Init /\ [][Next]_vars
TraceAccepted ==
  LET d == TLCGet("stats").diameter IN
  IF d - 1 = Len(Trace) THEN TRUE ELSE Print(<<"TRACE-NOT-CONSUMED", d - 1, Len(Trace)>>, FALSE)
=============================================================================
