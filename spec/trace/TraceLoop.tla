------------------------------ MODULE TraceLoop ------------------------------
(* P layer for C13: two sites, two bidirectional links, harness clients.  The  *)
(* trace of one scenario lists the client units of each site in the form the   *)
(* site propagated them (Client), then everything connections of the tool      *)
(* applied at each site in execution order (Applied: one event per MULTI/EXEC   *)
(* block or stand-alone command, commands classified as marker / own            *)
(* bookkeeping / business / foreign-namespace), then the end state (End).       *)
(* Monitor style: violated rules are printed, the trace is always consumed.     *)
EXTENDS Integers, Sequences, FiniteSets, TLC, Json

CONSTANT TraceFile
Trace == ndJsonDeserialize(TraceFile)

VARIABLES l, meta, pend, done, own
\* pend[s] : units (sequences of command strings) still expected at site s, with multiplicity
\* done[s] : units already applied at site s by the tool;  own[s] : units the clients of s wrote themselves
vars == <<l, meta, pend, done, own>>

Sites == {0, 1}
Other(s) == 1 - s
EmptyBag == [x \in {} |-> 0]
BagAdd(b, x) == IF x \in DOMAIN b THEN [b EXCEPT ![x] = @ + 1] ELSE [y \in DOMAIN b \cup {x} |-> IF y = x THEN 1 ELSE b[y]]
BagCount(b, x) == IF x \in DOMAIN b THEN b[x] ELSE 0
BagSub(b, x) == [b EXCEPT ![x] = @ - 1]

Init == /\ l = 1 /\ meta = [id |-> 0, mode |-> "sync", snapshot |-> FALSE, restart |-> FALSE]
        /\ pend = [s \in Sites |-> EmptyBag] /\ done = [s \in Sites |-> EmptyBag] /\ own = [s \in Sites |-> {}]
IsEvent(e) == l <= Len(Trace) /\ Trace[l].ev = e /\ l' = l + 1
Report(bad) == IF bad = {} THEN TRUE ELSE PrintT(<<"VIOL", meta.id, l, bad>>)

Reset == /\ IsEvent("Reset") /\ meta' = Trace[l]
         /\ pend' = [s \in Sites |-> EmptyBag] /\ done' = [s \in Sites |-> EmptyBag] /\ own' = [s \in Sites |-> {}]

\* a client unit of site s, as s propagated it, is owed to the other site exactly once
Client ==
  /\ IsEvent("Client")
  /\ LET r == Trace[l] IN
     /\ pend' = [pend EXCEPT ![Other(r.site)] = BagAdd(@, r.cmds)]
     /\ own' = [own EXCEPT ![r.site] = @ \cup {r.cmds}]
  /\ UNCHANGED <<meta, done>>

Applied ==
  /\ IsEvent("Applied")
  /\ LET r == Trace[l]
         s == r.site
         n == Len(r.kinds)
         biz == {i \in 1..n : r.kinds[i] = "biz"}
         content == SelectSeq([i \in 1..n |-> IF i \in biz THEN r.cmds[i] ELSE ""], LAMBDA x : x # "")
         snap == meta.snapshot /\ r.dataSite = Other(s)          \* a snapshot unit of the other site's data
         owed == BagCount(pend[s], content) > 0
         shape == (IF \E i \in 1..n : r.kinds[i] = "ns" THEN {"C13_BookkeepingForwarded"} ELSE {})
                  \cup (IF biz # {} /\ ~r.inExec THEN {"C13_BusinessOutsideTransaction"} ELSE {})
                  \cup (IF biz # {} /\ r.kinds[1] # "marker" THEN {"C13_MarkerNotFirst"} ELSE {})
         origin == IF biz = {} \/ snap THEN {}
                   ELSE IF owed THEN {}
                   ELSE IF r.dataSite = s \/ content \in own[s] THEN {"C13_Echo"}
                   \* "exactly once" is promised absent restarts; a restarted pipeline / parallel link may repeat units behind its
                   \* frontier (C14), a sync link resumes exactly (so it still may not) - an echo is never excused
                   ELSE IF BagCount(done[s], content) > 0 THEN (IF meta.restart /\ meta.mode # "sync" THEN {} ELSE {"C13_AppliedTwice"})
                   ELSE {"C13_UnknownUnit"}
     IN /\ Report(shape \cup origin)
        /\ IF biz # {} /\ ~snap /\ owed
           THEN pend' = [pend EXCEPT ![s] = BagSub(@, content)] /\ done' = [done EXCEPT ![s] = BagAdd(@, content)]
           ELSE UNCHANGED <<pend, done>>
  /\ UNCHANGED <<meta, own>>

End ==
  /\ IsEvent("End")
  /\ LET r == Trace[l] IN
     Report((IF \E s \in Sites : \E c \in DOMAIN pend[s] : pend[s][c] > 0 THEN {"C13_Swallowed"} ELSE {})
            \cup (IF ~r.quiet THEN {"C13_NoQuiescence"} ELSE {})
            \cup (IF Len(r.diff) > 0 /\ ~(meta.restart /\ meta.mode # "sync") THEN {"C13_SitesDiffer"} ELSE {})
            \cup (IF \E i \in 1..2 : Len(r.foreignBookkeeping[i]) > 0 THEN {"C13_BookkeepingForwarded"} ELSE {})
            \cup (IF \E i \in 1..2 : r.linkErr[i] # "" \/ r.startErr[i] # "" \/ r.rdbErr[i] # "<nil>" THEN {"C13_LinkStopped"} ELSE {}))
  /\ UNCHANGED <<meta, pend, done, own>>

Next == Reset \/ Client \/ Applied \/ End
Spec == Init /\ [][Next]_vars
TraceAccepted ==
  LET d == TLCGet("stats").diameter IN
  IF d - 1 = Len(Trace) THEN TRUE ELSE Print(<<"TRACE-NOT-CONSUMED", d - 1, Len(Trace)>>, FALSE)
=============================================================================
