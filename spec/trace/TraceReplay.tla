---------------------------- MODULE TraceReplay ----------------------------
(* P-layer trace validation for the incremental replay family (C01 C02 C07  *)
(* C09).  The target Redis is a state machine (per-connection SELECT and     *)
(* MULTI queue, EXEC applies atomically) driven by the raw requests recorded *)
(* by the fake target in arrival order; the property formulas are evaluated  *)
(* after every event and failures are reported through PrintT (monitor       *)
(* style: the whole file is always consumed, so one run yields the verdicts  *)
(* of all concatenated traces).                                              *)
EXTENDS Integers, Sequences, FiniteSets, TLC, Json

CONSTANT TraceFile
Trace == ndJsonDeserialize(TraceFile)

MaxDb == 15
DBs == 0..MaxDb
Absent == -2

VARIABLES
  l,        \* next line of Trace
  meta,     \* header of the current trace (Reset record)
  srcDb,    \* srcDb[i]  = source database in force for item i
  inTxn,    \* inTxn[i]  = offset end(i) lies strictly inside a source MULTI..EXEC
  grp,      \* grp[i]    = index of the MULTI opening the group of item i (0 = none)
  conns,    \* connection id -> [sel, inMulti, q]
  applied,  \* set of data item indices executed at least once in the right DB
  expect,   \* next data item index the current run must execute (0 = any after resume)
  ap,       \* every item index <= ap is applied or is not a data item
  cpOff, cpRun, cpMt,   \* checkpoint hash per DB: offset, has-runid, mtime rank
  lastCp,   \* last offset value written
  crashes, resumeFloor, nlog
vars == <<l, meta, srcDb, inTxn, grp, conns, applied, expect, ap, cpOff, cpRun, cpMt, lastCp, crashes, resumeFloor, nlog>>

-----------------------------------------------------------------------------
(* derived per-trace tables *)
RECURSIVE BuildSrcDb(_, _, _)
BuildSrcDb(items, i, cur) ==
  IF i > Len(items) THEN <<>>
  ELSE LET c == IF items[i].k = "sel" THEN items[i].d ELSE cur IN <<c>> \o BuildSrcDb(items, i + 1, c)
RECURSIVE BuildInTxn(_, _, _)
BuildInTxn(items, i, cur) ==
  IF i > Len(items) THEN <<>>
  ELSE LET c == IF items[i].k = "multi" THEN TRUE ELSE IF items[i].k = "exec" THEN FALSE ELSE cur
       IN <<c>> \o BuildInTxn(items, i + 1, c)
RECURSIVE BuildGrp(_, _, _)
BuildGrp(items, i, cur) ==
  IF i > Len(items) THEN <<>>
  ELSE LET g == IF items[i].k = "multi" THEN i ELSE cur
           c == IF items[i].k = "exec" THEN 0 ELSE g
       IN <<g>> \o BuildGrp(items, i + 1, c)

Items == meta.items
N == Len(Items)
Map(d) == meta.map[d + 1]
Black(d) == meta.bl[d + 1]
IsData(i) == Items[i].k = "cmd" /\ ~Black(srcDb[i])
\* a MULTI or EXEC read while a configured-out database is selected is dropped with that database's traffic: the tool
\* never learns that the transaction began (or ended), although other items of the group lie in a database that is replayed
\* (known finding "bracket configured out"; the violation names such groups cause carry a suffix)
ExecIdx(g) == LET S == {j \in g..N : Items[j].k = "exec"} IN IF S = {} THEN g ELSE CHOOSE j \in S : \A x \in S : j <= x
Hidden(g) == g >= 1 /\ g <= N /\ Items[g].k = "multi" /\ (Black(srcDb[g]) \/ Black(srcDb[ExecIdx(g)]))
HiddenBefore(i) == \E g \in 1..N : g <= i /\ Hidden(g)
Tx(name, g) == IF Hidden(g) THEN name \o "_BracketConfiguredOut" ELSE name
EndOf(i) == IF i = 0 THEN meta.start ELSE Items[i].e
Boundaries == {meta.start} \cup {Items[i].e : i \in 1..N}
IdxOfEnd(o) == IF o = meta.start /\ (\A i \in 1..N : Items[i].e # o) THEN 0
               ELSE CHOOSE i \in 1..N : Items[i].e = o
RECURSIVE Advance(_, _)
Advance(a, app) == IF a < N /\ (~IsData(a + 1) \/ (a + 1) \in app) THEN Advance(a + 1, app) ELSE a
NextData(i) == LET S == {j \in (i + 1)..N : IsData(j)} IN
               IF S = {} THEN N + 1 ELSE CHOOSE j \in S : \A x \in S : j <= x

-----------------------------------------------------------------------------
(* resume point as the next start would compute it (checkpoint.GetCheckpoint) *)
MaxCpOf(co) == LET S == {co[d] : d \in DBs} IN CHOOSE m \in S : \A x \in S : x <= m
ResumeDbsOf(co, mt) ==
  LET top == {d \in DBs : co[d] = MaxCpOf(co)}
      mm == CHOOSE m \in {mt[d] : d \in top} : \A d \in top : mt[d] <= m
  IN {d \in top : mt[d] = mm}

-----------------------------------------------------------------------------
ConnOf(c) == IF c \in DOMAIN conns THEN conns[c] ELSE [sel |-> 0, inMulti |-> FALSE, q |-> <<>>]
SetConn(c, r) == [x \in (DOMAIN conns) \cup {c} |-> IF x = c THEN r ELSE conns[x]]

\* Effect of one applied request on the durable state.
\* st = [sel, applied, expect, ap, cpOff, cpRun, cpMt, lastCp, nlog, bad, blkItems, blkCp]
ApplyOne(r, st, blk, line) ==
  CASE r.t = "sel" -> [st EXCEPT !.sel = r.v]
    [] r.t = "cmd" ->
         LET i == r.v
             known == i >= 1 /\ i <= N
             data == known /\ IsData(i)
             rightDb == data /\ st.sel = Map(srcDb[i])
             orderOk == data /\ (st.expect = 0 \/ i = st.expect)
             rep == data /\ i \in st.applied
             b1 == IF ~known THEN {"C01_Invented"} ELSE {}
             b2 == IF known /\ ~data THEN {"C01_ForwardedFiltered"} ELSE {}
             b3 == IF data /\ ~rightDb THEN (IF crashes = 0 THEN {"C01_WrongDb"} ELSE {"C02_WrongDbAfterRestart"}) ELSE {}
             b4 == IF data /\ ~orderOk THEN (IF crashes = 0 THEN {"C01_OrderOrGap"} ELSE {"C02_OrderOrGapAfterRestart"}) ELSE {}
             b5 == IF rep /\ crashes = 0 THEN {"C01_Duplicate"} ELSE {}
             b6 == IF rep /\ crashes > 0 /\ meta.txn THEN {"C02_RepeatInTxnMode"} ELSE {}
             app2 == IF rightDb THEN st.applied \cup {i} ELSE st.applied
         IN [st EXCEPT !.applied = app2,
                       !.expect = IF data THEN NextData(i) ELSE st.expect,
                       !.ap = Advance(st.ap, app2),
                       !.nlog = st.nlog + 1,
                       !.bad = st.bad \cup b1 \cup b2 \cup b3 \cup b4 \cup b5 \cup b6,
                       !.blkItems = IF data THEN st.blkItems \cup {i} ELSE st.blkItems]
    [] r.t = "cp" ->
         LET off == r.off
             b1 == IF off = -3 THEN {"C07_GarbageValue"} ELSE {}
             b2 == IF off >= -1 /\ off \notin Boundaries THEN {"C07_NotABoundary"} ELSE {}
             b3 == IF off >= -1 /\ off < st.lastCp THEN {"C07_Decrease"} ELSE {}
         IN [st EXCEPT !.cpOff = IF off >= -1 THEN [st.cpOff EXCEPT ![st.sel] = off] ELSE st.cpOff,
                       !.cpRun = IF r.run THEN [st.cpRun EXCEPT ![st.sel] = TRUE] ELSE st.cpRun,
                       !.cpMt = IF r.mt THEN [st.cpMt EXCEPT ![st.sel] = line] ELSE st.cpMt,
                       !.lastCp = IF off >= -1 THEN off ELSE st.lastCp,
                       !.bad = st.bad \cup b1 \cup b2 \cup b3,
                       !.blkCp = IF off > st.blkCp THEN off ELSE st.blkCp]
    [] r.t = "del" -> [st EXCEPT !.bad = st.bad \cup {"C07_CheckpointFieldDeleted"}]
    [] OTHER -> st

RECURSIVE ApplyAll(_, _, _, _)
ApplyAll(rs, st, blk, line) ==
  IF rs = <<>> THEN st ELSE ApplyAll(Tail(rs), ApplyOne(Head(rs), st, blk, line), blk, line)

\* state-level property formulas evaluated on the state after an event
StateBad(st) ==
  LET mx == MaxCpOf(st.cpOff)
      known == mx \in Boundaries
      ix == IF known THEN IdxOfEnd(mx) ELSE 0
      dbs == ResumeDbsOf(st.cpOff, st.cpMt)
  IN (IF known /\ ix > st.ap THEN {"C02_CheckpointCoversUnapplied"} ELSE {})
     \cup (IF known /\ ix >= 1 /\ (\E d \in dbs : st.cpRun[d] /\ d # Map(srcDb[ix]) /\ ~Black(srcDb[ix]))
           THEN {"C02_ResumeDbWrong"} ELSE {})
     \cup (IF known /\ ix >= 1 /\ meta.txn /\ inTxn[ix] THEN {Tx("C09_ResumeInsideTransaction", grp[ix])} ELSE {})
     \cup (IF mx >= 0 /\ (\E d \in dbs : ~st.cpRun[d]) THEN {"C07_PositionWithoutRunId"} ELSE {})
     \cup (IF mx < 0 THEN {"C07_GoodPositionLost"} ELSE {})

\* atomicity of source transactions inside one applied block (transactional mode)
BlockBad(st, isExecBlock) ==
  IF ~meta.txn THEN {}
  ELSE LET gs == {grp[i] : i \in st.blkItems} \ {0}
           whole(g) == \A j \in 1..N : (grp[j] = g /\ IsData(j)) => j \in st.blkItems
           execEnd(g) == LET S == {j \in g..N : Items[j].k = "exec"} IN
                         IF S = {} THEN -1 ELSE Items[CHOOSE j \in S : \A x \in S : j <= x].e
       IN {Tx("C09_TransactionSplit", g) : g \in {x \in gs : ~whole(x)}}
          \cup (IF ~isExecBlock THEN {Tx("C09_TransactionOutsideMulti", g) : g \in gs} ELSE {})
          \cup (IF isExecBlock THEN {Tx("C09_BlockWithoutCoveringPosition", g) : g \in {x \in gs : execEnd(x) > st.blkCp}} ELSE {})

Report(line, bad) == IF bad = {} THEN TRUE ELSE PrintT(<<"VIOL", meta.id, line, bad>>)

Pack(sel) == [sel |-> sel, applied |-> applied, expect |-> expect, ap |-> ap, cpOff |-> cpOff, cpRun |-> cpRun,
              cpMt |-> cpMt, lastCp |-> lastCp, nlog |-> nlog, bad |-> {}, blkItems |-> {}, blkCp |-> -9]

Unpack(st) ==
  /\ applied' = st.applied /\ expect' = st.expect /\ ap' = st.ap /\ cpOff' = st.cpOff /\ cpRun' = st.cpRun
  /\ cpMt' = st.cpMt /\ lastCp' = st.lastCp /\ nlog' = st.nlog

-----------------------------------------------------------------------------
IsEvent(e) == l <= Len(Trace) /\ Trace[l].ev = e /\ l' = l + 1

InitTables(m) ==
  /\ meta' = m
  /\ srcDb' = BuildSrcDb(m.items, 1, 0)
  /\ inTxn' = BuildInTxn(m.items, 1, FALSE)
  /\ grp' = BuildGrp(m.items, 1, 0)
  /\ conns' = <<>>
  /\ applied' = {} /\ expect' = 0 /\ ap' = 0
  /\ cpOff' = [d \in DBs |-> Absent] /\ cpRun' = [d \in DBs |-> FALSE] /\ cpMt' = [d \in DBs |-> 0]
  /\ lastCp' = -9 /\ crashes' = 0 /\ resumeFloor' = m.start /\ nlog' = 0

Init ==
  /\ l = 1
  /\ meta = [id |-> 0, items |-> <<>>, start |-> 0, txn |-> FALSE, map |-> <<>>, bl |-> <<>>]
  /\ srcDb = <<>> /\ inTxn = <<>> /\ grp = <<>> /\ conns = <<>>
  /\ applied = {} /\ expect = 0 /\ ap = 0
  /\ cpOff = [d \in DBs |-> Absent] /\ cpRun = [d \in DBs |-> FALSE] /\ cpMt = [d \in DBs |-> 0]
  /\ lastCp = -9 /\ crashes = 0 /\ resumeFloor = 0 /\ nlog = 0

TraceReset == IsEvent("Reset") /\ InitTables(Trace[l])

\* the harness seeds the completed-full-sync position through the real SetCheckpoint;
\* "Seeded" marks the end of that prologue (position checks start here)
TraceSeeded ==
  /\ IsEvent("Seeded")
  /\ lastCp' = MaxCpOf(cpOff)
  /\ UNCHANGED <<meta, srcDb, inTxn, grp, conns, applied, expect, ap, cpOff, cpRun, cpMt, crashes, resumeFloor, nlog>>

TraceReq ==
  /\ IsEvent("Req")
  /\ LET r == Trace[l]
         c == ConnOf(r.c) IN
     IF r.t = "multi" THEN
        /\ conns' = SetConn(r.c, [c EXCEPT !.inMulti = TRUE, !.q = <<>>])
        /\ UNCHANGED <<meta, srcDb, inTxn, grp, applied, expect, ap, cpOff, cpRun, cpMt, lastCp, crashes, resumeFloor, nlog>>
     ELSE IF r.t = "exec" THEN
        LET st == ApplyAll(c.q, Pack(c.sel), l, l) IN
        /\ conns' = SetConn(r.c, [sel |-> st.sel, inMulti |-> FALSE, q |-> <<>>])
        /\ Unpack(st)
        /\ Report(l, st.bad \cup StateBad(st) \cup BlockBad(st, TRUE))
        /\ UNCHANGED <<meta, srcDb, inTxn, grp, crashes, resumeFloor>>
     ELSE IF c.inMulti THEN
        /\ conns' = SetConn(r.c, [c EXCEPT !.q = Append(c.q, r)])
        /\ UNCHANGED <<meta, srcDb, inTxn, grp, applied, expect, ap, cpOff, cpRun, cpMt, lastCp, crashes, resumeFloor, nlog>>
     ELSE
        LET st == ApplyOne(r, Pack(c.sel), -l, l) IN
        /\ conns' = SetConn(r.c, [c EXCEPT !.sel = st.sel])
        /\ Unpack(st)
        /\ Report(l, st.bad \cup (IF lastCp = -9 THEN {} ELSE StateBad(st)) \cup BlockBad(st, FALSE))
        /\ UNCHANGED <<meta, srcDb, inTxn, grp, crashes, resumeFloor>>

\* process death: every connection and every open MULTI queue is gone
TraceCrash ==
  /\ IsEvent("Crash")
  /\ conns' = <<>> /\ crashes' = crashes + 1
  /\ UNCHANGED <<meta, srcDb, inTxn, grp, applied, expect, ap, cpOff, cpRun, cpMt, lastCp, resumeFloor, nlog>>

\* RedisOutput.StartPoint() of the next run
TraceResume ==
  /\ IsEvent("Resume")
  /\ LET r == Trace[l]
         known == r.off \in Boundaries
         ix == IF known THEN IdxOfEnd(r.off) ELSE 0
         apNow == Advance(ap, applied)
         bad == (IF r.rid = "?" \/ r.off < 0 THEN {"C07_NeedlessFullResync"} ELSE {})
                \cup (IF r.off >= 0 /\ ~known THEN {"C07_ResumeNotABoundary"} ELSE {})
                \cup (IF known /\ ix > apNow THEN {"C02_ResumeSkipsWrites"} ELSE {})
                \cup (IF known /\ ix >= 1 /\ r.db # Map(srcDb[ix]) /\ ~Black(srcDb[ix]) THEN {"C02_ResumeDbWrong"} ELSE {})
                \cup (IF meta.txn /\ r.off < MaxCpOf(cpOff) THEN {"C02_ResumeBeforeCommitted"} ELSE {})
                \cup (IF known /\ ix >= 1 /\ meta.txn /\ inTxn[ix] THEN {Tx("C09_ResumeInsideTransaction", grp[ix])} ELSE {})
     IN /\ Report(l, bad)
        /\ expect' = IF known THEN NextData(ix) ELSE 0
        /\ resumeFloor' = IF known THEN r.off ELSE resumeFloor
  /\ conns' = <<>>
  /\ ap' = Advance(ap, applied)
  /\ UNCHANGED <<meta, srcDb, inTxn, grp, applied, cpOff, cpRun, cpMt, lastCp, crashes, nlog>>

\* the harness has fed everything, drained the sender and seen it idle
TraceQuiesce ==
  /\ IsEvent("Quiesce")
  \* (behind a transaction whose EXEC was dropped the sender waits for the end of the transaction for ever)
  /\ Report(l, IF ap < N THEN {(IF crashes = 0 THEN "C01_LostAtQuiescence" ELSE "C02_LostAfterRestart")
                               \o (IF meta.txn /\ HiddenBefore(ap + 1) THEN "_BracketConfiguredOut" ELSE "")} ELSE {})
  /\ UNCHANGED <<meta, srcDb, inTxn, grp, conns, applied, expect, ap, cpOff, cpRun, cpMt, lastCp, crashes, resumeFloor, nlog>>

Next == TraceReset \/ TraceSeeded \/ TraceReq \/ TraceCrash \/ TraceResume \/ TraceQuiesce
Spec == Init /\ [][Next]_vars

TraceAccepted ==
  LET d == TLCGet("stats").diameter IN
  IF d - 1 = Len(Trace) THEN TRUE ELSE Print(<<"TRACE-NOT-CONSUMED", d - 1, Len(Trace)>>, FALSE)
=============================================================================
