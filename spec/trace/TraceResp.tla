------------------------------ MODULE TraceResp ------------------------------
(* Judges what the real decoder / parser / writer reported for each stream:   *)
(* number of commands, argument lengths, byte-identity flag, end offsets.     *)
EXTENDS Resp, TLC, Json

CONSTANT TraceFile
Trace == ndJsonDeserialize(TraceFile)
VARIABLE l
vars == <<l>>

Bad(r) ==
  IF r.site = "ClusterEncoder" THEN
     \* what a cluster node received, request by request, is what was sent: as many commands, the same argument lengths, the
     \* same bytes (a request the node could not parse is missing or cut)
     (IF Len(r.got) # Len(r.sent) THEN {"C12_CommandCount"} ELSE {})
     \cup (IF Len(r.got) = Len(r.sent) /\ r.got # r.sent THEN {"C12_ArgumentLengths"} ELSE {})
     \cup (IF ~r.same THEN {"C12_ArgumentBytesAltered"} ELSE {})
  ELSE
  LET n == Len(r.cmds) IN
  (IF Len(r.obs) # n THEN {"C12_CommandCount"} ELSE {})
  \cup (IF \E i \in 1..Len(r.obs) : i <= n /\ r.obs[i].lens # r.cmds[i] THEN {"C12_ArgumentLengths"} ELSE {})
  \cup (IF \E i \in 1..Len(r.obs) : ~r.obs[i].same THEN {"C12_ArgumentBytesAltered"} ELSE {})
  \cup (IF \E i \in 1..Len(r.obs) : i <= n /\ r.obs[i].off # EndOffI(r.start, r.hb, r.cmds, r.inl, i) THEN {"C12_OffsetNotBytesConsumed"} ELSE {})

Init == l = 1
Next == /\ l <= Len(Trace) /\ l' = l + 1
        /\ LET b == Bad(Trace[l]) IN IF b = {} THEN TRUE ELSE PrintT(<<"VIOL", Trace[l].id, l, b>>)
Spec == Init /\ [][Next]_vars
TraceAccepted ==
  LET d == TLCGet("stats").diameter IN
  IF d - 1 = Len(Trace) THEN TRUE ELSE Print(<<"TRACE-NOT-CONSUMED", d - 1, Len(Trace)>>, FALSE)
=============================================================================
