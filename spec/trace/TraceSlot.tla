------------------------------ MODULE TraceSlot ------------------------------
(* Observations recorded from the real slot computations (every use site) are *)
(* judged against the definition in env/Slot.tla.  Monitor style.             *)
EXTENDS Slot, TLC, Json

CONSTANT TraceFile
Trace == ndJsonDeserialize(TraceFile)

VARIABLE l
vars == <<l>>

Bad(r) ==
  CASE r.site \in {"KeyToSlot", "GetSlot", "UnitSlot"} ->
         IF r.slot # HashSlot(r.k) THEN {"C11_" \o r.site \o "_Disagrees"} ELSE {}
    [] r.site = "FilterSlotWhite" ->   \* accepted iff the key's slot lies in [lo, hi]
         IF r.accept # (r.lo <= HashSlot(r.k) /\ HashSlot(r.k) <= r.hi) THEN {"C11_SlotFilterDecision"} ELSE {}
    [] r.site = "SlotTag" ->           \* "{tag}" must hash to the slot it was chosen for
         IF HashSlot(<<LB>> \o r.k \o <<RB>>) # r.slot THEN {"C11_SlotTagNotInSlot"} ELSE {}
    [] r.site = "ChosenKey" ->         \* a key picked for a list of slot ranges exists and hashes into one of them
         IF r.k = <<>> THEN {"C11_NoKeyForSlotRanges"}
         ELSE IF ~\E i \in 1..Len(r.lo) : r.lo[i] <= HashSlot(r.k) /\ HashSlot(r.k) <= r.hi[i] THEN {"C11_ChosenKeyOutsideItsSlots"} ELSE {}
    [] OTHER -> {"C11_UnknownSite"}

Init == l = 1
Next == /\ l <= Len(Trace) /\ l' = l + 1
        /\ LET b == Bad(Trace[l]) IN IF b = {} THEN TRUE ELSE PrintT(<<"VIOL", Trace[l].id, l, b>>)
Spec == Init /\ [][Next]_vars
TraceAccepted ==
  LET d == TLCGet("stats").diameter IN
  IF d - 1 = Len(Trace) THEN TRUE ELSE Print(<<"TRACE-NOT-CONSUMED", d - 1, Len(Trace)>>, FALSE)
=============================================================================
