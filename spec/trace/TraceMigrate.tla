---------------------------- MODULE TraceMigrate ----------------------------
(* C17, "switching the bidirectional recovery format": one record per (layout the real replay left, start-up in  *)
(* another mode, write request before which the target died, mode of the next start).  Two things are done with    *)
(* every record:                                                                                                    *)
(*  P  the property is judged on what the REAL code answered: the position the next start found against the one a  *)
(*     start found before (C17_* names; these are the only verdicts);                                               *)
(*  D  the same case is run through spec/BisyncMigrate.tla - the logged layout is the initial bookkeeping, the      *)
(*     program is stepped k writes, stopped, restarted - and what the specification computes (positions before and  *)
(*     after, the namespace the index points to at the end) is compared with what the code did.  A difference is    *)
(*     printed as DRIFT: the code is no longer the design that was model checked (not a verdict).                   *)
EXTENDS BisyncMigrateOps, Json

CONSTANT TraceFile
Trace == ndJsonDeserialize(TraceFile)
VARIABLE l
tvars == <<l>>

ToSet(q) == {q[i] : i \in 1..Len(q)}
NsOf(d) == [exists |-> d.exists, mode |-> d.mode, root |-> ToSet(d.root), snap |-> d.snap, latest |-> d.latest,
            jour |-> ToSet(d.jour), dang |-> d.dang]
IdsOf(r) == IF r.failover THEN <<"B", "A">> ELSE <<"A", "Z">>
Start(r) == Begin([x \in RIDs |-> IF x = "A" THEN r.lay.idx.A ELSE r.lay.idx.B], [x \in Names |-> NsOf(r.lay.ns[x])])

RECURSIVE Steps(_, _, _, _)
Steps(s, mode, ids, k) == IF k = 0 \/ AtEnd(s) THEN s ELSE Steps(Step(s, mode, ids), mode, ids, k - 1)

\* what the specification says about record r : [before, after, afterold, act]
Predict(r) ==
  LET ids == IdsOf(r)
      s0 == Start(r)
      b == Result(RunAll(s0, r.m1, ids))
      cut == IF r.k < 0 THEN RunAll(s0, r.m2, ids) ELSE Steps(s0, r.m2, ids, r.k)
      e == IF r.k < 0 THEN cut ELSE RunAll(Begin(cut.idx, cut.ns), r.m3, ids)
      old == IF e.pc = "refused" THEN RunAll(Begin(e.idx, e.ns), OwnMode(e, ids, r.m1), ids) ELSE e
      fin == e      \* (the driver looks at the bookkeeping before it asks what a refused start left for the old mode)
      cp == Lookup(fin.idx, ids)[1]
  IN [before |-> b, after |-> Result(e), afterold |-> IF e.pc = "refused" THEN Result(old) ELSE [rid |-> "", u |-> -9],
      act |-> IF cp = 0 THEN EmptyNs ELSE fin.ns[cp]]

Logged(r) == [before |-> [rid |-> r.before.rid, u |-> r.beforeu], after |-> [rid |-> r.after.rid, u |-> r.afteru],
              afterold |-> [rid |-> r.afterold.rid, u |-> r.afteroldu]]
\* positions are compared when they are positions; "no position" has several spellings in the code ("?" with -1)
Norm(p) == IF p.rid \in RIDs /\ p.u >= 0 THEN p ELSE IF p.rid = "!" THEN [rid |-> "!", u |-> -1] ELSE [rid |-> "-", u |-> -1]

Drift(r) ==
  LET p == Predict(r)
      g == Logged(r) IN
  (IF Norm(p.before) # Norm(g.before) THEN {<<"before", p.before, g.before>>} ELSE {})
  \cup (IF Norm(p.after) # Norm(g.after) THEN {<<"after", p.after, g.after>>} ELSE {})
  \cup (IF g.after.rid = "!" /\ Norm(p.afterold) # Norm(g.afterold) THEN {<<"afterold", p.afterold, g.afterold>>} ELSE {})
  \cup (IF p.act # NsOf(r.act) THEN {<<"act", p.act, NsOf(r.act)>>} ELSE {})

\* ---- the property, on the logged answers only
Bad(r) ==
  LET b == [rid |-> r.before.rid, u |-> r.before.off]
      a == IF r.after.rid = "!" THEN [rid |-> r.afterold.rid, u |-> r.afterold.off] ELSE [rid |-> r.after.rid, u |-> r.after.off]
      had == b.rid \in RIDs /\ b.u >= 0
      f == [rid |-> r.final.rid, u |-> r.final.off] IN
  IF ~had THEN {}
  ELSE (IF a.rid \notin RIDs \/ a.u < 0 THEN {"C17_ResumePositionLost"} ELSE {})
       \cup (IF a.rid \in RIDs /\ a.u >= 0 /\ a.u < b.u THEN {"C17_ResumePositionWentBack"} ELSE {})
       \cup (IF a.rid \in RIDs /\ a.u >= b.u /\ (IF r.after.rid = "!" THEN r.afterold.db ELSE r.after.db) # r.before.db THEN {"C17_ResumeDatabaseChanged"} ELSE {})
       \* the replay went on from the migrated position to the end of the stream : the start after that is not behind it
       \cup (IF f.rid \in RIDs /\ a.rid \in RIDs /\ a.u >= 0 /\ f.u < a.u THEN {"C17_ResumePositionWentBack"} ELSE {})
       \cup (IF f.rid = "!" /\ r.after.rid # "!" THEN {"C17_ResumePositionLost"} ELSE {})

TInit == l = 1
TNext == /\ l <= Len(Trace) /\ l' = l + 1
        /\ LET r == Trace[l] b == Bad(r) d == Drift(r) IN
           /\ (IF b = {} THEN TRUE ELSE PrintT(<<"VIOL", r.id, l, b>>))
           /\ (IF d = {} THEN TRUE ELSE PrintT(<<"DRIFT", r.id, l, d>>))
Spec == TInit /\ [][TNext]_tvars
TraceAccepted ==
  LET d == TLCGet("stats").diameter IN
  IF d - 1 = Len(Trace) THEN TRUE ELSE Print(<<"TRACE-NOT-CONSUMED", d - 1, Len(Trace)>>, FALSE)
=============================================================================
