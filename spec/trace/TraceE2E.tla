------------------------------ MODULE TraceE2E ------------------------------
(* P layer, end-to-end part of C06 (and of C01/C02 across reconnections): one   *)
(* event per run of the whole pipeline - real RedisInput.Run, real cache, real   *)
(* RedisOutput - against a fake master whose connection drops, whose id changes  *)
(* (fail-over) or whose backlog is lost, and a target that may crash.  The       *)
(* master's stream appends v1, v2, ... to lists; lists[k] is what the target      *)
(* holds for key k at the end: -j for the j-th element the key had before the     *)
(* stream began (it can only arrive through a snapshot), i for the i-th stream    *)
(* element of that key.                                                           *)
EXTENDS Integers, Sequences, FiniteSets, TLC, Json

CONSTANTS TraceFile,
          Prop        \* id of the property the run is reported under ("C06": reconnections, "C16": leader hand-over)
Trace == ndJsonDeserialize(TraceFile)
Name(n) == Prop \o "_E2E_" \o n
VARIABLE l
vars == <<l>>

KeyBad(r, k) ==
  LET L == r.lists[k]
      m == r.initial[k]
      n == r.total[k]
      R == IF Len(L) > m THEN SubSeq(L, m + 1, Len(L)) ELSE <<>>
      snapOk == Len(L) >= m /\ \A j \in 1..m : L[j] = -j
  IN \* what the key held before the stream is there exactly once, first (it comes from a complete snapshot)
     (IF ~snapOk THEN {Name("SnapshotPartWrong")} ELSE {})
     \* nothing but this key's own stream elements follows
     \cup (IF \E i \in 1..Len(R) : R[i] < 1 \/ R[i] > n THEN {Name("ForeignElement")} ELSE {})
     \* every (re)connection continued gap-free: the elements are 1..n in order, a later restart may repeat a
     \* suffix (ticker-driven checkpoints) but never skips; transactional mode repeats nothing
     \cup (IF snapOk /\ n > 0 /\ (Len(R) = 0 \/ R[1] # 1 \/ R[Len(R)] # n \/ \E i \in 1..(Len(R) - 1) : R[i + 1] > R[i] + 1)
           THEN {Name("GapInDeliveredStream")} ELSE {})
     \cup (IF r.txn /\ snapOk /\ Len(R) > n THEN {Name("RepeatedInTransactionalMode")} ELSE {})

Bad(r) == UNION {KeyBad(r, k) : k \in 1..Len(r.lists)}
          \cup (IF ~r.complete THEN {Name("DeliveryStopped")} ELSE {})

Init == l = 1
Next == /\ l <= Len(Trace) /\ l' = l + 1
        /\ LET b == Bad(Trace[l]) IN IF b = {} THEN TRUE ELSE PrintT(<<"VIOL", Trace[l].id, l, b>>)
Spec == Init /\ [][Next]_vars
TraceAccepted ==
  LET d == TLCGet("stats").diameter IN
  IF d - 1 = Len(Trace) THEN TRUE ELSE Print(<<"TRACE-NOT-CONSUMED", d - 1, Len(Trace)>>, FALSE)
=============================================================================
