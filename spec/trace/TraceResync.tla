----------------------------- MODULE TraceResync -----------------------------
(* P layer for C06: one event per (source state, stored target position, cache  *)
(* contents, back end): what the real syncMeta asked the source, what the       *)
(* source (Redis' admission rule) answered, and what the reader opened for the  *)
(* output then delivered.  Histories: A; B = A's promoted replica sharing the   *)
(* first S bytes; C unrelated.  Byte comparison is done in Go (match flags).    *)
EXTENDS Integers, Sequences, TLC, Json

CONSTANT TraceFile
Trace == ndJsonDeserialize(TraceFile)
VARIABLE l
vars == <<l>>

SamePrefix(h1, h2, n, S) == IF h1 = h2 THEN TRUE
                            ELSE IF {h1, h2} = {"A", "B"} THEN n <= S
                            ELSE n = 0

Bad(r) ==
  LET d == r.deliv
      cur == r.src.id1
      hasOut == r.out.id # ""
  IN CASE d.kind = "continue" ->
            (IF ~hasOut THEN {"C06_ContinuedWithoutStoredPosition"} ELSE {})
            \cup (IF hasOut /\ d.start # r.out.off THEN {"C06_ContinuedFromOtherPosition"} ELSE {})
            \cup (IF hasOut /\ ~SamePrefix(r.out.id, cur, r.out.off, r.S) THEN {"C06_ContinuedAnotherHistory"} ELSE {})
            \cup (IF r.psync.reply # "continue" THEN {"C06_PartialWithoutGrant"} ELSE {})
            \cup (IF ~d.match THEN {"C06_DeliveredForeignBytes"} ELSE {})
            \cup (IF d.match /\ d.n < d.want THEN {"C06_GapInContinuation"} ELSE {})
       [] d.kind = "snapshot" ->
            (IF ~d.snapOk THEN {"C06_SnapshotNotOfCurrentHistory"} ELSE {})
            \cup (IF ~d.match THEN {"C06_DeliveredForeignBytes"} ELSE {})
            \cup (IF d.match /\ d.n < d.want THEN {"C06_GapAfterSnapshot"} ELSE {})
       [] d.kind = "error" -> {}
       [] OTHER -> {"HARNESS_UnknownKind"}

Init == l = 1
Next == /\ l <= Len(Trace) /\ l' = l + 1
        /\ LET b == Bad(Trace[l]) IN IF b = {} THEN TRUE ELSE PrintT(<<"VIOL", Trace[l].id, l, b>>)
Spec == Init /\ [][Next]_vars
TraceAccepted ==
  LET d == TLCGet("stats").diameter IN
  IF d - 1 = Len(Trace) THEN TRUE ELSE Print(<<"TRACE-NOT-CONSUMED", d - 1, Len(Trace)>>, FALSE)
=============================================================================
