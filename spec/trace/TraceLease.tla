------------------------------ MODULE TraceLease ------------------------------
(* P layer for C15: every call the real redisElection made against the lease  *)
(* store (whose EVAL runs the script text it receives) is replayed on the     *)
(* intended store semantics of env/LeaseStore.tla; replies, the store's       *)
(* holder/remaining time and the leadership the instances were TOLD are       *)
(* judged.  Monitor style.                                                    *)
EXTENDS LeaseStore, Sequences, FiniteSets, TLC, Json

CONSTANT TraceFile
Trace == ndJsonDeserialize(TraceFile)
Ids == {"a", "b", "c"}

VARIABLES l, id, ttl, store, now, told
\* told[i] = time until which i may act as leader according to what the CODE told it
vars == <<l, id, ttl, store, now, told>>

Init == /\ l = 1 /\ id = 0 /\ ttl = 1 /\ store = [holder |-> None, exp |-> 0] /\ now = 0
        /\ told = [i \in Ids |-> 0]
IsEvent(e) == l <= Len(Trace) /\ Trace[l].ev = e /\ l' = l + 1
Report(bad) == IF bad = {} THEN TRUE ELSE PrintT(<<"VIOL", id, l, bad>>)

Reset == /\ IsEvent("Reset")
         /\ id' = Trace[l].id /\ ttl' = Trace[l].ttl
         /\ store' = [holder |-> None, exp |-> 0] /\ now' = 0 /\ told' = [i \in Ids |-> 0]

Tick == /\ IsEvent("Tick") /\ now' = now + Trace[l].d /\ UNCHANGED <<id, ttl, store, told>>

Op ==
  /\ IsEvent("Op")
  /\ LET r == Trace[l]
         i == r.i
         executed == r.f # "fail"
         step == IF r.op = "resign" THEN ResignAt(store, now, i) ELSE CampaignAt(store, now, i, ttl)
         st2 == IF executed THEN step[1] ELSE store
         late == r.f = "late"    \* executed; the reply came after the caller's deadline: the truth, or an error
         expRes == IF r.f \notin {"ok", "late"} THEN "err"
                   ELSE IF r.op = "campaign" THEN (IF step[2] = 1 THEN "leader" ELSE "follower")
                   ELSE IF r.op = "renew" THEN (IF step[2] = 1 THEN "ok" ELSE "notleader")
                   ELSE "ok"
         toldLeader == r.res \in {"leader"} \/ (r.op = "renew" /\ r.res = "ok")
         told2 == [told EXCEPT ![i] = IF toldLeader THEN now + ttl ELSE 0]
         others == {j \in Ids \ {i} : told[j] > now}
         bad == (IF toldLeader /\ expRes \notin {"leader", "ok"} THEN {"C15_ToldLeaderWithoutLease"} ELSE {})
                \cup (IF toldLeader /\ others # {} THEN {"C15_TwoLeaders"} ELSE {})
                \cup (IF r.op = "renew" /\ r.res = "ok" /\ expRes = "notleader" THEN {"C15_FailedRenewalNotReported"} ELSE {})
                \cup (IF r.res # expRes /\ ~toldLeader /\ ~(late /\ r.res = "err") THEN {"C15_ReplyDiffers"} ELSE {})
                \cup (IF r.holder # HolderOf(st2, now) THEN
                        (IF r.op = "resign" /\ HolderOf(st2, now) # None /\ r.holder = None THEN {"C15_ResignReleasedForeignLease"}
                         ELSE {"C15_StoreHolderDiffers"}) ELSE {})
                \cup (IF r.holder # None /\ r.holder = HolderOf(st2, now) /\ r.rem # st2.exp - now THEN {"C15_LeaseDurationDiffers"} ELSE {})
                \cup (IF r.holder # None /\ r.rem > ttl THEN {"C15_HolderOutlivesLeasePeriod"} ELSE {})
     IN /\ Report(bad)
        /\ store' = st2 /\ told' = told2
  /\ UNCHANGED <<id, ttl, now>>

\* one instance, several shards, one connection: an answer that differs from the only right one (the leases do not change hands
\* in this phase), with the holder the store had at that time
Conc ==
  /\ IsEvent("Conc")
  /\ LET r == Trace[l]
         toldLeader == r.res = "leader" \/ (r.op = "renew" /\ r.res = "ok") IN
     Report((IF toldLeader /\ r.holder # r.i THEN {"C15_ToldLeaderWithoutLease", "C15_TwoLeaders"} ELSE {})
            \cup (IF ~toldLeader /\ r.res # r.want THEN {"C15_ReplyDiffers"} ELSE {}))
  /\ UNCHANGED <<id, ttl, store, now, told>>

Next == Reset \/ Tick \/ Op \/ Conc
Spec == Init /\ [][Next]_vars
TraceAccepted ==
  LET d == TLCGet("stats").diameter IN
  IF d - 1 = Len(Trace) THEN TRUE ELSE Print(<<"TRACE-NOT-CONSUMED", d - 1, Len(Trace)>>, FALSE)
=============================================================================
