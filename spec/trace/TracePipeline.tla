--------------------------- MODULE TracePipeline ---------------------------
(* P layer of the whole pipeline, action-reuse style: every event of a run of   *)
(* the real RedisInput.Run / cache / RedisOutput between the fake master and     *)
(* the fake target (harness/cmd/e2edrv -events) must be a step of Pipeline.tla. *)
(* Events are the master's (Write, Failover, LoseBacklog, Psync with request    *)
(* and answer) and the commands the target executed (Push, Del, Restore, Cp,    *)
(* Exec = everything one EXEC applied), ordered by one counter.  What the tool  *)
(* does in between is not logged and is inferred: commands arriving in the      *)
(* cache (Recv) and a run ending (RunEnd) are composed into the logged step     *)
(* that needs them.  A trace line that is no step of the specification stops    *)
(* the replay (TraceAccepted fails: harness error, the line is reported); the   *)
(* invariants of Pipeline.tla are evaluated in every state of the replay and    *)
(* are the verdicts.                                                            *)
EXTENDS Pipeline, Json

CONSTANT TraceFile
Trace == ndJsonDeserialize(TraceFile)

VARIABLES l,        \* next trace line
          sid,      \* scenario id
          txn,      \* mode of the scenario (Pipeline's constant Txn is not used by the trace actions)
          snapSeen  \* stream elements pushed since the snapshot replay began
tvars == <<vars, l, sid, txn, snapSeen>>

IsEvent(e) == l <= Len(Trace) /\ Trace[l].ev = e /\ l' = l + 1
E == Trace[l]
Keep == UNCHANGED <<sid, txn>>

Fresh == [src |-> [id1 |-> "A", id2 |-> None, id3 |-> None, second |-> -1, len |-> 0, bl |-> 1, gen |-> 1, log |-> <<>>],
          cache |-> [id |-> None, l |-> -1, r |-> -1, snap |-> FALSE, w |-> <<>>, sw |-> <<>>],
          cp |-> [id |-> None, off |-> -1],
          run |-> [up |-> FALSE, link |-> FALSE, phase |-> "idle", rd |-> -1, from |-> 0, last |-> [kind |-> "none"]],
          tgt |-> <<>>, cnt |-> [lose |-> 0, ends |-> 0]]

TInit == /\ Is(Fresh) /\ l = 1 /\ sid = 0 /\ txn = FALSE /\ snapSeen = <<>>

TReset == /\ IsEvent("PReset") /\ Become(Fresh)
          /\ sid' = E.id /\ txn' = E.txn /\ snapSeen' = <<>>

TWrite == /\ IsEvent("Write") /\ E.i = src.len + 1 /\ E.w = src.id1
          /\ Become(WriteF(St)) /\ Keep /\ UNCHANGED snapSeen
\* commands may have arrived unnoticed up to n, while the run was connected
Arrived(s, n) == IF n > s.cache.r THEN RecvF(s, n) ELSE s
CanArrive(s, n) == n <= s.cache.r \/ (s.run.up /\ s.run.link /\ n <= s.src.len)
\* what the old master had sent before it died is in the cache (how much is not logged; the next request tells)
TFailover == /\ IsEvent("Failover") /\ E.k \in 0..src.len /\ E.id = Ids[src.gen + 1]
             /\ \E n \in cache.r..src.len : CanArrive(St, n) /\ Become(FailoverF(Arrived(St, n), E.k))
             /\ Keep /\ UNCHANGED snapSeen
TLose == /\ IsEvent("LoseBacklog") /\ Become(LoseF(St)) /\ Keep /\ UNCHANGED snapSeen


\* a new run: whatever arrived before the old one ended is in the cache; the request and the answer are logged
TPsync ==
  /\ IsEvent("Psync")
  /\ \E n \in cache.r..src.len :
       /\ CanArrive(St, n)
       /\ LET s1 == Arrived(St, n)
              s2 == IF s1.run.up THEN RunEndF(s1) ELSE s1
              info == [id1 |-> E.seen1, id2 |-> E.seen2]       \* the ids INFO reported to this connection
              d == Decide(s2, info)
              p == Psync(s2.src, d.req.id, d.req.off) IN
          /\ d.req.id = E.rid
          /\ (d.req.id # "?" => d.req.off = E.off)
          /\ p.full = E.full /\ (p.full => p.off = E.m)
          /\ info \in Infos(s2)
          /\ Become([ConnectF(s2, info) EXCEPT !.cp = s2.cp])
  /\ Keep /\ snapSeen' = <<>>

Elem(o) == <<o.n, o.w>>

\* a stream element reaches the target outside a transaction (ticker-driven mode), or a snapshot element does
TPush ==
  /\ IsEvent("Push")
  /\ IF run.phase = "snap"
     THEN /\ run.up /\ snapSeen' = (IF E.n > 0 THEN Append(snapSeen, Elem(E)) ELSE snapSeen)
          /\ UNCHANGED vars
     ELSE /\ E.n > 0 /\ CanArrive(St, E.n)
          /\ LET s1 == Arrived(St, E.n) IN
             /\ ApplyE(s1) /\ s1.run.rd + 1 = E.n /\ CacheElem(s1, E.n) = Elem(E)
             /\ Become(ApplyF(s1))
          /\ UNCHANGED snapSeen
  /\ Keep
TDel == /\ IsEvent("Del") /\ run.up /\ run.phase = "snap" /\ UNCHANGED <<vars, snapSeen>> /\ Keep
TRestore ==
  /\ IsEvent("Restore") /\ run.up /\ run.phase = "snap"
  /\ snapSeen' = snapSeen \o SelectSeq([i \in 1..Len(E.els) |-> Elem(E.els[i])], LAMBDA x : x[1] > 0)
  /\ UNCHANGED vars /\ Keep

\* the snapshot replay is complete when its offset is stored: what was pushed is the snapshot, each element once
SnapshotMatches(s) ==
  /\ Len(snapSeen) = s.cache.l
  /\ \A i \in 1..s.cache.l : \E j \in 1..Len(snapSeen) : snapSeen[j] = <<i, s.cache.sw[i]>>

\* the stored position is written.  Pipeline.tla's Connect does syncMeta's write together with the request (the run
\* does nothing in between); here they are two lines of the trace, so the trace's Connect leaves cp alone (see TPsync)
CpStep(s, rid, off) ==
  IF off < 0 THEN               \* "none yet": a full sync was answered (syncMeta), or a snapshot replay begins (sendRdb)
     /\ s.run.up /\ s.run.phase = "snap" /\ rid = s.cache.id
     /\ Become([s EXCEPT !.cp = [id |-> rid, off |-> -1]])
  ELSE IF s.run.up /\ rid = s.cache.id /\ s.cp.id \notin {None, rid} /\ off = s.cp.off THEN
     Become([s EXCEPT !.cp = [id |-> rid, off |-> off]])       \* re-keyed: the stream continues under another id
  ELSE IF s.run.phase = "snap" THEN
     /\ ApplySnapE(s) /\ rid = s.cache.id /\ off = s.cache.l /\ SnapshotMatches(s)
     /\ Become(ApplySnapF(s))
  ELSE
     /\ TickE(s) /\ rid = s.cache.id /\ off = s.run.rd
     /\ Become(TickF(s))

RawOff(o) == IF o.bytes < 0 THEN -1 ELSE o.off
TCp == /\ IsEvent("Cp") /\ CpStep(St, E.rid, RawOff(E)) /\ Keep /\ UNCHANGED snapSeen

\* one target transaction: stream elements and the position (transactional mode), or the position alone
TExec ==
  /\ IsEvent("Exec")
  /\ LET ops == E.ops
         pushes == SelectSeq(ops, LAMBDA o : o.t = "push")
         cps == SelectSeq(ops, LAMBDA o : o.t = "cp")
         n == Len(pushes) IN
     /\ \A i \in 1..Len(ops) : ops[i].t \in {"push", "cp"}
     /\ Len(cps) = 1
     /\ IF run.phase = "snap" /\ n = 0 THEN CpStep(St, cps[1].rid, RawOff(cps[1]))
        ELSE /\ n = 0 \/ CanArrive(St, pushes[n].n)
             /\ LET s1 == IF n = 0 THEN St ELSE Arrived(St, pushes[n].n) IN
                /\ BatchE(s1, n)
                /\ \A i \in 1..n : pushes[i].n = s1.run.rd + i /\ CacheElem(s1, s1.run.rd + i) = Elem(pushes[i])
                /\ cps[1].rid = s1.cache.id /\ RawOff(cps[1]) = s1.run.rd + n
                /\ Become(BatchF(s1, n))
  /\ Keep /\ UNCHANGED snapSeen

\* the process is restarted; a memory cache does not survive it
TProcRestart ==
  /\ IsEvent("ProcRestart")
  /\ \E n \in cache.r..src.len :
       /\ CanArrive(St, n)
       /\ LET s1 == Arrived(St, n) IN
          Become(IF E.cacheLost THEN [CacheLostF(s1) EXCEPT !.cnt = s1.cnt] ELSE RunEndF(s1))
  /\ Keep /\ snapSeen' = <<>>

TNext == TProcRestart \/ TReset \/ TWrite \/ TFailover \/ TLose \/ TPsync \/ TPush \/ TDel \/ TRestore \/ TCp \/ TExec
TraceSpec == TInit /\ [][TNext]_tvars

\* transactional scenarios are judged with the transactional properties (Pipeline's Txn constant is a model value here)
T_TxnExactlyOnce == txn => Num(tgt) = [i \in 1..Len(tgt) |-> i]
T_TxnPrefix == (txn /\ run.up /\ run.link /\ run.phase = "stream") => \A i \in 1..Len(tgt) : i <= src.len /\ tgt[i] = SrcElem(i)

\* the replay must consume the whole trace; otherwise report the line that is no step of the specification
TraceAccepted ==
  LET d == TLCGet("stats").diameter IN
  IF d - 1 = Len(Trace) THEN TRUE
  ELSE Print(<<"TRACE-NOT-CONSUMED", d - 1, Len(Trace), IF d <= Len(Trace) THEN Trace[d] ELSE "end">>, FALSE)
=============================================================================
