----------------------------- MODULE TraceFilter -----------------------------
(* Judges the filter decisions recorded from the real RedisKeyFilter and from *)
(* the real parser (end-to-end) against env/Filter.tla.  Monitor style.       *)
EXTENDS Filter, TLC, Json

CONSTANT TraceFile
Trace == ndJsonDeserialize(TraceFile)
VARIABLE l
vars == <<l>>

\* bookkeeping namespaces the tool must never forward (bytes of "redis-gunyu-checkpoint", "/redis-gunyu", "redis-gunyu-bisync:")
Reserved == << <<114,101,100,105,115,45,103,117,110,121,117,45,99,104,101,99,107,112,111,105,110,116>>,
               <<47,114,101,100,105,115,45,103,117,110,121,117>>,
               <<114,101,100,105,115,45,103,117,110,121,117,45,98,105,115,121,110,99,58>> >>

Cfg(r) == [white |-> r.white, black |-> r.black, pw |-> r.pw, pb |-> IF r.e2e THEN r.pb \o Reserved ELSE r.pb]

Bad(r) ==
  CASE r.site = "Slot" ->
         IF r.filtered # ~SlotOk(r.white, r.black, HashSlot(r.k)) THEN {"C10_SlotRule"} ELSE {}
    [] r.site = "Key" ->
         IF r.filtered # ~PrefixOk(r.pw, r.pb, r.k) THEN {"C10_PrefixRule"} ELSE {}
    [] r.site = "Db" ->
         IF r.filtered # (r.db \in SeqRange(r.dbs)) THEN {"C10_DbRule"} ELSE {}
    [] r.site = "Cmd" ->
         IF r.filtered # (r.cmd \in SeqRange(r.cmds)) THEN {"C10_CommandRule"} ELSE {}
    [] r.site = "CmdKey" ->
         LET d == Decision(Cfg(r), r.keys, r.proj)
             dbOut == r.e2e /\ r.db \in SeqRange(r.dbs)
             cmdOut == r.e2e /\ r.cmd \in SeqRange(r.cmds)
             exp == IF dbOut \/ cmdOut THEN [reject |-> TRUE, kept |-> {}] ELSE d
         IN (IF r.reject # exp.reject THEN {IF r.reject THEN "C10_WithheldAcceptedCommand" ELSE "C10_ForwardedRejectedCommand"} ELSE {})
            \cup (IF ~r.reject /\ ~exp.reject /\ SeqRange(r.kept) # exp.kept THEN {"C10_WrongProjection"} ELSE {})
            \cup (IF ~r.reject /\ ~r.intact THEN {"C10_ArgumentsAltered"} ELSE {})
    [] OTHER -> {"C10_UnknownSite"}

Init == l = 1
Next == /\ l <= Len(Trace) /\ l' = l + 1
        /\ LET b == Bad(Trace[l]) IN IF b = {} THEN TRUE ELSE PrintT(<<"VIOL", Trace[l].id, l, b>>)
Spec == Init /\ [][Next]_vars
TraceAccepted ==
  LET d == TLCGet("stats").diameter IN
  IF d - 1 = Len(Trace) THEN TRUE ELSE Print(<<"TRACE-NOT-CONSUMED", d - 1, Len(Trace)>>, FALSE)
=============================================================================
