------------------------------ MODULE TraceCkpt ------------------------------
(* P layer for C17: one event per (initial bookkeeping state, maintenance      *)
(* operation, crash point): the resume position the next start found BEFORE    *)
(* the operation and the one it finds AFTER the operation was cut after k      *)
(* target requests and the next start ran.  Monitor style.                     *)
EXTENDS Integers, Sequences, TLC, Json

CONSTANT TraceFile
Trace == ndJsonDeserialize(TraceFile)
VARIABLE l
vars == <<l>>

Bad(r) ==
  \* (op "gclive": the collector as the tool drives it; reported = how a source still reports the checkpoint's
  \*  replication id - as its current id, as its previous id, or not at all: only then may the position go)
  LET had == r.before.rid # "?" /\ r.before.off >= 0 /\ r.reported # "gone"
      \* another input that keeps its position under the same key has nothing to do with this input's maintenance
      other == IF r.op \in {"rename", "failover", "both"} /\ r.otherBefore.off >= 0 /\ r.otherAfter # r.otherBefore
               THEN {"C17_OtherInputPositionLost"} ELSE {} IN
  IF ~had THEN other
  ELSE other \cup (IF r.after.rid = "?" \/ r.after.off < 0 THEN {"C17_ResumePositionLost"} ELSE {})
       \cup (IF r.after.rid # "?" /\ r.after.off >= 0 /\ r.after.off < r.before.off THEN {"C17_ResumePositionWentBack"} ELSE {})
       \cup (IF r.after.rid # "?" /\ r.after.off >= r.before.off /\ r.after.db # r.before.db THEN {"C17_ResumeDatabaseChanged"} ELSE {})
       \* the replay went on and stored a later position (wrote), then started once more (later): what the interrupted
       \* operation left on the target must not outvote it
       \cup (IF r.wrote >= 0 /\ (r.later.rid = "?" \/ r.later.off < r.wrote) THEN {"C17_ResumePositionWentBack"} ELSE {})
       \cup (IF r.wrote >= 0 /\ r.later.rid # "?" /\ r.later.off >= r.wrote /\ r.later.db # r.after.db THEN {"C17_ResumeDatabaseChanged"} ELSE {})

Init == l = 1
Next == /\ l <= Len(Trace) /\ l' = l + 1
        /\ LET b == Bad(Trace[l]) IN IF b = {} THEN TRUE ELSE PrintT(<<"VIOL", Trace[l].id, l, b>>)
Spec == Init /\ [][Next]_vars
TraceAccepted ==
  LET d == TLCGet("stats").diameter IN
  IF d - 1 = Len(Trace) THEN TRUE ELSE Print(<<"TRACE-NOT-CONSUMED", d - 1, Len(Trace)>>, FALSE)
=============================================================================
