----------------------------- MODULE TraceReplica -----------------------------
(* P layer for C16: one event per leader/follower scenario run on the real     *)
(* ReplicaLeader.Handle / ReplicaFollower.Run.  The event describes the two     *)
(* caches before the run (histories, ranges), what happened (interruption,      *)
(* appends at the leader, result of Run, results of the leader's calls) and     *)
(* what the follower's cache serves afterwards - through the same channel       *)
(* object (held) and, for the disk cache, through a freshly opened one          *)
(* (reopened): per replication id the range, how much of it could be read, and  *)
(* whether every byte equals the byte of that id's history at that offset.      *)
EXTENDS Integers, Sequences, FiniteSets, TLC, Json

CONSTANT TraceFile
Trace == ndJsonDeserialize(TraceFile)
VARIABLE l
vars == <<l>>

Foreign(r) == r.fkind \in {"otherid", "otherid-ahead", "otherid-memory"}

EntryBad(r, h) ==
  \* every byte served under an id is the byte of that id's history (a relabelled or mixed cache fails here)
  (IF ~h.match \/ ~h.rdbMatch THEN {"C16_NotACopy"} ELSE {})
  \* the reported range is one contiguous readable range, a reported snapshot is complete
  \cup (IF h.right > h.left /\ h.readable < h.right - h.left THEN {"C16_NotContiguous"} ELSE {})
  \cup (IF h.rdbSize > 0 /\ h.rdbRead < h.rdbSize THEN {"C16_SnapshotIncomplete"} ELSE {})
  \* nothing is held for the leader's id beyond what the leader has, unless the follower brought it along
  \cup (IF h.hist = 1 /\ h.right > r.leaderRight /\ ~(r.follower.hist = 1 /\ h.right = r.follower.right)
        THEN {"C16_BeyondLeader"} ELSE {})
  \* (after a full resynchronisation of the leader: nothing under the new id beyond the new history's end)
  \cup (IF r.fkind = "switch" /\ h.hist = 2 /\ h.right > r.leader2.right THEN {"C16_BeyondLeader"} ELSE {})

Bad(r) ==
  UNION {EntryBad(r, r.held[i]) : i \in 1..Len(r.held)}
  \cup UNION {EntryBad(r, r.reopened[i]) : i \in 1..Len(r.reopened)}
  \* a follower that is ahead on the leader's own history is offered leadership and keeps its data
  \cup (IF r.fkind = "ahead" /\ r.follower.right > r.leaderRight /\
           ~\E i \in 1..Len(r.held) : r.held[i].hist = 1 /\ r.held[i].left = r.follower.left /\ r.held[i].right = r.follower.right
        THEN {"C16_AheadFollowerOverwritten"} ELSE {})
  \* (the follower reports the take-over only after a 2 s pause; the leader's HANDOVER answer is the offer)
  \cup (IF r.fkind = "ahead" /\ r.follower.right > r.leaderRight /\ r.interrupt = 0 /\ r.calls >= 2 /\ r.result # "takeover" /\
           ~\E i \in 1..Len(r.leaderCalls) : r.leaderCalls[i] = "handover"
        THEN {"C16_AheadFollowerNotOfferedLeadership"} ELSE {})
  \* the leader went through a full resynchronisation under a new id while this follower lagged behind: the follower
  \* gives its copy of the old history up and follows the new one (it retries every 3 s; 20 s without any progress
  \* were waited for), it does not go on under the old label
  \cup (IF r.fkind = "switch" /\ ~r.caughtUp2 /\ r.result = "stopped" THEN {"C16_KeepsOldHistoryAfterLeaderResync"} ELSE {})
  \* offsets of unrelated histories are not comparable: no hand-over to a foreign id
  \cup (IF Foreign(r) /\ (r.result = "takeover" \/ \E i \in 1..Len(r.leaderCalls) : r.leaderCalls[i] = "handover")
        THEN {"C16_LeadershipOfferedToForeignHistory"} ELSE {})

\* a raw sync request answered by the leader (what a follower with a stale view of the leader would send)
DirectBad(r) ==
  LET first == IF Len(r.codes) > 0 THEN r.codes[1] ELSE "none" IN
  IF r.reqHist # 1 THEN
     \* a foreign replication id is refused whatever its offset: offsets of unrelated histories are not comparable
     (IF first = "HANDOVER" THEN {"C16_LeadershipOfferedToForeignHistory"} ELSE {})
     \cup (IF first \in {"META", "CONTINUE"} THEN {"C16_ForeignIdServed"} ELSE {})
  ELSE IF r.reqOff > r.leader.right THEN
     (IF first # "HANDOVER" THEN {"C16_AheadFollowerNotOfferedLeadership"} ELSE {})
  ELSE
     (IF first # "META" THEN {"C16_RequestNotServed"} ELSE {})
     \* the announced position is the requested one, or the leader's newest one when the requested one is gone
     \cup (IF first = "META" /\ ~r.snapshotAnswer /\ r.metaOff # r.reqOff /\ ~(r.reqOff < r.leader.left /\ r.metaOff = r.leader.right)
           THEN {"C16_LeaderServesWrongOffset"} ELSE {})
     \cup (IF ~r.snapshotAnswer /\ ~r.dataOk THEN {"C16_NotACopy"} ELSE {})

Init == l = 1
Next == /\ l <= Len(Trace) /\ l' = l + 1
        /\ LET b == IF Trace[l].ev = "Direct" THEN DirectBad(Trace[l]) ELSE Bad(Trace[l]) IN IF b = {} THEN TRUE ELSE PrintT(<<"VIOL", Trace[l].id, l, b>>)
Spec == Init /\ [][Next]_vars
TraceAccepted ==
  LET d == TLCGet("stats").diameter IN
  IF d - 1 = Len(Trace) THEN TRUE ELSE Print(<<"TRACE-NOT-CONSUMED", d - 1, Len(Trace)>>, FALSE)
=============================================================================
