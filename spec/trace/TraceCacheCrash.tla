--------------------------- MODULE TraceCacheCrash ---------------------------
(* P layer for C08.  Each event is what a FRESH disk channel answered on a     *)
(* directory image frozen just before one file mutation of a live cache        *)
(* (append, rotation, header rewrite, snapshot rename, per-file removal of a   *)
(* reset or of a collector pass), optionally with one byte of a closed         *)
(* segment altered.  The image itself is the ground truth: every served byte   *)
(* is compared (in Go) with the keyed source pattern; this module judges the   *)
(* shape of the answers.  Monitor style.                                       *)
EXTENDS Integers, Sequences, FiniteSets, TLC, Json

CONSTANT TraceFile
Trace == ndJsonDeserialize(TraceFile)
VARIABLE l
vars == <<l>>

Bad(r) ==
  LET P == r.probes
      none == r.ll = -1 /\ r.rr = -1
      viaSnap(o) == r.snap.offered /\ o <= r.snap.l
      inRange(o) == ~none /\ r.ll <= o /\ o <= r.rr
      readable(p) == p.valid /\ p.opened /\ (p.aof => (p.n = p.want /\ p.match))
      pristine == r.altered = ""
      \* offsets whose bytes live at or after the altered segment may legitimately be refused
      exempt(o) == ~pristine /\ o >= r.al
  IN (IF pristine /\ \E i \in 1..Len(P) : inRange(P[i].off) /\ ~readable(P[i]) THEN {"C08_ReportedRangeNotReadable"} ELSE {})
     \cup (IF \E i \in 1..Len(P) : P[i].valid /\ ~inRange(P[i].off) /\ ~viaSnap(P[i].off) THEN {"C08_ValidOutsideReportedRange"} ELSE {})
     \cup (IF \E i \in 1..Len(P) : P[i].n > 0 /\ ~P[i].match THEN {"C08_ServedBytesNotSourceBytes"} ELSE {})
     \cup (IF r.full.tried /\ ~r.full.match THEN {"C08_ServedBytesNotSourceBytes"} ELSE {})
     \cup (IF pristine /\ r.full.tried /\ r.full.n < r.rr - r.full.from THEN {"C08_ReportedRangeNotReadable"} ELSE {})
     \cup (IF r.snap.offered /\ (~r.snap.ok \/ ~r.snap.match) THEN {"C08_IncompleteOrAlteredSnapshotOffered"} ELSE {})
     \cup (IF ~none /\ r.ll > r.rr THEN {"C08_RangeInverted"} ELSE {})
     \cup (IF ~pristine /\ \E i \in 1..Len(P) : P[i].n > 0 /\ P[i].off >= r.al /\ P[i].off < r.ar /\ ~P[i].match
           THEN {"C08_MismatchedSegmentServed"} ELSE {})

Init == l = 1
Next == /\ l <= Len(Trace) /\ l' = l + 1
        /\ LET b == Bad(Trace[l]) IN IF b = {} THEN TRUE ELSE PrintT(<<"VIOL", Trace[l].id, l, b>>)
Spec == Init /\ [][Next]_vars
TraceAccepted ==
  LET d == TLCGet("stats").diameter IN
  IF d - 1 = Len(Trace) THEN TRUE ELSE Print(<<"TRACE-NOT-CONSUMED", d - 1, Len(Trace)>>, FALSE)
=============================================================================
