SPECIFICATION Spec
CONSTANT TraceFile = "trace.ndjson"
POSTCONDITION TraceAccepted
CHECK_DEADLOCK FALSE
