------------------------------ MODULE TraceCache ------------------------------
(* P layer for C05 (and the reopen observations of C08): the cache as a        *)
(* contract.  The harness performs operations on a real Channel (disk or       *)
(* memory) whose writers are fed the keyed byte pattern Byte(history, offset), *)
(* and records what the channel answered and what its readers delivered (the   *)
(* byte comparison is done in Go; the trace carries match flags and counts).   *)
(* Garbage collection is not prescribed: the model only knows what was         *)
(* WRITTEN, the answers must be consistent with it.  Monitor style.            *)
EXTENDS Integers, Sequences, FiniteSets, TLC, Json

CONSTANT TraceFile
Trace == ndJsonDeserialize(TraceFile)
NoSnap == [l |-> -1, s |-> -1, got |-> 0, done |-> FALSE]

VARIABLES l, id, wl, wr, snap, epoch, readers, lastRange
\* wl..wr : extent of the log bytes written since the last reset (-1 = none)
\* readers: id -> [pos, epoch, aof]
vars == <<l, id, wl, wr, snap, epoch, readers, lastRange>>

Init == /\ l = 1 /\ id = 0 /\ wl = -1 /\ wr = -1 /\ snap = NoSnap /\ epoch = 0 /\ readers = <<>>
        /\ lastRange = <<-1, -1>>
IsEvent(e) == l <= Len(Trace) /\ Trace[l].ev = e /\ l' = l + 1
Report(bad) == IF bad = {} THEN TRUE ELSE PrintT(<<"VIOL", id, l, bad>>)
SetReader(r, v) == [x \in (DOMAIN readers) \cup {r} |-> IF x = r THEN v ELSE readers[x]]

Reset == /\ IsEvent("Reset")
         /\ id' = Trace[l].id /\ wl' = -1 /\ wr' = -1 /\ snap' = NoSnap /\ epoch' = 0 /\ readers' = <<>>
         /\ lastRange' = <<-1, -1>>

\* ---- operations (what the harness did) ----
Op ==
  /\ IsEvent("Op")
  /\ LET r == Trace[l] IN
     CASE r.op = "snap" ->        \* new snapshot writer: everything cached before is void
            /\ snap' = [l |-> r.l, s |-> r.s, got |-> 0, done |-> r.s = 0]
            /\ wl' = -1 /\ wr' = -1 /\ epoch' = epoch + 1 /\ UNCHANGED <<id, readers, lastRange>>
       [] r.op = "snapappend" ->
            /\ snap' = [snap EXCEPT !.got = @ + r.n, !.done = (snap.got + r.n = snap.s)]
            /\ UNCHANGED <<id, wl, wr, epoch, readers, lastRange>>
       [] r.op = "snapabort" ->
            /\ snap' = IF snap.done THEN snap ELSE NoSnap
            /\ UNCHANGED <<id, wl, wr, epoch, readers, lastRange>>
       [] r.op = "aofwriter" ->   \* (re)placed log writer at offset r.off
            /\ wl' = IF wl = -1 THEN r.off ELSE wl
            /\ wr' = IF wl = -1 THEN r.off ELSE wr
            /\ Report(IF wl # -1 /\ r.off # wr THEN {"HARNESS_DiscontinuousWriter"} ELSE {})
            /\ UNCHANGED <<id, snap, epoch, readers, lastRange>>
       [] r.op = "append" ->
            /\ wr' = wr + r.n /\ UNCHANGED <<id, wl, snap, epoch, readers, lastRange>>
       [] r.op = "reset" ->       \* DelRunId / close: everything is void
            /\ wl' = -1 /\ wr' = -1 /\ snap' = NoSnap /\ epoch' = epoch + 1
            /\ UNCHANGED <<id, readers, lastRange>>
       [] r.op = "closereader" ->
            /\ readers' = [x \in (DOMAIN readers) \ {r.r} |-> readers[x]]
            /\ UNCHANGED <<id, wl, wr, snap, epoch, lastRange>>
       [] OTHER -> UNCHANGED <<id, wl, wr, snap, epoch, readers, lastRange>>

\* ---- observations (what the channel answered) ----
Obs ==
  /\ IsEvent("Obs")
  /\ LET r == Trace[l] IN
     CASE r.o = "range" ->
            LET none == r.ll = -1 /\ r.rr = -1
                expectRight == IF wl # -1 THEN wr ELSE IF snap.l # -1 THEN snap.l ELSE -1
                bad == (IF ~none /\ r.rr > expectRight THEN {"C05_RangeBeyondWritten"} ELSE {})
                       \* (a cache may have collected a complete snapshot that exceeds its size limit - collection is not
                       \*  prescribed - but what a live log writer has written last is always in range)
                       \cup (IF (none /\ expectRight # -1 /\ wl # -1) \/ (~none /\ r.rr < expectRight)
                             THEN {"C05_WrittenBytesNotInRange"} ELSE {})
                       \cup (IF ~none /\ r.ll > r.rr THEN {"C05_RangeInverted"} ELSE {})
                       \cup (IF ~none /\ wl # -1 /\ r.ll < wl /\ r.ll # snap.l THEN {"C05_RangeStartsBeforeWritten"} ELSE {})
            IN /\ Report(bad) /\ lastRange' = <<r.ll, r.rr>> /\ UNCHANGED <<id, wl, wr, snap, epoch, readers>>
       [] r.o = "valid" ->       \* IsValidOffset(off) = TRUE was answered
            LET inLog == wl # -1 /\ wl <= r.off /\ r.off <= wr
                viaSnap == snap.l # -1 /\ r.off <= snap.l
                bad == (IF ~inLog /\ ~viaSnap THEN {"C05_ValidButNeverWritten"} ELSE {})
                       \cup (IF ~r.opened THEN {"C05_ValidButNotReadable"} ELSE {})
                       \cup (IF r.opened /\ r.aof /\ ~r.match THEN {"C05_ReaderDeliveredOtherBytes"} ELSE {})
                       \cup (IF r.opened /\ r.aof /\ r.n < r.want THEN {"C05_ValidButNotReadable"} ELSE {})
            IN /\ Report(bad) /\ UNCHANGED <<id, wl, wr, snap, epoch, readers, lastRange>>
       [] r.o = "rdboffer" ->    \* GetRdb answered (l, s); the harness then replayed it
            LET bad == (IF snap.l # r.l \/ snap.s # r.s THEN {"C05_SnapshotOfferedNotWritten"} ELSE {})
                       \cup (IF r.ok /\ (r.n # r.s \/ ~r.match) THEN {"C05_SnapshotDeliveredShortOrAltered"} ELSE {})
                       \cup (IF ~r.ok /\ snap.done /\ snap.l = r.l THEN {"C05_CompleteSnapshotNotReadable"} ELSE {})
                       \cup (IF lastRange[1] > r.l /\ wl # -1 /\ lastRange[2] > lastRange[1] THEN {"C05_SnapshotOfferedWithoutContinuation"} ELSE {})
            IN /\ Report(bad) /\ UNCHANGED <<id, wl, wr, snap, epoch, readers, lastRange>>
       [] r.o = "open" ->        \* NewReader(off) succeeded
            /\ readers' = SetReader(r.r, [pos |-> r.off, epoch |-> epoch, aof |-> r.aof])
            /\ Report(IF r.aof /\ ~(wl # -1 /\ wl <= r.off /\ r.off <= wr) THEN {"C05_ReaderOpenedOutsideWritten"} ELSE {})
            /\ UNCHANGED <<id, wl, wr, snap, epoch, lastRange>>
       [] r.o = "deliver" ->     \* reader r delivered n bytes (match = all equal Byte(h, pos + i)); want = bytes it should be able to deliver
            LET rd == readers[r.r]
                stale == rd.epoch # epoch
                \* a live reader delivers the current history; an invalidated one may still hand over bytes it had
                \* pinned (its own history at those offsets) before it ends, but never anything else
                bad == (IF r.n > 0 /\ ~stale /\ ~r.match THEN {"C05_ReaderDeliveredOtherBytes"} ELSE {})
                       \cup (IF r.n > 0 /\ stale /\ ~r.own THEN {"C05_DeliveredAfterInvalidation"} ELSE {})
                       \cup (IF ~stale /\ rd.pos + r.n > wr THEN {"C05_DeliveredBeyondWritten"} ELSE {})
                       \* a reader may END (writer replacement, reset); one that is still open must keep following the writer
                       \cup (IF ~stale /\ r.n < r.want /\ ~r.ended THEN {"C05_ReaderStalled"} ELSE {})
                       \* "an invalidated reader ends or fails": one that hands over nothing more (the harness waited for
                       \* bytes as long as any kept coming, then 600 ms more) and is still open does neither
                       \cup (IF stale /\ r.n = 0 /\ ~r.ended THEN {"C05_InvalidatedReaderNeitherEndsNorFails"} ELSE {})
            IN /\ Report(bad)
               /\ readers' = SetReader(r.r, [rd EXCEPT !.pos = @ + r.n])
               /\ UNCHANGED <<id, wl, wr, snap, epoch, lastRange>>
       [] OTHER -> Report({"HARNESS_UnknownObservation"}) /\ UNCHANGED <<id, wl, wr, snap, epoch, readers, lastRange>>

Next == Reset \/ Op \/ Obs
Spec == Init /\ [][Next]_vars
TraceAccepted ==
  LET d == TLCGet("stats").diameter IN
  IF d - 1 = Len(Trace) THEN TRUE ELSE Print(<<"TRACE-NOT-CONSUMED", d - 1, Len(Trace)>>, FALSE)
=============================================================================
