------------------------------ MODULE UnitRoute ------------------------------
(* Design level of C18: how a bidirectional replay unit is admitted on a       *)
(* cluster target.  A unit is a sequence of commands; a command is either      *)
(* "keyed" with a non-empty sequence of keys, "counted" (the number of keys is *)
(* part of the command's content and a further argument that is not a key      *)
(* follows them - EVAL, ZUNIONSTORE, LMPOP ...; the argument may look exactly   *)
(* like a key of another slot), "dynamic" (a module's command: no table of the  *)
(* tool knows it, the target names its keys when asked - COMMAND GETKEYS - and  *)
(* from there on it is scanned like a keyed one) or "opaque" (neither the tool  *)
(* nor the target can tell its keys).                                           *)
(* The admission scan visits the keys one at a time (one TLC                    *)
(* step per key, as syncer/bisync.go buildBisyncReplayUnitWithMode does),      *)
(* remembers the slot of the first key and refuses at the first opaque         *)
(* command or differing slot.  Slots are Redis Cluster's HASH_SLOT             *)
(* (env/Slot.tla).  After admission the unit is sent as                        *)
(*   MULTI, marker{tag}, business..., record{tag}, index{tag}, EXEC            *)
(* where tag is a control tag whose slot is the unit's slot.                   *)
(*                                                                              *)
(* Properties (TLC, exhaustively over Pool/MaxCmds/MaxKeys):                   *)
(*   C18_AdmitIffSingleSlot   verdict = accept  <=>  no opaque command and     *)
(*                            all keys share one slot                          *)
(*   C18_NothingSentOnRefuse  a refused unit has sent nothing                  *)
(*   C18_TxnSingleSlot        everything sent inside the MULTI addresses the   *)
(*                            unit's slot                                      *)
(* EmitCase prints every (unit, verdict) pair; the conformance driver replays  *)
(* each into the real sendAofBisync against the slot-checking cluster fake.    *)
EXTENDS Slot, TLC, FiniteSets, Json, SequencesExt

CONSTANTS Pool,      \* set of keys (byte sequences)
          ArgPool,   \* non-key arguments of counted commands (byte sequences, chosen to look like keys)
          MaxCmds, MaxKeys

\* default pool (cfg: Pool <- DefaultPool): same tag / other tag / empty first tag / two tags / nested braces /
\* closing brace first / tag in the middle / two keys that share nothing but an empty brace pair
DefaultPool == { <<123,97,125,120>>,            \* {a}x
                 <<123,97,125,121>>,            \* {a}y
                 <<123,98,125,120>>,            \* {b}x
                 <<123,125,123,97,125,120>>,    \* {}{a}x   whole key
                 <<123,97,125,123,98,125>>,     \* {a}{b}   first tag
                 <<123,123,97,125,125>>,        \* {{a}}    tag "{a"
                 <<97,125,123,98,125>>,         \* a}{b}    tag b
                 <<120,123,98,125,123,97,125>>, \* x{b}{a}  tag b
                 <<123,195,169,125,255>>,       \* {e-acute}\xff  non-ASCII bytes inside and outside the tag
                 <<97,123,125>>,                \* a{}     an empty tag is no tag: whole key
                 <<98,123,125>> }               \* b{}     the same empty "tag", another slot

DefaultArgPool == { <<123,98,125,120>>, <<123,97,125,121>> }   \* {b}x  {a}y

KeySeqs == UNION {[1..n -> Pool] : n \in 1..MaxKeys}
\* keys of dynamic commands: two of one tag, one of another (the brace shapes are exercised by the keyed commands)
DynPool == { <<123,97,125,120>>, <<123,97,125,121>>, <<123,98,125,120>> } \cap Pool
DynKeySeqs == UNION {[1..n -> DynPool] : n \in 1..MaxKeys}
Cmds == {[kind |-> "keyed", keys |-> ks, arg |-> <<>>] : ks \in KeySeqs}
        \cup {[kind |-> "counted", keys |-> ks, arg |-> a] : ks \in KeySeqs, a \in ArgPool}
        \cup {[kind |-> "dynamic", keys |-> ks, arg |-> <<>>] : ks \in DynKeySeqs}
        \cup {[kind |-> "opaque", keys |-> <<k>>, arg |-> <<>>] : k \in Pool}
UnitsAll == UNION {[1..n -> Cmds] : n \in 1..MaxCmds}

\* definitional verdict
AllKeys(u) == UNION {{u[i].keys[j] : j \in 1..Len(u[i].keys)} : i \in 1..Len(u)}
Routable(u) == /\ \A i \in 1..Len(u) : u[i].kind # "opaque"
               /\ Cardinality({HashSlot(k) : k \in AllKeys(u)}) = 1

VARIABLES unit, ci, ki, slot, verdict, sent
vars == <<unit, ci, ki, slot, verdict, sent>>

Init == /\ unit \in UnitsAll /\ ci = 1 /\ ki = 1 /\ slot = -1 /\ verdict = "scanning" /\ sent = <<>>

\* one key (or one opaque command) examined
Scan ==
  /\ verdict = "scanning" /\ ci <= Len(unit)
  /\ LET c == unit[ci] IN
     IF c.kind = "opaque" THEN verdict' = "refuse" /\ UNCHANGED <<unit, ci, ki, slot, sent>>
     ELSE LET s == HashSlot(c.keys[ki]) IN
          IF slot # -1 /\ s # slot THEN verdict' = "refuse" /\ UNCHANGED <<unit, ci, ki, slot, sent>>
          ELSE /\ slot' = s
               /\ IF ki < Len(c.keys) THEN ki' = ki + 1 /\ ci' = ci ELSE ki' = 1 /\ ci' = ci + 1
               /\ UNCHANGED <<unit, verdict, sent>>

Admit == /\ verdict = "scanning" /\ ci > Len(unit)
         /\ verdict' = "accept" /\ UNCHANGED <<unit, ci, ki, slot, sent>>

\* the admitted unit goes out as one transaction; control keys carry a tag of the unit's slot
Send ==
  /\ verdict = "accept" /\ sent = <<>>
  /\ sent' = <<[t |-> "multi", sl |-> -1], [t |-> "marker", sl |-> slot]>>
             \o [i \in 1..Len(unit) |-> [t |-> "biz", sl |-> HashSlot(unit[i].keys[1])]]
             \o <<[t |-> "rec", sl |-> slot], [t |-> "idx", sl |-> slot], [t |-> "exec", sl |-> -1]>>
  /\ UNCHANGED <<unit, ci, ki, slot, verdict>>

Next == Scan \/ Admit \/ Send
Spec == Init /\ [][Next]_vars

Done == verdict # "scanning"
C18_AdmitIffSingleSlot == Done => ((verdict = "accept") <=> Routable(unit))
C18_NothingSentOnRefuse == verdict = "refuse" => sent = <<>>
C18_TxnSingleSlot == \A i \in 1..Len(sent) : sent[i].sl \in {-1, slot}

\* one line per unit on the final state of its scan
EmitCase == (Done /\ (verdict = "refuse" \/ sent # <<>>)) =>
            PrintT("CASE " \o ToJson([unit |-> unit, ok |-> (verdict = "accept")]))
=============================================================================
