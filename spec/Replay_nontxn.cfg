SPECIFICATION Spec
CONSTANTS
  MaxLen = 4
  TxnMode = FALSE
  BatchCount = 2
  Tickers = {"keepalive", "batch", "cp"}
  MaxCrashes = 1
  DBs = {0, 1}
  Blacklist = {}
  FixBarrier = TRUE
  FixIdle = TRUE
  FixRunId = TRUE
  MaxTicks = 1
VIEW View
INVARIANTS
  C01_Prefix
  C02_RightDb
  C02_CpCovers
  C02_NoRepeatTxn
  C07_Values
  C07_Monotone
  C07_NoNeedlessFull
  C09_Atomic
