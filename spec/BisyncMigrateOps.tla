--------------------------- MODULE BisyncMigrateOps ---------------------------
(* The start-up program of a bidirectional link as constant-level operators (no variables): shared by the state     *)
(* machine spec/BisyncMigrate.tla (TLC explores every layout and every stop) and by spec/trace/TraceMigrate.tla      *)
(* (the same program stepped along cases recorded from the real code).  See BisyncMigrate.tla for the description.  *)
EXTENDS Integers, Sequences, FiniteSets, TLC

CONSTANTS MaxU, FixRoot

Modes == {"sync", "pipeline", "parallel"}
UsesFrontier(m) == m \in {"pipeline", "parallel"}
RIDs == {"A", "B"}
Names == 1..4
NoRec == [rid |-> "", seq |-> 0, u |-> -1]
EmptyNs == [exists |-> FALSE, mode |-> "none", root |-> {}, snap |-> NoRec, latest |-> NoRec, jour |-> {}, dang |-> FALSE]
\* root : set of [rid, u] (at most one per rid);  jour : set of [rid, seq, u] (indexed journal records that exist);
\* dang : the journal index holds members whose record is gone (they only matter for how many requests a clean-up sends)

IdSet(ids) == {ids[1], ids[2]} \cap RIDs

\* ---------------------------------------------------------------- reads
Lookup(idx, ids) ==   \* checkpoint.GetCheckpointHash : <<namespace, run id it was found under>>
  IF idx[ids[1]] # 0 THEN <<idx[ids[1]], ids[1]>>
  ELSE IF ids[2] \in RIDs /\ idx[ids[2]] # 0 THEN <<idx[ids[2]], ids[2]>>
  ELSE <<0, "">>

\* checkpoint.GetCheckpoint on one namespace : the entry of a matching id with the greatest offset ("?" when there is none)
RootOf(n, ids) ==
  LET S == {e \in n.root : e.rid \in IdSet(ids)} IN
  IF S = {} THEN [rid |-> "?", u |-> -1]
  ELSE CHOOSE e \in S : \A f \in S : f.u < e.u \/ (f.u = e.u /\ (f.rid = e.rid \/ e.rid = ids[1]))

SnapOf(n, ids) == IF n.snap.rid \in IdSet(ids) THEN n.snap ELSE NoRec
MinSeqOf(s) == IF s.rid # "" /\ s.seq > 0 THEN s.seq + 1 ELSE 1
JourOf(n, ids, minSeq) == {r \in n.jour : r.rid \in IdSet(ids) /\ r.seq >= minSeq}

RECURSIVE Ext(_, _)
Ext(cur, recs) == IF \E r \in recs : r.seq = cur.seq + 1
                  THEN Ext(CHOOSE r \in recs : r.seq = cur.seq + 1, recs) ELSE cur

\* checkpoint.RebuildBisyncFrontier over the loaded snapshot and journal : [gap, f]
FrontierOf(n, ids) ==
  LET s == SnapOf(n, ids)
      recs == JourOf(n, ids, MinSeqOf(s))
      lo == CHOOSE q \in {r.seq : r \in recs} : \A p \in {r.seq : r \in recs} : q <= p
  IN IF recs = {} THEN [gap |-> FALSE, f |-> s, recs |-> recs]
     ELSE IF s.seq = 0 /\ lo # 1 THEN [gap |-> TRUE, f |-> NoRec, recs |-> recs]
     ELSE [gap |-> FALSE, f |-> Ext(s, recs), recs |-> recs]

\* syncer.loadBisyncMigrationSeed : [ok, rid, seq, u]
SeedOf(n, cur, ids) ==
  LET none == [ok |-> FALSE, rid |-> "", seq |-> 0, u |-> -1]
      base == IF cur = "sync"
              THEN (IF n.latest.rid \in IdSet(ids) THEN [ok |-> TRUE, rid |-> n.latest.rid, seq |-> n.latest.seq, u |-> n.latest.u] ELSE none)
              ELSE LET F == FrontierOf(n, ids) IN
                   IF ~F.gap /\ F.f.rid # "" /\ F.f.seq > 0 THEN [ok |-> TRUE, rid |-> F.f.rid, seq |-> F.f.seq, u |-> F.f.u] ELSE none
      root == RootOf(n, ids)
  IN IF base.ok /\ FixRoot /\ root.rid # "?" /\ root.u > base.u THEN [ok |-> TRUE, rid |-> root.rid, seq |-> 0, u |-> root.u] ELSE base

\* what bisyncStartPoint selects : [rid, u, save (frontier to persist, NoRec = nothing), recs (journal records consumed)]
SelectOf(n, mode, ids) ==
  LET root == RootOf(n, ids) IN
  IF root.rid = "?" THEN [rid |-> "?", u |-> -1, save |-> NoRec, recs |-> {}]
  ELSE IF UsesFrontier(mode) THEN
       LET F == FrontierOf(n, ids) IN
       IF ~F.gap /\ F.f.rid # "" /\ F.f.seq > 0 THEN
            IF root.u > F.f.u THEN [rid |-> root.rid, u |-> root.u, save |-> NoRec, recs |-> {}]
            ELSE [rid |-> F.f.rid, u |-> F.f.u, save |-> F.f, recs |-> {r \in F.recs : r.seq <= F.f.seq}]
       ELSE [rid |-> root.rid, u |-> root.u, save |-> NoRec, recs |-> {}]
  ELSE IF n.latest.rid \in IdSet(ids) /\ ~(root.u > n.latest.u) THEN [rid |-> n.latest.rid, u |-> n.latest.u, save |-> NoRec, recs |-> {}]
  ELSE [rid |-> root.rid, u |-> root.u, save |-> NoRec, recs |-> {}]

InferOf(n, ids) ==   \* syncer.inferBisyncNamespaceMode
  IF SnapOf(n, ids).seq > 0 THEN "parallel" ELSE IF n.latest.rid \in IdSet(ids) THEN "sync" ELSE "none"

Fresh(ns) == CHOOSE x \in Names : ~ns[x].exists /\ \A y \in Names : ~ns[y].exists => x <= y

\* ---------------------------------------------------------------- the program, one write per step
\* s = [idx, ns, pc, cp, cprid, new, seed, cur, name, res];  Step(s, mode, ids) is the state after the next write (or the end)
SetRoot(n, rid, u) == [n EXCEPT !.exists = TRUE, !.root = {e \in n.root : e.rid # rid} \cup {[rid |-> rid, u |-> u]}]
Done(s, res) == [s EXCEPT !.pc = "done", !.res = res]

\* reads at the beginning of Resolve, up to its first write
ResolveEntry(s, mode, ids) ==
  LET lk == Lookup(s.idx, ids)
      cp == lk[1]
      n == s.ns[cp]
      inf == InferOf(n, ids)
  IN IF cp = 0 THEN [s EXCEPT !.pc = "r_new1"]
     ELSE IF n.mode = "none" /\ inf # "none" THEN [s EXCEPT !.pc = "r_infer", !.cp = cp, !.cprid = lk[2], !.cur = inf]
     ELSE IF n.mode = "none" THEN [s EXCEPT !.pc = "r_setmode", !.cp = cp, !.cprid = lk[2]]
     ELSE [s EXCEPT !.pc = "r_mode", !.cp = cp, !.cprid = lk[2], !.cur = n.mode]

\* the decision once the current mode is known
ModeEntry(s, mode, ids) ==
  IF s.cur = mode THEN [s EXCEPT !.pc = "u_start", !.name = s.cp]
  ELSE IF UsesFrontier(s.cur) = UsesFrontier(mode) THEN [s EXCEPT !.pc = "r_setmode"]
  ELSE LET sd == SeedOf(s.ns[s.cp], s.cur, ids) IN
       IF ~sd.ok THEN [s EXCEPT !.pc = "refused"]
       ELSE [s EXCEPT !.pc = "m_root", !.seed = [sd EXCEPT !.rid = ids[1]], !.new = Fresh(s.ns)]

\* reads at the beginning of UpdateCheckpoint
UpdateEntry(s, ids) ==
  LET lk == Lookup(s.idx, ids) IN
  IF lk[1] = s.name /\ lk[2] = ids[1] THEN [s EXCEPT !.pc = "s_start"]
  ELSE [s EXCEPT !.pc = "u_set", !.cp = lk[1], !.cprid = lk[2],
                 !.seed = IF lk[1] = 0 THEN [ok |-> FALSE, rid |-> "?", seq |-> 0, u |-> -1]
                          ELSE LET r == RootOf(s.ns[lk[1]], ids) IN [ok |-> r.rid # "?", rid |-> r.rid, seq |-> 0, u |-> r.u]]

StartEntry(s, mode, ids) ==
  LET sel == SelectOf(s.ns[s.name], mode, ids) IN
  IF sel.save.rid # "" THEN [s EXCEPT !.pc = "s_save", !.seed = [ok |-> TRUE, rid |-> sel.rid, seq |-> sel.save.seq, u |-> sel.u], !.gone = sel.recs, !.dang0 = s.ns[s.name].dang]
  ELSE Done(s, [rid |-> sel.rid, u |-> sel.u])

RECURSIVE Silent(_, _, _)
\* run the reads until the program stands before a write (or has ended)
Silent(s, mode, ids) ==
  CASE s.pc = "r_start" -> Silent(ResolveEntry(s, mode, ids), mode, ids)
    [] s.pc = "r_mode"  -> Silent(ModeEntry(s, mode, ids), mode, ids)
    [] s.pc = "u_start" -> Silent(UpdateEntry(s, ids), mode, ids)
    [] s.pc = "s_start" -> Silent(StartEntry(s, mode, ids), mode, ids)
    [] OTHER -> s

\* one write; the caller made sure s stands before one
Write(s, mode, ids) ==
  LET cpn == s.ns[s.cp] IN
  CASE s.pc = "r_new1" ->   \* HSETNX index id1 -> fresh name
         LET f == Fresh(s.ns) IN [s EXCEPT !.idx[ids[1]] = f, !.ns[f].exists = TRUE, !.new = f, !.pc = "r_new2"]
    [] s.pc = "r_new2" ->   \* mode marker of the fresh namespace
         [s EXCEPT !.ns[s.new].mode = mode, !.name = s.new, !.pc = "u_start"]
    [] s.pc = "r_infer" ->  \* persist the inferred mode
         [s EXCEPT !.ns[s.cp].mode = s.cur, !.pc = "r_mode"]
    [] s.pc = "r_setmode" -> \* no usable mode, or a mode of the same family : store the configured one in place
         [s EXCEPT !.ns[s.cp].mode = mode, !.ns[s.cp].exists = TRUE, !.name = s.cp, !.pc = "u_start"]
    [] s.pc = "m_root" ->   \* root entry of the new namespace
         [s EXCEPT !.ns[s.new] = SetRoot(s.ns[s.new], s.seed.rid, s.seed.u), !.pc = "m_state"]
    [] s.pc = "m_state" ->  \* frontier snapshot or latest record of the new namespace
         LET rec == [rid |-> s.seed.rid, seq |-> s.seed.seq, u |-> s.seed.u] IN
         IF UsesFrontier(mode) THEN [s EXCEPT !.ns[s.new].snap = rec, !.pc = "m_mode"]
         ELSE [s EXCEPT !.ns[s.new].latest = rec, !.pc = "m_mode"]
    [] s.pc = "m_mode" -> [s EXCEPT !.ns[s.new].mode = mode, !.pc = "m_idx"]
    [] s.pc = "m_idx" ->   \* repoint the index
         [s EXCEPT !.idx[ids[1]] = s.new, !.pc = IF s.cprid # ids[1] THEN "m_delidx"
                                                  ELSE IF UsesFrontier(s.cur) /\ (cpn.jour # {} \/ cpn.dang) THEN "c_recs" ELSE "c_slot"]
    [] s.pc = "m_delidx" -> [s EXCEPT !.idx[s.cprid] = 0,
                                      !.pc = IF UsesFrontier(s.cur) /\ (cpn.jour # {} \/ cpn.dang) THEN "c_recs" ELSE "c_slot"]
    [] s.pc = "c_recs" -> [s EXCEPT !.ns[s.cp].jour = {}, !.pc = "c_slot"]     \* one DEL with the journal record keys
    [] s.pc = "c_slot" -> [s EXCEPT !.ns[s.cp].latest = NoRec, !.ns[s.cp].jour = {}, !.ns[s.cp].dang = FALSE, !.pc = "c_root"]
    [] s.pc = "c_root" -> [s EXCEPT !.ns[s.cp] = EmptyNs, !.name = s.new, !.pc = "u_start"]
    [] s.pc = "u_set" ->   \* root entry under the current id, in the namespace the start uses
         [s EXCEPT !.ns[s.name] = SetRoot(s.ns[s.name], ids[1], s.seed.u), !.pc = "u_idx"]
    [] s.pc = "u_idx" -> [s EXCEPT !.idx[ids[1]] = s.name,
                                   !.pc = IF s.seed.rid \notin {"", "?"} THEN "u_del" ELSE "s_start"]
    [] s.pc = "u_del" ->   \* drop the entry of the id the position was found under
         [s EXCEPT !.ns[s.cp].root = {e \in s.ns[s.cp].root : e.rid # s.seed.rid},
                   !.pc = IF s.seed.rid # ids[1] THEN "u_delidx" ELSE "s_start"]
    [] s.pc = "u_delidx" -> [s EXCEPT !.idx[s.seed.rid] = 0, !.pc = "s_start"]
    [] s.pc = "s_save" ->  \* persist the rebuilt frontier, then drop the journal records it absorbed (those that were loaded)
         [s EXCEPT !.ns[s.name].snap = [rid |-> s.seed.rid, seq |-> s.seed.seq, u |-> s.seed.u],
                   !.pc = IF s.gone # {} THEN "s_del" ELSE "s_end"]
    [] s.pc = "s_del" ->   \* one DEL per absorbed record, lowest sequence number first, then one ZREM
         LET r0 == CHOOSE r \in s.gone : \A q \in s.gone : r.seq <= q.seq IN
         [s EXCEPT !.ns[s.name].jour = @ \ {r0}, !.ns[s.name].dang = TRUE, !.gone = @ \ {r0},
                   !.pc = IF s.gone = {r0} THEN "s_zrem" ELSE "s_del"]
    [] s.pc = "s_zrem" -> [s EXCEPT !.ns[s.name].dang = s.dang0, !.pc = "s_end"]   \* the index forgets the members just deleted

AtEnd(s) == s.pc \in {"done", "refused"}
\* the program from s up to and including its next write
Step(s, mode, ids) ==
  LET q == Silent(s, mode, ids) IN
  IF AtEnd(q) THEN q
  ELSE IF q.pc = "s_end" THEN Done(q, [rid |-> q.seed.rid, u |-> q.seed.u])
  ELSE LET w == Silent(Write(q, mode, ids), mode, ids) IN
       IF w.pc = "s_end" THEN Done(w, [rid |-> w.seed.rid, u |-> w.seed.u]) ELSE w

Begin(idx, ns) == [idx |-> idx, ns |-> ns, pc |-> "r_start", cp |-> 0, cprid |-> "", new |-> 0, cur |-> "none", name |-> 0, gone |-> {}, dang0 |-> FALSE,
                   seed |-> [ok |-> FALSE, rid |-> "", seq |-> 0, u |-> -1], res |-> [rid |-> "", u |-> -1]]

RECURSIVE RunAll(_, _, _)
RunAll(s, mode, ids) == IF AtEnd(s) THEN s ELSE RunAll(Step(s, mode, ids), mode, ids)
Result(s) == IF s.pc = "refused" THEN [rid |-> "!", u |-> -1] ELSE s.res
\* the mode the current namespace was written under (what a refused start leaves the operator to go back to)
OwnMode(e, ids, dflt) == LET cp == Lookup(e.idx, ids)[1] IN IF cp # 0 /\ e.ns[cp].mode \in Modes THEN e.ns[cp].mode ELSE dflt
=============================================================================
