--------------------------- MODULE BisyncMigrate ---------------------------
(* D layer for the "switching the bidirectional recovery format" clause of C17 (and the start-up    *)
(* bookkeeping of a bidirectional link in general).  What a start does before any data flows,       *)
(* one step per WRITE request the tool sends to the target (reads are folded into the next write):  *)
(*                                                                                                  *)
(*   Resolve      syncer.resolveBisyncCheckpointNameWithClient - look the namespace up in the index *)
(*                hash, create it, infer / store its mode, or migrate the recovery state to the     *)
(*                format of the other mode family (seed a new namespace, repoint the index, drop    *)
(*                the old entry, clean the old namespace up)                                        *)
(*   Update       checkpoint.UpdateCheckpoint - bring the root entry under the current run id       *)
(*   StartPoint   RedisOutput.bisyncStartPoint - latest record / rebuilt frontier / root entry,     *)
(*                with the journal maintenance the frontier modes do at start-up                    *)
(*                                                                                                  *)
(* The target may die between any two writes of the operation (phase "op"); the next start (phase   *)
(* "after", possibly configured with yet another mode) runs to completion.  Property: the position  *)
(* it resumes from is not behind the one a start with the unchanged configuration found (phase      *)
(* "before"), and is not lost.  A start that REFUSES (no seed for the migration) must leave the     *)
(* position reachable for the mode the current namespace is marked with.                            *)
(*                                                                                                  *)
(* Positions are unit numbers: 0 = where the first unit starts, u = the end of unit u, -1 = "none   *)
(* yet" (the marker a voided root entry carries).  Namespaces are numbers (0 = no namespace).       *)
(* FixRoot = FALSE is the tree before a53758a: the migration seed ignored a newer root entry.       *)
EXTENDS BisyncMigrateOps

\* ---------------------------------------------------------------- the state machine TLC explores
VARIABLES st, phase, cfg, before, after, afterold, nw
vars == <<st, phase, cfg, before, after, afterold, nw>>

\* well-formed layouts of one namespace in mode m, as the replay leaves them (positions of records equal their numbers here:
\* the first unit has sequence number 1)
Rec(rid, q) == [rid |-> rid, seq |-> q, u |-> q]
\* A link starts with a full sync, whose completion writes the root entry: a namespace that holds any recovery state holds a
\* root entry (possibly voided, -1).  A namespace without mode marker is either the one a start left that died right after
\* creating it (nothing in it), or a namespace of an older version, which the inference recognises by its latest record /
\* its frontier snapshot.
Layouts(m) ==
  LET roots == {{[rid |-> "A", u |-> u]} : u \in -1..MaxU}
      bare == {[exists |-> TRUE, mode |-> md, root |-> {}, snap |-> NoRec, latest |-> NoRec, jour |-> {}, dang |-> FALSE] : md \in {m, "none"}} IN
  bare \cup
  IF m = "sync" THEN
    {x \in {[exists |-> TRUE, mode |-> md, root |-> r, snap |-> NoRec, latest |-> l, jour |-> {}, dang |-> FALSE] :
        md \in {"sync", "none"}, r \in roots, l \in {NoRec} \cup {Rec("A", q) : q \in 1..MaxU}} :
       x.mode = "none" => x.latest.rid # ""}
  ELSE
    {x \in {[exists |-> TRUE, mode |-> md, root |-> r, snap |-> sn, latest |-> NoRec, jour |-> {Rec("A", q) : q \in J}, dang |-> dg] :
        md \in {m, "none"}, r \in roots, sn \in {NoRec} \cup {Rec("A", q) : q \in 1..MaxU}, J \in SUBSET (1..MaxU), dg \in BOOLEAN} :
       x.mode = "none" => x.snap.seq > 0}

Init ==
  /\ \E m1 \in Modes, m2 \in Modes, m3 \in Modes, fo \in BOOLEAN : \E l \in Layouts(m1) \cup {EmptyNs} :
       /\ cfg = [m1 |-> m1, m2 |-> m2, m3 |-> m3, ids |-> IF fo THEN <<"B", "A">> ELSE <<"A", "Z">>]
       /\ st = Begin([r \in RIDs |-> IF r = "A" /\ l.exists THEN 1 ELSE 0], [x \in Names |-> IF x = 1 THEN l ELSE EmptyNs])
  /\ phase = "op" /\ nw = 0
  /\ before = Result(RunAll(st, cfg.m1, cfg.ids))
  /\ after = [rid |-> "", u |-> -1] /\ afterold = [rid |-> "", u |-> -1]

OpStep == /\ phase = "op" /\ ~AtEnd(st)
          /\ st' = Step(st, cfg.m2, cfg.ids) /\ nw' = nw + 1
          /\ UNCHANGED <<phase, cfg, before, after, afterold>>
\* the target (or the tool) dies between two writes; the next start begins from the bookkeeping as it is
Stop == /\ phase = "op"
        /\ phase' = "after" /\ st' = Begin(st.idx, st.ns)
        /\ UNCHANGED <<cfg, before, after, afterold, nw>>
AfterRun == /\ phase = "after"
            /\ LET e == RunAll(st, cfg.m3, cfg.ids) IN
               /\ after' = Result(e)
               /\ afterold' = IF e.pc = "refused" THEN Result(RunAll(Begin(e.idx, e.ns), OwnMode(e, cfg.ids, cfg.m1), cfg.ids)) ELSE Result(e)
               /\ st' = e
            /\ phase' = "end" /\ UNCHANGED <<cfg, before, nw>>
Next == OpStep \/ Stop \/ AfterRun
Spec == Init /\ [][Next]_vars

\* ---------------------------------------------------------------- properties
Had == before.rid \in RIDs /\ before.u >= 0
\* the position the next start works with : its own, or - when it refuses to start - the one left for the old configuration
Eff == IF after.rid = "!" THEN afterold ELSE after
ResumeNotLost == phase = "end" /\ Had => Eff.rid \in RIDs /\ Eff.u >= 0
ResumeNotBack == phase = "end" /\ Had /\ Eff.rid \in RIDs => Eff.u >= before.u
\* a refusal leaves the bookkeeping alone as far as the old configuration can tell
TypeOK == /\ phase \in {"op", "after", "end"} /\ nw \in 0..40
          /\ \A x \in Names : Cardinality({e.rid : e \in st.ns[x].root}) = Cardinality(st.ns[x].root)
=============================================================================
