-------------------------------- MODULE Resp --------------------------------
(* RESP multi-bulk encoding of a command as the replication stream carries it *)
(* and the offset arithmetic of C12.  A command is a sequence of arguments;   *)
(* only argument LENGTHS matter for offsets, contents are compared in Go.     *)
EXTENDS Integers, Sequences

RECURSIVE Digits(_)
Digits(n) == IF n < 10 THEN 1 ELSE 1 + Digits(n \div 10)

\* "*<n>\r\n" then for every argument "$<len>\r\n<bytes>\r\n"
RECURSIVE SumArgs(_, _)
SumArgs(lens, i) == IF i > Len(lens) THEN 0 ELSE (1 + Digits(lens[i]) + 2 + lens[i] + 2) + SumArgs(lens, i + 1)
EncLen(lens) == 1 + Digits(Len(lens)) + 2 + SumArgs(lens, 1)

\* the one-line form: arguments separated by one blank, then "\r\n"
RECURSIVE SumLens(_, _)
SumLens(lens, i) == IF i > Len(lens) THEN 0 ELSE lens[i] + SumLens(lens, i + 1)
InlineLen(lens) == SumLens(lens, 1) + (Len(lens) - 1) + 2
RECURSIVE EndOffI(_, _, _, _, _)
EndOffI(start, hb, cmds, inl, i) ==
  IF i = 0 THEN start ELSE EndOffI(start, hb, cmds, inl, i - 1) + hb[i] + (IF inl[i] THEN InlineLen(cmds[i]) ELSE EncLen(cmds[i]))

\* end offset of command i when the stream starts at `start`, hb[j] bare "\n"
\* heartbeats precede command j (each is one consumed byte)
RECURSIVE EndOff(_, _, _, _)
EndOff(start, hb, cmds, i) == IF i = 0 THEN start ELSE EndOff(start, hb, cmds, i - 1) + hb[i] + EncLen(cmds[i])

\* concrete byte-level encoding (used to validate EncLen on small cases)
CR == 13
LF == 10
RECURSIVE DecStr(_)
DecStr(n) == IF n < 10 THEN <<48 + n>> ELSE DecStr(n \div 10) \o <<48 + (n % 10)>>
Fill(n) == [i \in 1..n |-> 120]
RECURSIVE EncArgs(_, _)
EncArgs(lens, i) == IF i > Len(lens) THEN <<>>
                    ELSE <<36>> \o DecStr(lens[i]) \o <<CR, LF>> \o Fill(lens[i]) \o <<CR, LF>> \o EncArgs(lens, i + 1)
Enc(lens) == <<42>> \o DecStr(Len(lens)) \o <<CR, LF>> \o EncArgs(lens, 1)
=============================================================================
