------------------------------- MODULE Filter -------------------------------
(* Declarative filter semantics of C10.  Keys, prefixes and command names are *)
(* byte sequences; a slot rule is a sequence of [lo, hi] pairs in any order   *)
(* (overlapping, nested, adjacent ...) and denotes the UNION of the ranges.   *)
EXTENDS Slot, FiniteSets

IsPrefix(p, k) == Len(p) <= Len(k) /\ \A i \in 1..Len(p) : p[i] = k[i]
SeqRange(s) == {s[i] : i \in 1..Len(s)}

InRanges(rs, slot) == \E i \in 1..Len(rs) : rs[i][1] <= slot /\ slot <= rs[i][2]
\* white/black lists: an empty white list accepts everything
SlotOk(white, black, slot) == (Len(white) = 0 \/ InRanges(white, slot)) /\ ~InRanges(black, slot)
PrefixOk(pw, pb, k) == (Len(pw) = 0 \/ \E i \in 1..Len(pw) : IsPrefix(pw[i], k)) /\ ~\E i \in 1..Len(pb) : IsPrefix(pb[i], k)

KeyOk(c, k) == PrefixOk(c.pw, c.pb, k) /\ SlotOk(c.white, c.black, HashSlot(k))

\* Decision for a command whose key arguments are `keys` (in order).
\* Result: [reject, kept] where kept = indices (into keys) that are forwarded.
Decision(c, keys, projectable) ==
  LET ok == {i \in 1..Len(keys) : KeyOk(c, keys[i])} IN
  IF ok = 1..Len(keys) THEN [reject |-> FALSE, kept |-> ok]
  ELSE IF ok = {} THEN [reject |-> TRUE, kept |-> {}]
  ELSE IF projectable THEN [reject |-> FALSE, kept |-> ok]
  ELSE [reject |-> TRUE, kept |-> {}]
=============================================================================
