----------------------------- MODULE LeaseStore -----------------------------
(* The lease store as the election scripts are meant to use it: one string   *)
(* key with a time to live on a clock.  holder = "none" when the key is       *)
(* absent or expired.  Times are in ticks; TTL ticks per lease period.        *)
EXTENDS Integers

None == "none"

Live(st, now) == st.holder # None /\ st.exp > now
HolderOf(st, now) == IF Live(st, now) THEN st.holder ELSE None

\* compare-and-set / extend : returns <<store', reply>>
CampaignAt(st, now, i, ttl) ==
  IF ~Live(st, now) THEN <<[holder |-> i, exp |-> now + ttl], 1>>
  ELSE IF st.holder = i THEN <<[holder |-> i, exp |-> now + ttl], 1>>
  ELSE <<st, 0>>

\* owner-checked delete
ResignAt(st, now, i) ==
  IF ~Live(st, now) THEN <<[holder |-> None, exp |-> 0], 1>>
  ELSE IF st.holder = i THEN <<[holder |-> None, exp |-> 0], 1>>
  ELSE <<st, 0>>
=============================================================================
