-------------------------------- MODULE Slot --------------------------------
(* Redis Cluster HASH_SLOT as a definition (cluster.c keyHashSlot):           *)
(* CRC16/XMODEM of the bytes between the first '{' and the first following    *)
(* '}' when that substring is non-empty, otherwise of the whole key, mod      *)
(* 16384.  Keys are sequences of byte values 0..255.                          *)
EXTENDS Integers, Sequences, Bitwise

LB == 123   \* '{'
RB == 125   \* '}'

RECURSIVE Bits(_, _)
Bits(crc, n) == IF n = 0 THEN crc
                ELSE Bits(IF crc >= 32768 THEN ((crc * 2) % 65536) ^^ 4129 ELSE (crc * 2) % 65536, n - 1)
ByteStep(crc, b) == Bits(crc ^^ (b * 256), 8)
RECURSIVE CrcFrom(_, _, _, _)
CrcFrom(s, i, j, crc) == IF i > j THEN crc ELSE CrcFrom(s, i + 1, j, ByteStep(crc, s[i]))
Crc16Range(s, i, j) == CrcFrom(s, i, j, 0)
Crc16(s) == Crc16Range(s, 1, Len(s))

\* position of the first element equal to b at index >= from (0 = none)
RECURSIVE FirstAt(_, _, _)
FirstAt(s, b, from) == IF from > Len(s) THEN 0 ELSE IF s[from] = b THEN from ELSE FirstAt(s, b, from + 1)

HashSlot(s) ==
  LET o == FirstAt(s, LB, 1)
      c == IF o = 0 THEN 0 ELSE FirstAt(s, RB, o + 1)
  IN IF o # 0 /\ c # 0 /\ c > o + 1 THEN Crc16Range(s, o + 1, c - 1) % 16384
     ELSE Crc16(s) % 16384

\* CRC16/XMODEM check value
ASSUME Crc16(<<49, 50, 51, 52, 53, 54, 55, 56, 57>>) = 12739
=============================================================================
