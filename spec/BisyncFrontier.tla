--------------------------- MODULE BisyncFrontier ---------------------------
(* D-layer prototype for C14 (pipeline / parallel recovery): units, lanes,    *)
(* commit journal, frontier coordinator, crash at any target request,        *)
(* start-up recovery with journal cleanup (syncer/bisync.go 1031-1120,       *)
(* 1408-1548; pkg/redis/checkpoint/bisync.go 502-567).                        *)
(* Source unit k covers offsets (k-1, k]; a run that resumes at offset o     *)
(* re-emits units o+1, o+2, ... numbered memSeq+1, memSeq+2, ...             *)
EXTENDS Integers, Sequences, FiniteSets, TLC

CONSTANTS N, Lanes, MaxCrashes, FixRecovery

Units == 1..N
NoSnap == [seq |-> 0, off |-> 0]

VARIABLES
  \* durable target state
  applied,     \* [Units -> Nat]  how many times the data of source unit k was committed
  journal,     \* set of records [seq, off] (commit:{tag}:<seq> + index entry)
  snap,        \* frontier snapshot [seq, off]
  \* volatile tool state
  running, crashes, base, resumeOff, nextU, inflight, done,
  fr, pending, advanced, gcTodo,
  \* history
  resumes      \* sequence of resume offsets chosen by successive recoveries

vars == <<applied, journal, snap, running, crashes, base, resumeOff, nextU, inflight, done, fr,
          pending, advanced, gcTodo, resumes>>

SeqOf(u) == base + (u - resumeOff)        \* sequence number given to source unit u in this run
Lane(u) == u % Lanes

Init ==
  /\ applied = [u \in Units |-> 0] /\ journal = {} /\ snap = NoSnap
  /\ running = TRUE /\ crashes = 0 /\ base = 0 /\ resumeOff = 0 /\ nextU = 1
  /\ inflight = {} /\ done = {} /\ fr = NoSnap /\ pending = {} /\ advanced = {} /\ gcTodo = {}
  /\ resumes = <<>>

\* dispatcher: same lane strictly sequential (a lane sends the next unit only after its reply)
Dispatch ==
  /\ running /\ nextU <= N
  /\ \A v \in inflight : Lane(v) # Lane(nextU)
  /\ inflight' = inflight \cup {nextU} /\ nextU' = nextU + 1
  /\ UNCHANGED <<applied, journal, snap, running, crashes, base, resumeOff, done, fr, pending,
                 advanced, gcTodo, resumes>>

\* target executes the unit's MULTI/EXEC: data + journal record + index entry, atomically
Commit(u) ==
  /\ running /\ u \in inflight
  /\ applied' = [applied EXCEPT ![u] = @ + 1]
  /\ journal' = {r \in journal : r.seq # SeqOf(u)} \cup {[seq |-> SeqOf(u), off |-> u]}
  /\ inflight' = inflight \ {u} /\ done' = done \cup {u}
  /\ UNCHANGED <<snap, running, crashes, base, resumeOff, nextU, fr, pending, advanced, gcTodo, resumes>>

\* coordinator.onCommitted: fold a reply into the contiguous frontier
RECURSIVE Advance(_, _)
Advance(f, pend) == IF \E r \in pend : r.seq = f.seq + 1
                    THEN LET r == CHOOSE x \in pend : x.seq = f.seq + 1 IN Advance([seq |-> r.seq, off |-> r.off], pend \ {r})
                    ELSE <<f, pend>>
OnCommitted(u) ==
  /\ running /\ u \in done
  /\ LET p2 == pending \cup {[seq |-> SeqOf(u), off |-> u]}
         a == Advance(fr, p2) IN
     /\ fr' = a[1] /\ pending' = a[2]
     /\ advanced' = advanced \cup {r \in p2 : r.seq > fr.seq /\ r.seq <= a[1].seq}
  /\ done' = done \ {u}
  /\ UNCHANGED <<applied, journal, snap, running, crashes, base, resumeOff, nextU, inflight, gcTodo, resumes>>

\* coordinator.flush step 1: save frontier; step 2..: delete journal records one request at a time
FlushSave ==
  /\ running /\ advanced # {} /\ gcTodo = {}
  /\ snap' = fr /\ gcTodo' = advanced /\ advanced' = {}
  /\ UNCHANGED <<applied, journal, running, crashes, base, resumeOff, nextU, inflight, done, fr, pending, resumes>>
FlushDelete ==
  /\ running /\ gcTodo # {}
  /\ \E r \in gcTodo : journal' = {x \in journal : x.seq # r.seq} /\ gcTodo' = gcTodo \ {r}
  /\ UNCHANGED <<applied, snap, running, crashes, base, resumeOff, nextU, inflight, done, fr, pending, advanced, resumes>>

Crash ==
  /\ running /\ crashes < MaxCrashes
  /\ running' = FALSE /\ crashes' = crashes + 1
  /\ inflight' = {} /\ done' = {} /\ pending' = {} /\ advanced' = {} /\ gcTodo' = {}
  /\ UNCHANGED <<applied, journal, snap, base, resumeOff, nextU, fr, resumes>>

\* RebuildBisyncFrontier(snapshot, records with seq > snapshot.seq)
RECURSIVE Rebuild(_, _)
Rebuild(f, recs) == IF \E r \in recs : r.seq = f.seq + 1
                    THEN LET r == CHOOSE x \in recs : x.seq = f.seq + 1 IN Rebuild([seq |-> r.seq, off |-> r.off], recs)
                    ELSE f
\* bisyncStartPoint: rebuild, (optionally persist), clean up the journal records it consumed
Recover ==
  /\ ~running
  /\ LET recs == {r \in journal : r.seq > snap.seq}
         f == Rebuild(snap, recs) IN
     /\ running' = TRUE
     /\ base' = f.seq /\ resumeOff' = f.off /\ nextU' = f.off + 1 /\ fr' = f
     /\ resumes' = Append(resumes, f.off)
     /\ snap' = IF FixRecovery THEN f ELSE snap
     \* cleanupRecoveredBisyncCommitRecords: modelled as one step here; the committed spec splits it
     /\ journal' = {r \in journal : ~(r \in recs /\ r.seq <= f.seq)}
  /\ UNCHANGED <<applied, crashes, inflight, done, pending, advanced, gcTodo>>

Next == Dispatch \/ (\E u \in Units : Commit(u) \/ OnCommitted(u)) \/ FlushSave \/ FlushDelete \/ Crash \/ Recover
Spec == Init /\ [][Next]_vars

(* ---------------- properties ---------------- *)
\* at every instant: what the next start would compute
NextResume == Rebuild(snap, {r \in journal : r.seq > snap.seq}).off
C14_NoSkip == \A u \in Units : u <= NextResume => applied[u] >= 1
C14_ResumeEndsCommittedUnit == NextResume = 0 \/ applied[NextResume] >= 1
C14_ResumeMonotone == \A i \in 1..(Len(resumes) - 1) : resumes[i] <= resumes[i + 1]
=============================================================================
