------------------------------ MODULE LeaseInd ------------------------------
(* Unbounded safety of the lease design of spec/Lease.tla: the same actions (history variable dropped, time not      *)
(* bounded), with type annotations for Apalache.  IndInv is inductive - Init => IndInv, IndInv /\ Next => IndInv' -   *)
(* and implies C15's "at most one acting leader", for every number of ticks and every lease period TTL >= 1.        *)
EXTENDS Integers

CONSTANTS
  \* @type: Set(Str);
  Ids,
  \* @type: Int;
  TTL

VARIABLES
  \* @type: { holder: Str, exp: Int };
  store,
  \* @type: Int;
  now,
  \* @type: Str -> Int;
  acts

None == "none"
Live == store.holder # None /\ store.exp > now
HolderNow == IF Live THEN store.holder ELSE None

\* @type: (Str) => <<{ holder: Str, exp: Int }, Int>>;
CampaignAt(i) ==
  IF ~Live THEN <<[holder |-> i, exp |-> now + TTL], 1>>
  ELSE IF store.holder = i THEN <<[holder |-> i, exp |-> now + TTL], 1>>
  ELSE <<store, 0>>
\* @type: (Str) => { holder: Str, exp: Int };
ResignAt(i) ==
  IF ~Live THEN [holder |-> None, exp |-> 0]
  ELSE IF store.holder = i THEN [holder |-> None, exp |-> 0]
  ELSE store

ConstInit == Ids = {"a", "b", "c"} /\ TTL \in 1..1000000

Init == store = [holder |-> None, exp |-> 0] /\ now = 0 /\ acts = [i \in Ids |-> 0]

\* executed, reply delivered (campaign or renewal)
Campaign(i) ==
  LET r == CampaignAt(i) IN
  /\ store' = r[1]
  /\ acts' = [acts EXCEPT ![i] = IF r[2] = 1 THEN now + TTL ELSE 0]
  /\ UNCHANGED now
\* executed, reply lost or late and given up on : the caller stops acting as leader
CampaignLost(i) == /\ store' = CampaignAt(i)[1] /\ acts' = [acts EXCEPT ![i] = 0] /\ UNCHANGED now
\* never reaches the store
CampaignFail(i) == /\ acts' = [acts EXCEPT ![i] = 0] /\ UNCHANGED <<store, now>>
Resign(i) == /\ store' = ResignAt(i) /\ acts' = [acts EXCEPT ![i] = 0] /\ UNCHANGED now
Tick == /\ now' = now + 1 /\ UNCHANGED <<store, acts>>

Next == (\E i \in Ids : Campaign(i) \/ CampaignLost(i) \/ CampaignFail(i) \/ Resign(i)) \/ Tick

Acting(i) == acts[i] > now
AtMostOneActingLeader == \A i, j \in Ids : (Acting(i) /\ Acting(j)) => i = j

TypeOK == /\ now >= 0 /\ TTL >= 1
          /\ store.holder \in Ids \cup {None} /\ store.exp >= 0
          /\ acts \in [Ids -> Int] /\ \A i \in Ids : acts[i] >= 0
\* an instance that acts as leader is the holder of a lease that lasts at least as long as it acts
ActingImpliesHolder == \A i \in Ids : Acting(i) => (store.holder = i /\ store.exp > now /\ store.exp >= acts[i])
\* no lease outlasts one period from now
HolderCeases == store.exp <= now + TTL
IndInv == TypeOK /\ ActingImpliesHolder /\ HolderCeases
\* any state that satisfies the invariant (the induction hypothesis)
IndInit == /\ now \in Nat
           /\ store \in [holder : Ids \cup {None}, exp : Nat]
           /\ acts \in [Ids -> Nat]
           /\ IndInv
=============================================================================
